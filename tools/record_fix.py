#!/usr/bin/env python3
"""tools/record_fix.py <property> <commit> <signature> <what failed>  — append a `fixed` entry to known_findings.json"""
import json, sys, os
HERE = os.path.dirname(os.path.dirname(os.path.abspath(__file__)))
p = os.path.join(HERE, "known_findings.json")
d = json.load(open(p))
prop, commit, sig, what = sys.argv[1:5]
d["findings"] = [e for e in d["findings"] if not (e["property"] == prop and e["signature"] == sig)]
d["findings"].append({"property": prop, "state": "fixed", "commit": commit, "signature": sig,
                      "line": f"fixed: property={prop} {commit} {what}", "what": what})
d["findings"].sort(key=lambda e: (e["property"], e["signature"]))
with open(p, "w") as f:
    f.write('{\n "_doc": ' + json.dumps(d["_doc"]) + ',\n "findings": [\n')
    f.write(",\n".join("  " + json.dumps(e) for e in d["findings"]))
    f.write("\n ]\n}\n")
