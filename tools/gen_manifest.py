#!/usr/bin/env python3
"""Regenerates MANIFEST.json from the table below (python3 tools/gen_manifest.py)."""
import json, os
HERE = os.path.dirname(os.path.dirname(os.path.abspath(__file__)))

def load_claimed():
    import glob
    out = {}
    ready = set(open(os.path.join(HERE, "manifest.d", "READY")).read().split())
    for f in sorted(glob.glob(os.path.join(HERE, "manifest.d", "C*.json"))):
        pid = os.path.basename(f)[:-5]
        if pid in ready:      # the coordinator lists a property here once its check is clean on /repo
            out[pid] = json.load(open(f))
    return out

CLAIMED = load_claimed()

PENDING_REASON = "check not built yet in this round (planned: Lean model + correspondence, see DESIGN.md section 7)"

def main():
    props = [json.loads(l) for l in open(os.path.join(HERE, "properties.jsonl"))]
    checks, na = [], []
    for p in props:
        pid = p["id"]
        if pid in CLAIMED:
            c = CLAIMED[pid]
            checks.append({
              "property_id": pid,
              "quick_cmd": f"./check {pid} --tier quick",
              "thorough_cmd": f"./check {pid} --tier thorough",
              "evidence_file": f"evidence/{pid}.json",
              "replay_cmd_template": f"./check {pid} --replay {{path}}",
              "engine": "lean-model+correspondence",
              "level_claimed": {"category": "proof", "text": c["text"], "design_ref": "DESIGN.md section " + c["ref"]},
              "level_note": c["note"],
              "technique": c["technique"],
            })
        else:
            na.append({"property_id": pid, "reason": PENDING_REASON})
    man = {
      "version": 1,
      "setup_cmd": "cd lean && lake build PercevalModel; for p in $(cat ../manifest.d/READY); do lake build PercevalModel.Props.$p PercevalModel.Model.$p; done; true",
      "hooks": {"guard": "PERCEVAL_VERIF", "enable": "no hooks are needed: every harness drives public or module-level API",
                "baseline_off_cmd": "cd /repo && /venv/bin/python -m pytest -ra -q -p no:cacheprovider --timeout=900 --continue-on-collection-errors",
                "source_commits": [], "add_only": True},
      "engines": [{"name": "lean-model+correspondence", "path": "lean/ + harness/",
                   "serves_properties": [c["property_id"] for c in checks],
                   "kind_free_text": "Lean 4 theorems about hand-written executable models; Python differential harness ties the models to /repo on every run"}],
      "checks": checks,
      "not_applicable": na,
      "notes": "See DESIGN.md. Exit codes: 0 held, 1 violation (VIOLATION line), 2 harness problem/timeout. Quick tier: when a source file the property is anchored in differs from the digest recorded in anchors.json (tools/record_anchors.py, refreshed after every fix: commit), a quiet run is followed by further correspondence rounds with fresh seeds inside a total budget of 280 s (VERIF_ESCALATE_BUDGET; VERIF_NO_ESCALATE=1 switches it off); on the recorded tree the run is unchanged. Evidence records source_drift and escalation_rounds.",
    }
    json.dump(man, open(os.path.join(HERE, "MANIFEST.json"), "w"), indent=1)
    print(len(checks), "claimed;", len(na), "pending")

if __name__ == "__main__":
    main()
