#!/bin/bash
# tools/finalize.sh — regenerate everything that is derived, then run every READY check once (quick, seed 0) on /repo
cd "$(dirname "$0")/.."
python3 tools/record_anchors.py
python3 tools/gen_manifest.py
(cd lean && lake build PercevalModel 2>&1 | grep -i "error" | head)
tools/run_all.sh quick 0 ${1:-5}
python3 tools/gen_design_status.py
python3-vt - <<'PY'
import json, jsonschema
m = json.load(open('MANIFEST.json')); s = json.load(open('/root/.vp/MANIFEST.schema.json'))
jsonschema.validate(m, s); print('MANIFEST valid,', len(m['checks']), 'checks')
es = json.load(open('/root/.vp/EVIDENCE.schema.json'))
import glob
for f in sorted(glob.glob('evidence/C*.json')):
    jsonschema.validate(json.load(open(f)), es)
print('evidence valid')
PY
