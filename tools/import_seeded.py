#!/usr/bin/env python3
"""tools/import_seeded.py Cxx [round]  — import /tmp/seed/Cxx.out/{1,2,3} as seeded/Cxx-<next..>, verifying each
change in a scratch worktree: the patch applies to /repo HEAD, the demonstration exits 0 on the clean tree and 1 on
the patched one, and the full test-suite with the patch gives the baseline result (746 passed, the five
environmental failures).  Only verified changes are kept; what was run is recorded in meta.json."""
import json, os, re, shutil, subprocess, sys, tempfile

VERIF = os.path.dirname(os.path.dirname(os.path.abspath(__file__)))
ENV_FAIL = {"tests/runtime/test_persistent_data.py::test_access", "test_access", "test_token_file_access"}


def sh(cmd, **kw):
    return subprocess.run(cmd, shell=True, capture_output=True, text=True, **kw)


def main():
    prop = sys.argv[1]
    rnd = int(sys.argv[2]) if len(sys.argv) > 2 else 4
    src = f"/tmp/seed/{prop}.out"
    existing = [int(d.split("-")[1]) for d in os.listdir(os.path.join(VERIF, "seeded")) if d.startswith(prop + "-")]
    nxt = max(existing, default=0) + 1
    only = sys.argv[3].split(",") if len(sys.argv) > 3 else ("1", "2", "3")   # optional: which of the three to import
    for k in only:
        d = os.path.join(src, k)
        if not os.path.exists(os.path.join(d, "patch.diff")):
            print(prop, k, "no patch"); continue
        wt = tempfile.mkdtemp(prefix=f"impwt-{prop}-{k}-", dir="/tmp"); os.rmdir(wt)
        try:
            assert sh(f"git -C /repo worktree add -q --detach {wt} HEAD").returncode == 0
            r = sh(f"git -C {wt} apply {d}/patch.diff")
            if r.returncode != 0:
                print(prop, k, "patch does not apply", r.stderr[-200:]); continue
            r0 = sh(f"PYTHONPATH=/repo timeout 900 /venv/bin/python {d}/demo.py", cwd=d)
            r1 = sh(f"PYTHONPATH={wt} timeout 900 /venv/bin/python {d}/demo.py", cwd=d)
            t = sh("timeout 2400 /venv/bin/python -m pytest -q -p no:cacheprovider --timeout=900 "
                   "--continue-on-collection-errors -n 8 2>&1 | tail -15", cwd=wt)
            tail = t.stdout.strip().splitlines()
            summary = tail[-1] if tail else ""
            failed = sorted(set(re.findall(r"^(?:FAILED|ERROR) (\S+)", t.stdout, re.M)))
            ok_suite = ("746 passed" in summary and "4 failed" in summary and "1 error" in summary)
            ok = r0.returncode == 0 and r1.returncode == 1 and ok_suite
            print(prop, k, "demo", r0.returncode, r1.returncode, "|", summary, "| keep" if ok else "| DROP", flush=True)
            if not ok:
                print("   failed:", failed)
                continue
            name = f"{prop}-{nxt}"; nxt += 1
            dst = os.path.join(VERIF, "seeded", name)
            os.makedirs(dst, exist_ok=True)
            for f in ("patch.diff", "demo.py", "notes.md"):
                if os.path.exists(os.path.join(d, f)):
                    shutil.copy(os.path.join(d, f), dst)
            json.dump({"property": prop, "round": rnd,
                       "author": "independent sub-agent given only the property text, one-line titles of earlier "
                                 "seeded changes for the property, and a scratch worktree of /repo",
                       "needs_to_manifest": "see notes.md",
                       "verified_by_coordinator": "tools/import_seeded.py in a scratch worktree of /repo HEAD: patch "
                                                  "applies; demo.py exit 0 on the clean tree, exit 1 on the patched "
                                                  "tree; full test-suite with the patch applied",
                       "suite_with_patch": summary, "suite_failed_or_error": failed,
                       "repo_head": sh("git -C /repo rev-parse --short HEAD").stdout.strip()},
                      open(os.path.join(dst, "meta.json"), "w"), indent=1)
        finally:
            sh(f"git -C /repo worktree remove --force {wt}"); shutil.rmtree(wt, ignore_errors=True)


if __name__ == "__main__":
    main()
