#!/bin/bash
p=$1
git -C /repo worktree remove --force /tmp/harm/$p 2>/dev/null; rm -rf /tmp/harm/$p.out; mkdir -p /tmp/harm/$p.out
git -C /repo worktree add -q --detach /tmp/harm/$p HEAD
python3 - <<PY
import json
for l in open('/verif/properties.jsonl'):
    pr=json.loads(l)
    if pr['id']=='$p':
        text=json.dumps(pr,indent=1); open('/tmp/harm/$p.property.txt','w').write(text)
t=open('/verif/tools/prompts/harmless_change.md').read()
t=t.replace('{WT}','/tmp/harm/$p').replace('{PROP}','/tmp/harm/$p.property.txt').replace('{OUT}','/tmp/harm/$p.out').replace('{TEXT}',text)
open('/tmp/harm/$p.prompt.txt','w').write(t)
PY
echo prepared $p
