#!/usr/bin/env python3
"""Run the registered checks against every seeded change in /verif/seeded/<name>/.

For each seeded/<name>/{patch.diff, meta.json}: make a scratch git worktree of /repo (HEAD plus the
uncommitted state is NOT copied: seeded patches are made against HEAD), apply the patch, run
`VERIF_REPO=<wt> ./check <property> --tier <tier>` with evidence redirected to a scratch directory (so
the committed evidence is never written from a mutated tree), record whether a VIOLATION line was
printed, remove the worktree.  Also runs the demonstration (demo.py) on the clean and on the patched
tree.  Results -> seeded/RESULTS.json and a table on stdout.

usage: tools/seeded_run.py [--tier quick] [--only name-substring] [--jobs 4]
"""
import argparse
import concurrent.futures as cf
import json
import os
import shutil
import subprocess
import tempfile
import time

VERIF = os.path.dirname(os.path.dirname(os.path.abspath(__file__)))
REPO = "/repo"


def sh(cmd, **kw):
    return subprocess.run(cmd, shell=True, capture_output=True, text=True, **kw)


def one(name, tier, seeds, base="seeded"):
    d = os.path.join(VERIF, base, name)
    meta = json.load(open(os.path.join(d, "meta.json")))
    prop = meta["property"]
    wt = tempfile.mkdtemp(prefix=f"seedwt-{name}-", dir="/tmp")
    os.rmdir(wt)
    evd = tempfile.mkdtemp(prefix=f"seedev-{name}-", dir="/tmp")
    res = {"name": name, "property": prop, "caught": False, "runs": []}
    try:
        r = sh(f"git -C {REPO} worktree add -q --detach {wt} HEAD")
        if r.returncode != 0:
            res["error"] = "worktree: " + r.stderr[-300:]
            return res
        r = sh(f"git -C {wt} apply {os.path.join(d, 'patch.diff')}")
        if r.returncode != 0:   # the patch was written against an earlier HEAD (before later fix: commits): 3-way merge
            r = sh(f"git -C {wt} apply --3way {os.path.join(d, 'patch.diff')}")
            res["applied_3way"] = True
        if r.returncode != 0:
            res["error"] = "patch does not apply: " + r.stderr[-300:]
            return res
        eq = os.path.join(d, "equiv.py")
        if os.path.exists(eq):   # harmless change: the digest must be identical on the clean and on the patched tree
            r0 = sh(f"PYTHONPATH={REPO} timeout 900 /venv/bin/python {eq}", cwd=d)
            r1 = sh(f"PYTHONPATH={wt} timeout 900 /venv/bin/python {eq}", cwd=d)
            res["equiv_same_digest"] = (r0.returncode == 0 and r1.returncode == 0 and r0.stdout == r1.stdout)
        demo = os.path.join(d, "demo.py")
        if os.path.exists(demo):
            r0 = sh(f"PYTHONPATH={REPO} timeout 600 /venv/bin/python {demo}", cwd=d)
            r1 = sh(f"PYTHONPATH={wt} timeout 600 /venv/bin/python {demo}", cwd=d)
            res["demo_clean_rc"], res["demo_patched_rc"] = r0.returncode, r1.returncode
        for seed in seeds:
            t0 = time.time()
            env = dict(os.environ, VERIF_REPO=wt, VERIF_EVIDENCE_DIR=evd, VERIF_SEED=str(seed))
            r = sh(f"timeout 3000 ./check {prop} --tier {tier}", cwd=VERIF, env=env)
            lines = [l for l in r.stdout.splitlines() if l.startswith("VIOLATION")]
            res["runs"].append({"seed": seed, "rc": r.returncode, "violations": lines,
                                "wall_s": round(time.time() - t0, 1),
                                "stderr_tail": r.stderr[-300:] if r.returncode not in (0, 1) else ""})
            if lines and r.returncode == 1:
                res["caught"] = True
                if base == "seeded":
                    break
    finally:
        sh(f"git -C {REPO} worktree remove --force {wt}")
        shutil.rmtree(wt, ignore_errors=True)
        shutil.rmtree(evd, ignore_errors=True)
    return res


def main():
    ap = argparse.ArgumentParser()
    ap.add_argument("--tier", default="quick")
    ap.add_argument("--only", default="")
    ap.add_argument("--exact", action="store_true", help="--only names one seeded change exactly")
    ap.add_argument("--jobs", type=int, default=4)
    ap.add_argument("--seeds", default="0,1")
    ap.add_argument("--dir", default="seeded", help="seeded (a VIOLATION is expected) or harmless (quiet is expected)")
    a = ap.parse_args()
    seeds = [int(x) for x in a.seeds.split(",")]
    names = sorted(n for n in os.listdir(os.path.join(VERIF, a.dir))
                   if os.path.exists(os.path.join(VERIF, a.dir, n, "meta.json")) and (n == a.only if a.exact else a.only in n))
    out = []
    with cf.ThreadPoolExecutor(a.jobs) as ex:
        for r in ex.map(lambda n: one(n, a.tier, seeds, a.dir), names):
            out.append(r)
            v = r["runs"][-1]["violations"][:1] if r["runs"] else r.get("error")
            if a.dir == "seeded":
                print(f"{r['name']:40s} {r['property']} caught={r['caught']} demo={r.get('demo_clean_rc')}/{r.get('demo_patched_rc')} {v}",
                      flush=True)
            else:
                allv = [x for run in r["runs"] for x in run["violations"]]
                print(f"{r['name']:40s} {r['property']} alarm={r['caught']} same_digest={r.get('equiv_same_digest')} "
                      f"rcs={[run['rc'] for run in r['runs']]} {allv[:3]}", flush=True)
    path = os.path.join(VERIF, a.dir, "RESULTS.json")
    import fcntl
    with open(path + ".lock", "w") as lk:   # several runs may finish at the same time
        fcntl.flock(lk, fcntl.LOCK_EX)
        old = {}
        if os.path.exists(path):
            old = {r["name"]: r for r in json.load(open(path))}
        for r in out:
            old[r["name"]] = r
        json.dump(sorted(old.values(), key=lambda r: r["name"]), open(path, "w"), indent=1)


if __name__ == "__main__":
    main()
