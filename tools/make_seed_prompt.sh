#!/bin/bash
# tools/make_seed_prompt.sh Cxx  — scratch worktree /tmp/seed/Cxx at /repo HEAD + prompt /tmp/seed/Cxx.prompt.txt
# (property text only; plus one-line titles of changes already seeded for that property, to get different ones)
p=$1
git -C /repo worktree remove --force /tmp/seed/$p 2>/dev/null; rm -rf /tmp/seed/$p.out; mkdir -p /tmp/seed/$p.out
git -C /repo worktree add -q --detach /tmp/seed/$p HEAD
python3 - <<PY
import json, glob
for l in open('/verif/properties.jsonl'):
    pr=json.loads(l)
    if pr['id']=='$p':
        text=json.dumps(pr,indent=1); open('/tmp/seed/$p.property.txt','w').write(text)
t=open('/verif/tools/prompts/seeded_mutation.md').read()
t=t.replace('{WT}','/tmp/seed/$p').replace('{PROP}','/tmp/seed/$p.property.txt').replace('{OUT}','/tmp/seed/$p.out').replace('{TEXT}',text)
used=[]
for f in sorted(glob.glob('/verif/seeded/$p-*/notes.md')):
    first=open(f).readline().strip().lstrip('# ').strip()
    if first: used.append(first)
if used:
    t+="\nIdeas ALREADY used by earlier seeded changes for this property (do something genuinely different: other functions, other mechanisms, other trigger conditions):\n"+"\n".join("  - "+u for u in used)+"\n"
open('/tmp/seed/$p.prompt.txt','w').write(t)
PY
echo prepared $p
