#!/bin/bash
# tools/run_all.sh [tier] [seed] [jobs]  — run every READY check against /repo, print one line each.
cd "$(dirname "$0")/.."
tier=${1:-quick}; seed=${2:-0}; jobs=${3:-4}
mkdir -p /tmp/verif-runall
run() { p=$1; s=$(date +%s); VERIF_SEED=$seed timeout 3600 ./check $p --tier $tier > /tmp/verif-runall/$p.out 2> /tmp/verif-runall/$p.err; rc=$?;
  echo "$p rc=$rc $(( $(date +%s)-s ))s $(grep -c '^VIOLATION' /tmp/verif-runall/$p.out) violations $(grep -c '^KNOWN-FINDING' /tmp/verif-runall/$p.out) known"; }
export -f run; export tier seed
cat manifest.d/READY | xargs -P $jobs -I{} bash -c 'run {}'
