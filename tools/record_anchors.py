#!/usr/bin/env python3
"""Record the digests of the source files every property is anchored in (properties.jsonl -> anchors.files)
as they are in /repo now -> /verif/anchors.json.  Run after every `fix:` commit in /repo.

The quick tier compares the working tree with these digests: when an anchored file of the property differs
from the recorded one (the code is no longer the code the model was last validated against), a quiet quick
run is followed by further correspondence rounds with fresh seeds inside a time budget (harness/main.py)."""
import hashlib
import json
import os
import subprocess

VERIF = os.path.dirname(os.path.dirname(os.path.abspath(__file__)))
REPO = os.environ.get("VERIF_REPO", "/repo")


def main():
    out = {"repo_head": subprocess.run(["git", "-C", REPO, "rev-parse", "HEAD"], capture_output=True,
                                       text=True).stdout.strip(), "files": {}}
    extra = {}
    if os.path.exists(os.path.join(VERIF, "extra_anchors.json")):   # files a model covers beyond the property's own anchors
        extra = json.load(open(os.path.join(VERIF, "extra_anchors.json")))
    for line in open(os.path.join(VERIF, "properties.jsonl")):
        p = json.loads(line)
        d = {}
        for f in list(p["anchors"]["files"]) + [x for x in extra.get(p["id"], []) if x not in p["anchors"]["files"]]:
            path = os.path.join(REPO, f)
            d[f] = hashlib.sha256(open(path, "rb").read()).hexdigest() if os.path.exists(path) else None
        out["files"][p["id"]] = d
    json.dump(out, open(os.path.join(VERIF, "anchors.json"), "w"), indent=1, sort_keys=True)
    print("recorded", sum(len(v) for v in out["files"].values()), "digests at", out["repo_head"][:10])


if __name__ == "__main__":
    main()
