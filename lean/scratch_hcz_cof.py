import sympy as sp, itertools
r, h, c2, s2 = sp.symbols('r h c2 s2')
U = sp.Matrix([
 [1, 0, 0, 0, 0, 0],
 [0, -r*r, 0, -(2*h*(r*r)), 2*h*(r*r), 2*(r*r)],
 [0, 0, 1, 0, 0, 0],
 [0, 2*h*(r*r), 0, -r*r, -(2*(r*r)), 2*h*(r*r)],
 [0, -(2*c2*h*r), 0, 2*h*r*s2, -(c2*r), r*s2],
 [0, -(2*h*r*s2), 0, -(2*c2*h*r), -(r*s2), -(c2*r)]])
rels = [3*r*r-1, 2*h*h-1, 6*c2*c2-3-6*h*r, 6*s2*s2-3+6*h*r, 2*c2*s2-r]
names = ['hr', 'hh', 'hc', 'hs', 'hcs']
def expand_state(s):
    out = []
    for i, c in enumerate(s): out += [i]*c
    return out
def perm(M):
    n = M.shape[0]
    tot = 0
    for p in itertools.permutations(range(n)):
        t = 1
        for i in range(n): t *= M[i, p[i]]
        tot += t
    return sp.expand(tot)
def amp(s, t):
    rows = expand_state(t); cols = expand_state(s)
    return perm(sp.Matrix([[U[a, b] for b in cols] for a in rows]))
def lean(e):
    s = sp.sstr(sp.expand(e))
    for k in range(9, 1, -1):
        for v in ['r', 'h', 'c2', 's2']:
            s = s.replace(f'{v}**{k}', f'{v}^{k}')
    return s
def cof(poly, label):
    poly = sp.expand(poly)
    if poly == 0:
        print(label, ': ring'); return
    best = None
    for gens in itertools.permutations([c2, s2, h, r]):
        for order in ['lex', 'grlex', 'grevlex']:
            for perm_rels in [list(range(5))]:
                try:
                    q, rem = sp.reduced(poly, rels, *gens, order=order)
                except Exception as e:
                    continue
                if rem == 0:
                    size = sum(len(str(x)) for x in q)
                    if best is None or size < best[0]: best = (size, q)
    if best is None:
        print(label, ': NO plain reduction'); return
    q = best[1]
    assert sp.expand(poly - sum(a*b for a, b in zip(q, rels))) == 0
    D = 1
    for a in q:
        for cf in sp.Poly(a, c2, s2, h, r).coeffs():
            D = sp.ilcm(D, sp.Rational(cf).q)
    a2 = 0; b3 = 0; d = D
    while d % 2 == 0: d //= 2; a2 += 1
    while d % 3 == 0: d //= 3; b3 += 1
    assert d == 1
    X = 3*r*r; Y = 2*h*h
    u = (r*r)**b3 * (h*h)**a2
    A = sum(X**k for k in range(b3)) * Y**a2
    B = sum(Y**k for k in range(a2))
    Q = [sp.expand(u*D*a) for a in q]
    Q[0] = sp.expand(Q[0] - A*poly); Q[1] = sp.expand(Q[1] - B*poly)
    assert sp.expand(poly - sum(a*b for a, b in zip(Q, rels))) == 0
    for a in Q:
        assert all(sp.Rational(cf).q == 1 for cf in sp.Poly(a, c2, s2, h, r).coeffs())
    print('--', label, 'D =', D)
    print('    linear_combination ' + ' +\n      '.join(f'({lean(a)}) * {n}' for a, n in zip(Q, names) if a != 0))
def enc(a, b): return [1-a, a, 1-b, b, 1, 1]
sc = 2*h*r*(r*r)
for a in (0, 1):
    for b in (0, 1):
        cz = -1 if (a and b) else 1
        cof(amp(enc(a, b), enc(a, b)) - sc*cz, f'amp{a}{b}')
leaks = [([0,1,0,1,1,1],[0,2,0,0,1,1]), ([0,1,0,1,1,1],[0,0,0,2,1,1]), ([0,1,1,0,1,1],[0,0,1,1,1,1]), ([1,0,0,1,1,1],[1,1,0,0,1,1])]
for s, t in leaks:
    cof(amp(s, t), f'leak {s}->{t}')
cof(27*sc*sc - 2, 'prob')
