import PercevalModel.Num.GQ
import PercevalModel.Found.LinAlg
import PercevalModel.Found.Memo
import PercevalModel.Proto
import PercevalModel.Props.C01
import PercevalModel.Found.SM
import PercevalModel.Found.Fock
import PercevalModel.Props.C02
