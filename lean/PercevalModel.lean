import PercevalModel.Num.GQ
import PercevalModel.Found.LinAlg
