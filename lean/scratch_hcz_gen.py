import sympy as sp
r, h, c2, s2 = sp.symbols('r h c2 s2')

def eye(): return sp.eye(6)
def emb(o, B):
    M = sp.eye(6)
    k = B.shape[0]
    for i in range(k):
        for j in range(k):
            M[o+i, o+j] = B[i, j]
    return M
def bsH(c, s): return sp.Matrix([[c, s], [s, -c]])
sw = sp.Matrix([[0, 1], [1, 0]])
P12 = emb(1, sw); P34 = emb(3, sw)
PS2 = emb(2, sp.Matrix([[-1]])); PS5 = emb(5, sp.Matrix([[-1]]))
comps = [('P12', P12), ('P34', P34), ('PS2', PS2), ('PS5', PS5), ('B2a', emb(2, bsH(r, 2*h*r))),
         ('B4a', emb(4, bsH(r, 2*h*r))), ('P34', P34), ('B2b', emb(2, bsH(r, -(2*h*r)))),
         ('B4b', emb(4, bsH(c2, s2))), ('P12', P12)]

def lean(e):
    e = sp.expand(e)
    if e == 0: return '0'
    s = sp.sstr(e).replace('**2', '^2').replace('**3', '^3').replace('**4', '^4')
    return s
def leanmat(M):
    rows = []
    for i in range(6):
        rows.append(', '.join(lean(M[i, j]) for j in range(6)))
    return '  !![' + ';\n     '.join(rows) + ']'

M = sp.eye(6)
steps = []
for k, (nm, C) in enumerate(comps):
    M = (C * M).applyfunc(sp.expand)
    steps.append(M)
    print(f'-- step {k} after {nm}')
    print(leanmat(M))
final = M
final_s = final.applyfunc(lambda e: sp.expand(e.subs(h**2, sp.Rational(1, 2))))
print('-- final simplified')
print(leanmat(final_s))
