import PercevalModel.Proto
import PercevalModel.Model.C02
import PercevalModel.Model.C02Sess
import PercevalModel.Model.C02SessK
import PercevalModel.Lemmas.C02Perm
import PercevalModel.Found.Memo
import PercevalModel.Found.Perm

open Lean PM PM.Proto PM.Fock PM.C02

def matOfRows (k : ℕ) (rows : Array (Array GQ)) : Matrix (Fin k) (Fin k) GQ :=
  fun i j => (rows.getD i.val #[]).getD j.val 0

def maskOfJson (j : Json) : Except String (List (Option ℕ)) := do
  (← j.getArr?).toList.mapM fun x => match x with
    | .null => pure none
    | _ => do pure (some (← x.getNat?))

def statesJson (l : List (List ℕ)) : Json := Json.arr (l.map (fun s => toJson s)).toArray

def squareOf (j : Json) (m : ℕ) : Except String (Matrix (Fin m) (Fin m) GQ) := do
  let rows ← gqRows j
  if rows.size ≠ m ∨ rows.any (·.size ≠ m) then throw "bad matrix"
  return matOfRows m rows

/-- one element of the Stepper's circuit: `{"r0":…, "U": rows}` or `{"r0":…, "perm": […]}` -/
def stepOfJson (M : ℕ) (j : Json) : Except String (Step GQ) := do
  let r0 ← natOf j "r0"
  match j.getObjVal? "perm" with
  | .ok pj =>
    let σ ← natList pj
    if ¬ decide (IsPermList σ.length σ) then throw "not a permutation"
    if r0 + σ.length > M then throw "component outside the circuit"
    return .perm r0 σ
  | .error _ =>
    let rows ← gqRows (← j.getObjVal? "U")
    let k := rows.size
    if rows.any (·.size ≠ k) then throw "bad matrix"
    if r0 + k > M then throw "component outside the circuit"
    return .block ⟨k, r0, matOfRows k rows⟩

/-- one operation of a backend session: `{"o":"circ","m":3}`, `{"o":"input","s":[…]}`,
`{"o":"mask","masks":[[…]],"n":null|k}`, `{"o":"clear"}`, `{"o":"bulk","q":"allprob"|"dist"|"evolve","s":null|[…]}` -/
def sessOpOfJson (j : Json) : Except String Sess.OpK := do
  let o ← strOf j "o"
  match o with
  | "circ" => return .setCircuit (← natOf j "m")
  | "input" => return .setInput (← natList (← j.getObjVal? "s"))
  | "mask" =>
    let masks ← (← arrOf j "masks").toList.mapM maskOfJson
    let n ← match ← j.getObjVal? "n" with
      | .null => pure none
      | x => do pure (some (← x.getNat?))
    return .setMask masks n
  | "clear" => return .clearMask
  | "bulk" =>
    let q ← strOf j "q"
    match q with
    | "allprob" =>
      match ← j.getObjVal? "s" with
      | .null => return .bulk (.allProb none)
      | x => return .bulk (.allProb (some (← natList x)))
    | "dist" => return .bulk .dist
    | "evolve" => return .bulk .evolve
    | _ => throw "unknown query"
  | _ => throw "unknown session op"

def sessOutJson : Except String (Option Sess.Ans) → Json
  | .ok none => Json.mkObj [("ok", Json.null)]
  | .ok (some l) => Json.mkObj [("ok", Json.mkObj [("labels", statesJson (l.map Prod.fst)),
      ("values", statesJson (l.map Prod.snd))])]
  | .error e => Json.mkObj [("err", .str e)]

def handle (j : Json) : Json :=
  match (do
    let op ← strOf j "op"
    match op with
    | "session" =>
      -- the configuration glue of AStrongSimulationBackend and its SLOS / SLAP overrides: one answer per
      -- operation, stops at the first exception
      let ops ← (← arrOf j "ops").toList.mapM sessOpOfJson
      let kind ← strOf j "kind"
      let outs ← match kind with
        | "base" => pure (Sess.runK Sess.stepB {} ops)
        | "slos" => pure (Sess.runK Sess.stepS {} ops)
        | "slap" => pure (Sess.runK Sess.stepP {} ops)
        | _ => throw "unknown kind"
      return Json.mkObj [("outs", Json.arr (outs.map sessOutJson).toArray)]
    | "mps2" =>
      -- MPSBackend._transition_matrix_2_mode: the double sum, all (n1, n2, m1, m2) < d = nmax + 1
      let U ← squareOf (← j.getObjVal? "U") 2
      let nmax ← natOf j "nmax"
      let r := List.range (nmax + 1)
      let cells := r.flatMap fun n1 => r.flatMap fun n2 => r.flatMap fun m1 => r.map fun m2 =>
        (n1, n2, m1, m2)
      let tm := cells.map fun (n1, n2, m1, m2) => gqToJson (tm2 U nmax n1 n2 m1 m2)
      -- the permanent only where the theorem speaks (n1 + n2 ≤ nmax): beyond, the tensor is empty and a
      -- permanent of up to 2·nmax photons would be evaluated for nothing
      let pa := cells.map fun (n1, n2, m1, m2) =>
        gqToJson (if n1 + n2 ≤ nmax then pamp U [n1, n2] [m1, m2] else 0)
      return Json.mkObj [("tm2", Json.arr tm.toArray), ("pamp", Json.arr pa.toArray)]
    | "mps1" =>
      let U ← squareOf (← j.getObjVal? "U") 1
      let d ← natOf j "d"
      let r := List.range d
      let cells := r.flatMap fun i => r.map fun k => (i, k)
      let tm := cells.map fun (i, k) => gqToJson (tm1 U d i k)
      let pa := cells.map fun (i, k) => gqToJson (pamp U [i] [k])
      return Json.mkObj [("tm1", Json.arr tm.toArray), ("pamp", Json.arr pa.toArray)]
    | "stepper" =>
      -- Stepper.compile, element by element, every intermediate vector
      let M ← natOf j "m"
      let s ← natList (← j.getObjVal? "s")
      if s.length ≠ M then throw "bad input state"
      let steps ← (← arrOf j "steps").toList.mapM (stepOfJson M)
      let sts := allStates M s.sum
      let init : SV GQ := [(s, (prodFact s : GQ))]
      let (_, vecsRev) := steps.foldl (fun (acc : SV GQ × List (SV GQ)) st =>
        let sv := stepperStep FockComp.gqInv st acc.1
        (sv, sv :: acc.2)) (init, [])
      let vecs := vecsRev.reverse
      let final := stepperRunS FockComp.gqInv steps s
      -- the matrix of the whole list, materialised after every product
      let A := steps.foldl (fun (A : MatV GQ M M) st =>
        MatV.ofMatrix (stepMatrix M st * A.toMatrix)) (MatV.ofMatrix (1 : Matrix (Fin M) (Fin M) GQ))
      let vj := vecs.map fun (sv : SV GQ) => Json.arr (sts.map fun t => gqToJson (svGet sv t)).toArray
      let outside := vecs.map fun (sv : SV GQ) =>
        toJson (sv.filter fun (p : List ℕ × GQ) => !(sts.contains p.1)).length
      return Json.mkObj [("states", statesJson sts), ("vecs", Json.arr vj.toArray),
        ("final", Json.arr (sts.map fun t => gqToJson (svGet final t)).toArray),
        ("pamp", Json.arr (sts.map fun t => gqToJson (pamp A.toMatrix s t)).toArray),
        ("outside", Json.arr outside.toArray)]
    | _ =>
    let m ← natOf j "m"
    let rows ← gqRows (← j.getObjVal? "U")
    if rows.size ≠ m ∨ rows.any (·.size ≠ m) then throw "bad matrix"
    let U := matOfRows m rows
    match op with
    | "table" =>
      -- all inputs × all outputs of the (m, n) space: pamp (spec), naive loop, SLOS recursion
      let n ← natOf j "n"
      let sts := allStates m n
      let tab := sts.map fun s => Json.arr (sts.map fun t => gqToJson (pamp U s t)).toArray
      let naive := sts.map fun s => Json.arr (sts.map fun t => gqToJson (naivePamp U s t)).toArray
      let slos := sts.map fun s => Json.arr (sts.map fun t => gqToJson (slosPamp U s t)).toArray
      return Json.mkObj [("states", statesJson sts), ("pamp", Json.arr tab.toArray),
        ("naive", Json.arr naive.toArray), ("slos", Json.arr slos.toArray)]
    | "row" =>
      -- one input, optional masks, also outputs of other photon numbers on request
      let s ← natList (← j.getObjVal? "s")
      let masks ← (← arrOf j "masks").toList.mapM maskOfJson
      let sts := bulkStates m s masks
      let amps := sts.map fun t => gqToJson (pamp U s t)
      let probs := (allProb U s masks).map ratToJson
      let extra ← (← arrOf j "extra").toList.mapM natList
      let ex := extra.map fun t => gqToJson (pamp U s t)
      let evp := (evolveProbs U s masks).map fun (p : List ℕ × ℚ) => ratToJson p.2
      return Json.mkObj [("states", statesJson sts), ("pamp", Json.arr amps.toArray),
        ("prob", Json.arr probs.toArray), ("extra", Json.arr ex.toArray),
        ("mass", ratToJson (keptMass U s masks)), ("evprob", Json.arr evp.toArray)]
    | "perm" =>
      let perm ← natList (← j.getObjVal? "perm")
      let r0 ← natOf j "r0"
      let st ← natList (← j.getObjVal? "state")
      return Json.mkObj [("state", toJson (permApply perm r0 st))]
    | _ => throw "unknown op") with
  | .ok r => r
  | .error e => errJson e

def main : IO Unit := run handle
