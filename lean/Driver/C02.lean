import PercevalModel.Proto
import PercevalModel.Model.C02

open Lean PM PM.Proto PM.Fock PM.C02

def matOfRows (k : ℕ) (rows : Array (Array GQ)) : Matrix (Fin k) (Fin k) GQ :=
  fun i j => (rows.getD i.val #[]).getD j.val 0

def maskOfJson (j : Json) : Except String (List (Option ℕ)) := do
  (← j.getArr?).toList.mapM fun x => match x with
    | .null => pure none
    | _ => do pure (some (← x.getNat?))

def statesJson (l : List (List ℕ)) : Json := Json.arr (l.map (fun s => toJson s)).toArray

def handle (j : Json) : Json :=
  match (do
    let op ← strOf j "op"
    let m ← natOf j "m"
    let rows ← gqRows (← j.getObjVal? "U")
    if rows.size ≠ m ∨ rows.any (·.size ≠ m) then throw "bad matrix"
    let U := matOfRows m rows
    match op with
    | "table" =>
      -- all inputs × all outputs of the (m, n) space: pamp (spec), naive loop, SLOS recursion
      let n ← natOf j "n"
      let sts := allStates m n
      let tab := sts.map fun s => Json.arr (sts.map fun t => gqToJson (pamp U s t)).toArray
      let naive := sts.map fun s => Json.arr (sts.map fun t => gqToJson (naivePamp U s t)).toArray
      let slos := sts.map fun s => Json.arr (sts.map fun t => gqToJson (slosPamp U s t)).toArray
      return Json.mkObj [("states", statesJson sts), ("pamp", Json.arr tab.toArray),
        ("naive", Json.arr naive.toArray), ("slos", Json.arr slos.toArray)]
    | "row" =>
      -- one input, optional masks, also outputs of other photon numbers on request
      let s ← natList (← j.getObjVal? "s")
      let masks ← (← arrOf j "masks").toList.mapM maskOfJson
      let sts := bulkStates m s masks
      let amps := sts.map fun t => gqToJson (pamp U s t)
      let probs := (allProb U s masks).map ratToJson
      let extra ← (← arrOf j "extra").toList.mapM natList
      let ex := extra.map fun t => gqToJson (pamp U s t)
      return Json.mkObj [("states", statesJson sts), ("pamp", Json.arr amps.toArray),
        ("prob", Json.arr probs.toArray), ("extra", Json.arr ex.toArray)]
    | "perm" =>
      let perm ← natList (← j.getObjVal? "perm")
      let r0 ← natOf j "r0"
      let st ← natList (← j.getObjVal? "state")
      return Json.mkObj [("state", toJson (permApply perm r0 st))]
    | _ => throw "unknown op") with
  | .ok r => r
  | .error e => errJson e

def main : IO Unit := run handle
