import PercevalModel.Proto
import PercevalModel.Model.C13
import PercevalModel.Model.C13Kinds
import PercevalModel.Model.C13Proc
import PercevalModel.Model.C13Shape
import PercevalModel.SimProto

/-!
  C13 driver.  Requests (one JSON object per line):

  * `{"op":"labels"}` → `POLARIZATION_MAPPING` in quarter turns.
  * `{"op":"unitary","tree":T,"flag":null|true|false}` → the matrix `compute_unitary(use_polarization=flag)`
    reports (`{"n":…, "doubled":…, "U":…}`), or `{"err":"AssertionError"}`.
  * `{"op":"probs","tree":T,"modes":[[[c,s,p,q],…],…],"fixed":true|false}` → conversion of the
    polarised input (`input`, `prep`), acceptance test of `Unitary(upol @ prep)`, exact Fock-space
    distribution on the doubled modes, sub-modes merged (`states`, `probs`), or `{"err":…}`
    (the stateless `answer` of the model).
  * `{"op":"evolve","tree":T,"modes":…,"fixed":b[,"cond":C]}` → as `probs`, plus `sv`: the state vector
    `evolve` returns (`polSV`): `[[ [h,v] per mode ], perm, ∏s!∏t!]` per entry; with `cond` (heralds /
    post-selection set on the layer, heralded modes kept) also `sel`: `{"R": retained mass, "sv": entries}` (`selectSV`).
  * `{"op":"convert","modes":…,"symbolic":b,"inverse":b}` → `{"input":…,"prep":rows}` of
    `convert_polarized_state(state, use_symbolic, inverse)` or `{"err":…}`.
  * `{"op":"select","tree":T,"modes":…,"fixed":b,"filterFixed":b,"sel":{"heralds":[[mode,val],…],
    "ps":<expr>,"minDet":v,"keepHeralds":b}}` → the reply of `probs_svd` of the polarisation layer with
    that selection (`polProbs filterFixed`): `results`, `phys`, `logic`, and `spec`: the conditioning
    specification of C04 on the polarised distribution (`conditioned`, `phys`, `logic`, `retained`).
  * `{"op":"session","fixed":b,"steps":[{"set":T} | {"q":modes}, …]}` → `{"outs":[…]}`: the replies
    of ONE long-lived simulator object (`sessionStep` run from the fresh object over the whole
    history): `null` for an accepted `set_circuit`, the `probs` reply for a query, `{"err":…}`.
  * `{"op":"leaf","kind":K,"flag":null|true|false}` → `{"n":…,"U":rows}`: `compute_unitary(use_polarization=flag)`
    of ONE component of class `K` (`leafUnitary`), `K` a leaf as in the trees below; or `{"err":"AssertionError"}`.
  * `{"op":"proc","nS":[…],"nI":[…],"perfect":[b,…],"hsum":h,"z0":z,"steps":[{"in":s} | {"pol":i} | {"noise":z} |
    {"min":v} | {"clear":true} | {"q":true}, …]}` → `{"outs":[…]}`: the replies of ONE `Processor` (`procStep` run from
    the fresh object): `null` for a setter, `{"dist":T|null,"min":v}` for a `probs()` — what is handed to the simulator,
    `T` a term `{"gen":[z,s]}` (source of noise `z` on ordinary input `s`), `{"genpol":[z,i]}`, `{"single":i}`
    (`SVDistribution` of polarised input `i`) — or `{"err":…}`.  Inputs and noise models are indices; `nS`, `nI` their
    photon numbers, `perfect` whether the source of noise `z` is perfect.

  * `{"op":"shaped","fixed":b,"steps":[{"set":T} | {"bs":modes} | {"sv":[modes,…]} | {"svd":[[modes,…],…]}, …]}` →
    `{"outs":[…],"wrap":[…]}`: the replies of ONE long-lived simulator object to requests of any input shape
    (`sessionStep (shapeEnv env)` run from the fresh object): as `session`; `wrap` holds, per step, `null` for a
    `set_circuit` or a refused shape and otherwise the flag `is_svd` of `dispatch` (the prepared input is wrapped in
    an `SVDistribution` again).

  Trees: `{"plain":k,"U":rows}`, `{"pol":k,"U":rows}`, `{"wp":[c,s,c2,s2]}`, `{"pr":[c,s]}`,
  `{"pbs":true}`, `{"circ":m,"items":[{"off":o,"c":T},…]}`.
-/

open Lean PM PM.Proto PM.C13

def matOfRows (k : ℕ) (rows : Array (Array GQ)) : Matrix (Fin k) (Fin k) GQ :=
  fun i j => (rows.getD i.val #[]).getD j.val 0

def squareRows (j : Json) (k : ℕ) : Except String (Array (Array GQ)) := do
  let rows ← gqRows (← j.getObjVal? "U")
  if rows.size ≠ k ∨ rows.any (·.size ≠ k) then throw "bad matrix"
  return rows

def gqList (j : Json) (n : ℕ) : Except String (Array GQ) := do
  let a ← (← j.getArr?).mapM gqOfJson
  if a.size ≠ n then throw "bad parameter list"
  return a

partial def evalTree (j : Json) : Except String (PComp GQ) := do
  if let .ok k := natOf j "plain" then
    let rows ← squareRows j k
    return .plain k (matOfRows k rows)
  else if let .ok k := natOf j "pol" then
    let rows ← squareRows j (k * 2)
    return .pol k (matOfRows (k * 2) rows)
  else if let .ok a := j.getObjVal? "wp" then
    let p ← gqList a 4
    return .pol 1 (wp GQ.I (p.getD 0 0) (p.getD 1 0) (p.getD 2 0) (p.getD 3 0))
  else if let .ok a := j.getObjVal? "pr" then
    let p ← gqList a 2
    return .pol 1 (pr (p.getD 0 0) (p.getD 1 0))
  else if let .ok _ := j.getObjVal? "pbs" then
    return .pol 2 pbs
  else
    let m ← natOf j "circ"
    let items ← arrOf j "items"
    let mut acc : List (ℕ × PComp GQ) := []
    for it in items do
      let off ← natOf it "off"
      let c ← evalTree (← it.getObjVal? "c")
      acc := (off, c) :: acc
    -- `acc` is reversed: fold it back into a `PItems` in program order
    let its := acc.foldl (fun r p => PItems.cons p.1 p.2 r) PItems.nil
    return .circ m its

def evalKind (j : Json) : Except String (Kind GQ) := do
  if let .ok k := natOf j "plain" then
    let rows ← squareRows j k
    return .ordinary k (matOfRows k rows)
  else if let .ok k := natOf j "pol" then
    let rows ← squareRows j (k * 2)
    return .polU k (matOfRows (k * 2) rows)
  else if let .ok a := j.getObjVal? "wp" then
    let p ← gqList a 4
    return .wp (p.getD 0 0) (p.getD 1 0) (p.getD 2 0) (p.getD 3 0)
  else if let .ok a := j.getObjVal? "pr" then
    let p ← gqList a 2
    return .pr (p.getD 0 0) (p.getD 1 0)
  else if let .ok _ := j.getObjVal? "pbs" then
    return .pbs
  else throw "bad kind"

def procOp (sj : Json) : Except String (POp Nat Nat Nat) := do
  if let .ok s := natOf sj "in" then return .withInput s
  else if let .ok i := natOf sj "pol" then return .withPol i
  else if let .ok z := natOf sj "noise" then return .setNoise z
  else if let .ok v := natOf sj "min" then return .setMin (v : Int)
  else if let .ok _ := sj.getObjVal? "clear" then return .clear
  else if let .ok _ := sj.getObjVal? "q" then return .query
  else throw "bad processor request"

def procReply : Except String (Option (Option Json × Int)) → Json
  | .error e => errJson e
  | .ok none => Json.null
  | .ok (some (d, v)) => Json.mkObj [("dist", d.getD Json.null), ("min", toJson v)]

def flagOf (j : Json) : Except String (Option Bool) :=
  match j.getObjVal? "flag" with
  | .ok .null => .ok none
  | .ok (.bool b) => .ok (some b)
  | .ok _ => .error "bad flag"
  | .error _ => .ok none

def matVJson {n : ℕ} (u : MatV GQ n n) : Json := rowsToJson (u.toArray.map (·.toArray))

/-- `|⟨v1, v⟩| < 1e-6` -/
def orthGQ (v w : GQ × GQ) : Bool :=
  decide (GQ.normSq (inner v w) < 1 / 1000000000000)

/-- `1/√x` for `x` within `1e-12` of 1: one Newton step from 1 (error `< 1e-24`); the square root
itself is external to the model (`Props/C13.lean: prep2_fixed_unitary` takes its value `ρ`). -/
def invSqrtNear1 (x : ℚ) : ℚ := (3 - x) / 2

def rhoOf (vs : List (GQ × GQ)) : GQ :=
  match vs with
  | v1 :: v2 :: _ => GQ.ofRat (invSqrtNear1 (gsNorm2 v1 v2).re)
  | _ => 1

/-- one entry of a state vector: `[[[h,v],…], [re,im] of perm, ∏s!∏t!]` -/
def svJson (sv : List (SVEntry AFock GQ)) : Json :=
  Json.arr (sv.map fun e =>
    Json.arr #[Json.arr (e.key.map fun p => Json.arr #[toJson p.1, toJson p.2]).toArray,
      gqToJson e.pamp, toJson e.norm2]).toArray

abbrev SqV := (n : ℕ) × MatV GQ n n

def SqV.rows (a : SqV) : Array (Array GQ) := a.2.toArray.map (·.toArray)

/-- the ingredients of the model as one `Env`: circuits are trees, inputs are the photons' Jones
vectors per mode, a prepared input is the spatial input together with the preparation matrix -/
def envGQ (fixed : Bool) : Env (PComp GQ) (List (List (GQ × GQ))) SqV (List ℕ × SqV) Json where
  compile c :=
    if !c.wfb then .error "AssertionError"
    else .ok ⟨(dbl c).size, C01.unitaryV (dbl c)⟩
  prepare modes := do
    let scans ← modes.mapM fun phs => scanMode orthGQ phs ⟨[], 0, 0⟩
    let m := modes.length
    let arr := scans.toArray
    let blocks : Fin m → Matrix (Fin 2) (Fin 2) GQ := fun k =>
      let vs := (arr.getD k.val ⟨[], 0, 0⟩).vectors
      modeBlock fixed (rhoOf vs) vs
    let prepV : MatV GQ (m * 2) (m * 2) := MatV.ofMatrix (prepMatrix blocks)
    let prep : SqV := ⟨m * 2, prepV⟩
    return ((spatialInput scans, prep), prep)
  mkUnitary u p :=
    if u.1 ≠ p.1 then .error "ValueError"     -- `upol @ prep` with mismatching shapes
    else
      let pm : Matrix (Fin u.1) (Fin u.1) GQ := matOfRows u.1 p.rows
      let w : MatV GQ u.1 u.1 := MatV.ofMatrix (simMatrix u.2.toMatrix pm)
      if !acceptsUnitary w.toMatrix then .error "AssertionError" else .ok ⟨u.1, w⟩
  simulate w sp :=
    let s := sp.1
    let d := polDist w.2.toMatrix s
    let sts := Fock.allStates (w.1 / 2) s.sum
    let ps := sts.map fun t => ratToJson (Dist.get d t)
    Json.mkObj [("input", toJson s), ("prep", rowsToJson sp.2.rows),
      ("states", Json.arr (sts.map (fun t => toJson t)).toArray), ("probs", Json.arr ps.toArray),
      ("sv", svJson (polSV w.2.toMatrix s))]

def modesOf (modesJ : Array Json) : Except String (List (List (GQ × GQ))) :=
  modesJ.toList.mapM fun mj => do
    (← mj.getArr?).toList.mapM fun pj => do
      let p ← gqList pj 4
      pure (jones GQ.I (p.getD 0 0) (p.getD 1 0) (p.getD 2 0) (p.getD 3 0))

def replyJson : Except String (Option Json) → Json
  | .error e => errJson e
  | .ok none => Json.null
  | .ok (some j) => j

def handle (j : Json) : Json :=
  match (do
    let op ← strOf j "op"
    match op with
    | "labels" =>
      let row (n : String) (l : Label) : String × Json :=
        (n, Json.arr #[toJson (labelTurns l).1, toJson (labelTurns l).2])
      return Json.mkObj [row "H" .H, row "V" .V, row "D" .D, row "A" .A, row "R" .R, row "L" .L]
    | "unitary" =>
      let c ← evalTree (← j.getObjVal? "tree")
      if !c.wfb then throw "AssertionError"
      let flag ← flagOf j
      let doubled ← resolve c.requires flag
      if doubled then
        let u := C01.unitaryV (dbl c)
        return Json.mkObj [("n", toJson (dbl c).size), ("doubled", toJson true), ("U", matVJson u)]
      else
        let u := C01.unitaryV (spatial c)
        return Json.mkObj [("n", toJson (spatial c).size), ("doubled", toJson false), ("U", matVJson u)]
    | "probs" =>
      let c ← evalTree (← j.getObjVal? "tree")
      let fixed ← boolOf j "fixed"
      let modes ← modesOf (← arrOf j "modes")
      match ← answer (envGQ fixed) (some c) modes with
      | some r => return r
      | none => throw "internal: no reply"
    | "evolve" =>
      let c ← evalTree (← j.getObjVal? "tree")
      let fixed ← boolOf j "fixed"
      let modes ← modesOf (← arrOf j "modes")
      let env := envGQ fixed
      let (sp, p) ← env.prepare modes
      let u ← env.compile c
      let w ← env.mkUnitary u p
      let base := env.simulate w sp
      match j.getObjVal? "cond" with
      | .error _ => return base
      | .ok cj =>
        let cond ← SimProto.condOfJson cj
        let r := selectSV { cond with minPhotons := 0 } (polSV w.2.toMatrix sp.1)
        return base.setObjVal! "sel" (Json.mkObj [("R", ratToJson r.2), ("sv", svJson r.1)])
    | "convert" =>
      let modes ← modesOf (← arrOf j "modes")
      let symbolic ← boolOf j "symbolic"
      let inverse ← boolOf j "inverse"
      let orth : GQ × GQ → GQ × GQ → Bool := if symbolic then orthExact else orthGQ
      let scans ← modes.mapM fun phs => scanMode orth phs ⟨[], 0, 0⟩
      let m := modes.length
      let arr := scans.toArray
      if inverse ∧ (List.range m).any (fun k =>
          let vs := (arr.getD k ⟨[], 0, 0⟩).vectors
          !vs.isEmpty && det2 (modeBlock (!symbolic) (rhoOf vs) vs) == 0) then
        throw "LinAlgError"
      let blocks : Fin m → Matrix (Fin 2) (Fin 2) GQ := fun k =>
        let vs := (arr.getD k.val ⟨[], 0, 0⟩).vectors
        modeBlockX (!symbolic) inverse (rhoOf vs) (fun M => gqInv (det2 M)) vs
      let prepV : MatV GQ (m * 2) (m * 2) := MatV.ofMatrix (prepMatrix blocks)
      return Json.mkObj [("input", toJson (spatialInput scans)),
        ("prep", matVJson prepV)]
    | "select" =>
      let c ← evalTree (← j.getObjVal? "tree")
      let fixed ← boolOf j "fixed"
      let filterFixed ← boolOf j "filterFixed"
      let modes ← modesOf (← arrOf j "modes")
      let sj ← j.getObjVal? "sel"
      let hs ← (← arrOf sj "heralds").toList.mapM fun h => do
        match (← natList h) with
        | [a, b] => pure (a, b)
        | _ => throw "bad herald"
      let sel : Sel := ⟨hs, ← SimProto.psOfJson (← sj.getObjVal? "ps"), ← natOf sj "minDet",
        ← boolOf sj "keepHeralds"⟩
      let env := envGQ fixed
      let (sp, p) ← env.prepare modes
      let u ← env.compile c
      let w ← env.mkUnitary u p
      let d0 := spatialDist w.2.toMatrix sp.1
      let r := polProbs filterFixed sel d0
      let dm := Dist.mapKeys mergeState d0
      return Json.mkObj [("input", toJson sp.1), ("results", SimProto.distToJson r.1),
        ("phys", ratToJson r.2.1), ("logic", ratToJson r.2.2),
        ("spec", Json.mkObj [("conditioned", SimProto.distToJson (SimSpec.conditioned sel.cond dm)),
          ("phys", ratToJson (SimSpec.physPerf sel.cond dm)),
          ("logic", ratToJson (SimSpec.logicalPerf sel.cond dm)),
          ("retained", ratToJson (Dist.mass (SimSpec.retained sel.cond dm)))])]
    | "leaf" =>
      let k ← evalKind (← j.getObjVal? "kind")
      if k.m = 0 then throw "AssertionError"
      let flag ← flagOf j
      let M ← leafUnitary GQ.I k flag
      let mv : MatV GQ M.1 M.1 := MatV.ofMatrix M.2
      return Json.mkObj [("n", toJson M.1), ("U", matVJson mv)]
    | "proc" =>
      let nS ← natList (← j.getObjVal? "nS")
      let nI ← natList (← j.getObjVal? "nI")
      let perfect ← (← arrOf j "perfect").toList.mapM fun (b : Json) => b.getBool?
      let env : PEnv Nat Nat Nat Json :=
        { gen := fun z s => Json.mkObj [("gen", Json.arr #[toJson z, toJson s])]
          genPol := fun z i => Json.mkObj [("genpol", Json.arr #[toJson z, toJson i])]
          single := fun i => Json.mkObj [("single", toJson i)]
          perfect := fun z => perfect.getD z false
          nS := fun s => nS.getD s 0
          nI := fun i => nI.getD i 0
          hsum := ← natOf j "hsum" }
      let ops ← (← arrOf j "steps").toList.mapM procOp
      let outs := (SM.run (procStep env) ⟨none, none, ← natOf j "z0", none⟩ ops).2
      return Json.mkObj [("outs", Json.arr (outs.map procReply).toArray)]
    | "session" =>
      let fixed ← boolOf j "fixed"
      let steps ← arrOf j "steps"
      let cmds ← steps.toList.mapM fun (sj : Json) => do
        match sj.getObjVal? "set" with
        | Except.ok t => return Cmd.setCircuit (← evalTree t)
        | Except.error _ => return Cmd.probs (← modesOf (← arrOf sj "q"))
      let outs := (SM.run (sessionStep (envGQ fixed)) ⟨none, none⟩ cmds).2
      return Json.mkObj [("outs", Json.arr (outs.map replyJson).toArray)]
    | "shaped" =>
      let fixed ← boolOf j "fixed"
      let steps ← arrOf j "steps"
      let cmds ← steps.toList.mapM fun (sj : Json) => do
        match sj.getObjVal? "set" with
        | Except.ok t => return Cmd.setCircuit (← evalTree t)
        | Except.error _ =>
          match sj.getObjVal? "bs" with
          | Except.ok b => return Cmd.probs (Shape.bs (← modesOf (← b.getArr?)))
          | Except.error _ =>
            match sj.getObjVal? "sv" with
            | Except.ok v =>
              return Cmd.probs (Shape.sv (← (← v.getArr?).toList.mapM fun (b : Json) => do modesOf (← b.getArr?)))
            | Except.error _ =>
              let svs ← (← arrOf sj "svd").toList.mapM fun (v : Json) => do
                (← v.getArr?).toList.mapM fun (b : Json) => do modesOf (← b.getArr?)
              return Cmd.probs (Shape.svd svs)
      let outs := (SM.run (sessionStep (shapeEnv (envGQ fixed))) ⟨none, none⟩ cmds).2
      let wraps : List Json := cmds.map fun (cmd : Cmd (PComp GQ) (Shape (List (List (GQ × GQ))))) =>
        match cmd with
        | Cmd.setCircuit _ => Json.null
        | Cmd.probs x =>
          match dispatch x with
          | Except.ok r => toJson r.2
          | Except.error _ => Json.null
      return Json.mkObj [("outs", Json.arr (outs.map replyJson).toArray), ("wrap", Json.arr wraps.toArray)]
    | _ => throw "unknown op") with
  | .ok r => r
  | .error e => errJson e

def main : IO Unit := run handle
