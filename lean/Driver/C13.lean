import PercevalModel.Proto
import PercevalModel.Model.C13

/-!
  C13 driver.  Requests (one JSON object per line):

  * `{"op":"labels"}` → `POLARIZATION_MAPPING` in quarter turns.
  * `{"op":"unitary","tree":T,"flag":null|true|false}` → the matrix `compute_unitary(use_polarization=flag)`
    reports (`{"n":…, "doubled":…, "U":…}`), or `{"err":"AssertionError"}`.
  * `{"op":"probs","tree":T,"modes":[[[c,s,p,q],…],…],"fixed":true|false}` → conversion of the
    polarised input (`input`, `prep`), acceptance test of `Unitary(upol @ prep)`, exact Fock-space
    distribution on the doubled modes, sub-modes merged (`states`, `probs`), or `{"err":…}`.

  Trees: `{"plain":k,"U":rows}`, `{"pol":k,"U":rows}`, `{"wp":[c,s,c2,s2]}`, `{"pr":[c,s]}`,
  `{"pbs":true}`, `{"circ":m,"items":[{"off":o,"c":T},…]}`.
-/

open Lean PM PM.Proto PM.C13

def matOfRows (k : ℕ) (rows : Array (Array GQ)) : Matrix (Fin k) (Fin k) GQ :=
  fun i j => (rows.getD i.val #[]).getD j.val 0

def squareRows (j : Json) (k : ℕ) : Except String (Array (Array GQ)) := do
  let rows ← gqRows (← j.getObjVal? "U")
  if rows.size ≠ k ∨ rows.any (·.size ≠ k) then throw "bad matrix"
  return rows

def gqList (j : Json) (n : ℕ) : Except String (Array GQ) := do
  let a ← (← j.getArr?).mapM gqOfJson
  if a.size ≠ n then throw "bad parameter list"
  return a

partial def evalTree (j : Json) : Except String (PComp GQ) := do
  if let .ok k := natOf j "plain" then
    let rows ← squareRows j k
    return .plain k (matOfRows k rows)
  else if let .ok k := natOf j "pol" then
    let rows ← squareRows j (k * 2)
    return .pol k (matOfRows (k * 2) rows)
  else if let .ok a := j.getObjVal? "wp" then
    let p ← gqList a 4
    return .pol 1 (wp GQ.I (p.getD 0 0) (p.getD 1 0) (p.getD 2 0) (p.getD 3 0))
  else if let .ok a := j.getObjVal? "pr" then
    let p ← gqList a 2
    return .pol 1 (pr (p.getD 0 0) (p.getD 1 0))
  else if let .ok _ := j.getObjVal? "pbs" then
    return .pol 2 pbs
  else
    let m ← natOf j "circ"
    let items ← arrOf j "items"
    let mut acc : List (ℕ × PComp GQ) := []
    for it in items do
      let off ← natOf it "off"
      let c ← evalTree (← it.getObjVal? "c")
      acc := (off, c) :: acc
    -- `acc` is reversed: fold it back into a `PItems` in program order
    let its := acc.foldl (fun r p => PItems.cons p.1 p.2 r) PItems.nil
    return .circ m its

def flagOf (j : Json) : Except String (Option Bool) :=
  match j.getObjVal? "flag" with
  | .ok .null => .ok none
  | .ok (.bool b) => .ok (some b)
  | .ok _ => .error "bad flag"
  | .error _ => .ok none

def matVJson {n : ℕ} (u : MatV GQ n n) : Json := rowsToJson (u.toArray.map (·.toArray))

/-- `|⟨v1, v⟩| < 1e-6` -/
def orthGQ (v w : GQ × GQ) : Bool :=
  decide (GQ.normSq (inner v w) < 1 / 1000000000000)

/-- `1/√x` for `x` within `1e-12` of 1: one Newton step from 1 (error `< 1e-24`); the square root
itself is external to the model (`Props/C13.lean: prep2_fixed_unitary` takes its value `ρ`). -/
def invSqrtNear1 (x : ℚ) : ℚ := (3 - x) / 2

def rhoOf (vs : List (GQ × GQ)) : GQ :=
  match vs with
  | v1 :: v2 :: _ => GQ.ofRat (invSqrtNear1 (gsNorm2 v1 v2).re)
  | _ => 1

def handle (j : Json) : Json :=
  match (do
    let op ← strOf j "op"
    match op with
    | "labels" =>
      let row (n : String) (l : Label) : String × Json :=
        (n, Json.arr #[toJson (labelTurns l).1, toJson (labelTurns l).2])
      return Json.mkObj [row "H" .H, row "V" .V, row "D" .D, row "A" .A, row "R" .R, row "L" .L]
    | "unitary" =>
      let c ← evalTree (← j.getObjVal? "tree")
      if !c.wfb then throw "AssertionError"
      let flag ← flagOf j
      let doubled ← resolve c.requires flag
      if doubled then
        let u := C01.unitaryV (dbl c)
        return Json.mkObj [("n", toJson (dbl c).size), ("doubled", toJson true), ("U", matVJson u)]
      else
        let u := C01.unitaryV (spatial c)
        return Json.mkObj [("n", toJson (spatial c).size), ("doubled", toJson false), ("U", matVJson u)]
    | "probs" =>
      let c ← evalTree (← j.getObjVal? "tree")
      if !c.wfb then throw "AssertionError"
      let fixed ← boolOf j "fixed"
      let m := c.size
      let modesJ ← arrOf j "modes"
      if modesJ.size ≠ m then throw "AssertionError"
      -- per-mode scan of the photons' Jones vectors
      let mut scans : Array (Scan GQ) := #[]
      for mj in modesJ do
        let phs ← (← mj.getArr?).toList.mapM fun pj => do
          let p ← gqList pj 4
          pure (jones GQ.I (p.getD 0 0) (p.getD 1 0) (p.getD 2 0) (p.getD 3 0))
        let sc ← scanMode orthGQ phs ⟨[], 0, 0⟩
        scans := scans.push sc
      let blocks : Fin m → Matrix (Fin 2) (Fin 2) GQ := fun k =>
        let vs := (scans.getD k.val ⟨[], 0, 0⟩).vectors
        modeBlock fixed (rhoOf vs) vs
      let prepV : MatV GQ (m * 2) (m * 2) := MatV.ofMatrix (prepMatrix blocks)
      let s := spatialInput scans.toList
      -- the doubled circuit matrix; (dbl c).size = m * 2
      let upolV := C01.unitaryV (dbl c)
      if h : (dbl c).size = m * 2 then
        let upol : Matrix (Fin (m * 2)) (Fin (m * 2)) GQ := h ▸ upolV.toMatrix
        let simV : MatV GQ (m * 2) (m * 2) := MatV.ofMatrix (simMatrix upol prepV.toMatrix)
        if !acceptsUnitary simV.toMatrix then throw "AssertionError"
        let d := polDist simV.toMatrix s
        let sts := Fock.allStates m s.sum
        let ps := sts.map fun t => ratToJson (Dist.get d t)
        return Json.mkObj [("input", toJson s), ("prep", matVJson prepV),
          ("states", Json.arr (sts.map (fun t => toJson t)).toArray), ("probs", Json.arr ps.toArray)]
      else throw "internal: size"
    | _ => throw "unknown op") with
  | .ok r => r
  | .error e => errJson e

def main : IO Unit := run handle
