import PercevalModel.Proto
import PercevalModel.Model.C08
import PercevalModel.Model.C08Glue
import PercevalModel.Model.C08Circ
import PercevalModel.Model.C08Mix
import PercevalModel.Model.C08Hist
import PercevalModel.Model.C08Copy
import PercevalModel.Lemmas.C08Fock
import PercevalModel.Lemmas.C08Thr
import PercevalModel.Found.SM
import Mathlib.Algebra.Order.Field.Rat

/-!
  C08 driver.  Requests (one JSON object per line):
  * `{"op":"detect","wires":w|null,"max":k|null,"minp":q,"ns":[…]}` — construct a `Detector`,
    run the history of `detect(n)` calls on ONE instance (memo + cache threaded) and on fresh
    pure `detect`; reply type, max_detections and both result lists
  * `{"op":"bs","L":l,"r":q,"ns":[…],"occ":n?,"minp":q?}` — same for `BSLayeredPPNR` (`minp` absent: 0); with `occ`
    also the SLOS leaf distribution for that photon count (leaf states not above `min_p` dropped, as the backend's
    `add` does)
  * `{"op":"dtype","dets":[…]}`, `{"op":"heralds","heralds":[[k,v],…],"dets":[…]}`
  * `{"op":"sim","m":m|null,"dist":[[[…],q],…],"dets":[…],"minph":f|null,"minp":q,"thr":q?}` — `thr` =
    `prob_threshold` (absent: 0); the reply also carries the proved slacks `pslack`/`mslack`/`ptslack`
    (`physSlack`/`massSlack`/`pointSlack` of `Lemmas/C08Thr.lean`) and the un-normalised retained `mass`
  * `{"op":"sample","state":[…],"dets":[…],"minp":q,"fixed":b}` — law of `simulate_detectors_sample`
    (`fixed:false` = the pinned tree, which raises on an unset detector in a mixed list)
  * `{"op":"tail","m":m,"dist":[…],"dets":[…]|null,"minph":f|null,"minp":q,"heralds":[[k,v],…]}` — tail of
    `Simulator.probs_svd` on the theoretical distribution `dist`: whether the heralds mask is used, the
    herald-selected result (before the final normalize(), heralded modes kept) and `phys_perf`
  * `{"op":"bscirc","L":l,"r":q,"c":[re,im]?,"s":[re,im]?,"n":n?}` — model of `BSLayeredPPNR.create_circuit()`:
    the components it adds, the path weights `r^zeros (1-r)^ones` of the leaves (first-column moduli², every
    rational `r`); with amplitudes `c`, `s` in ℚ[i] (`|c|² = r`, `|s|² = 1-r` checked, rejected otherwise) the
    exact unitary of the circuit, and with `n` also the Fock-specification distribution
    `|perm(U[t|n,0,…,0])|²/(n! ∏t!)` over all states `t` (Mathlib permanent) next to the leaf law `treeOcc`
  * `{"op":"probs", …same fields as "tail"…, "ps":[[[modes],"==|<|>|<=|>=",k],…], "keep":b}` — the WHOLE tail of
    `probs_svd` inside the model (`probsSvd`): results (normalised, heralded modes removed unless `keep`),
    physical_perf, logical_perf
  * `{"op":"probsmix","m":m,"members":[{"p":q,"n":n,"dist":[…]},…],"dets":[…]|null,"filter":f,"minp":q,"rel":q,
    "heralds":[…],"ps":[…],"keep":b}` — `probs_svd` for a MIXED input (`probsSvdMix`, `Model/C08Mix.lean`): the members
    of the `SVDistribution` with their theoretical distributions, `rel` = `_rel_precision`, `filter` = the user's
    `min_detected_photons_filter` (the herald values are added by the model); replies results / physical_perf /
    logical_perf and the `p_threshold` handed to `simulate_detectors`
  * `{"op":"hist","fixed":b,"wires":w|null,"max":k|null,"steps":[[minp,n],…]}` or
    `{"op":"hist","fixed":b,"L":l,"r":q,"steps":[[minp,n]|null,…]}` — ONE long-lived instance through `detect(n)` calls
    each executed at its own `min_p` (`null` = `clear_cache()`, beam-splitter tree only): `detectInstH` / `bsInstH` of
    `Model/C08Hist.lean` (`fixed:false` = the pinned tree whose `_cache` ignores `min_p`); reply `outs` (null for a clear)
  A detector is `null`, `{"w":w|null,"max":k|null}` or `{"bs":l,"r":q}`.
-/

open Lean PM PM.Proto PM.C08

def optNat (j : Json) (k : String) : Except String (Option ℕ) :=
  match j.getObjVal? k with
  | .ok .null => .ok none
  | .ok v => do return some (← v.getNat?)
  | .error _ => .error s!"missing field {k}"

def distToJson (d : Dist ℕ ℚ) : Json :=
  .arr (d.map fun e => Json.arr #[toJson e.1, ratToJson e.2]).toArray

def sdistToJson (d : Dist (List ℕ) ℚ) : Json :=
  .arr (d.map fun e => Json.arr #[toJson e.1, ratToJson e.2]).toArray

def outToJson : DetOut ℚ → Json
  | .state k => Json.mkObj [("state", toJson k)]
  | .dist d => Json.mkObj [("dist", distToJson d)]

def typeStr : DType → String
  | .PNR => "PNR" | .Threshold => "Threshold" | .PPNR => "PPNR" | .Mixed => "Mixed"

def parseDet (j : Json) : Except String (AnyDet ℚ) := do
  if j.isNull then return .none
  if let .ok l := natOf j "bs" then
    let r ← ratOfJson (← j.getObjVal? "r")
    let p ← mkBS l r
    return .bs p.1 p.2
  let w ← optNat j "w"
  let mx ← optNat j "max"
  return .det (← mkDetector w mx)

def parseDets (j : Json) : Except String (List (AnyDet ℚ)) := do
  (← j.getArr?).toList.mapM parseDet

def compToJson : TComp → Json
  | .perm σ => Json.arr #["PERM", toJson (0 : ℕ), toJson σ]
  | .bs m => Json.arr #["BS", toJson m]

def bscirc (j : Json) : Except String Json := do
  let l ← natOf j "L"
  let r ← ratOfJson (← j.getObjVal? "r")
  let p ← mkBS l r
  let L := p.1
  if L > 3 then throw "depth too large for the driver"
  let N := 2 ^ L
  let comps := treeComps L
  let weights := (List.range N).map fun k => ratToJson (leafP r (1 - r) L k)
  let ones := (List.range N).map fun k => toJson (onesL L k)
  let base : List (String × Json) :=
    [("m", toJson N), ("comps", .arr (comps.map compToJson).toArray), ("weights", .arr weights.toArray),
     ("ones", .arr ones.toArray)]
  match j.getObjVal? "c", j.getObjVal? "s" with
  | .ok cj, .ok sj =>
    let c ← gqOfJson cj
    let s ← gqOfJson sj
    if GQ.normSq c ≠ r ∨ GQ.normSq s ≠ 1 - r then throw "amplitudes do not match the reflectivity"
    let V := circuitV N c s comps
    let U := V.toMatrix
    let rows : Json := .arr ((List.finRange N).map fun i =>
      Json.arr ((List.finRange N).map fun k => gqToJson (U i k)).toArray).toArray
    let col0 : Json := .arr ((List.range N).map fun k => gqToJson (leafP c s L k)).toArray
    let extra ← match natOf j "n" with
      | .ok n =>
        if n > 5 then throw "too many photons for the driver (permanent)"
        let sts := Fock.allStates N n
        let fock := sts.map fun t => Json.arr #[toJson t, ratToJson (Fock.prob U (single N n) t)]
        let occ := sts.map fun t => Json.arr #[toJson t, ratToJson (prob (treeOcc r L n) t)]
        pure [("fock", Json.arr fock.toArray), ("occ_at", Json.arr occ.toArray),
              ("occ_len", toJson (treeOcc r L n).length)]
      | .error _ => pure []
    return Json.mkObj (base ++ [("U", rows), ("col0", col0)] ++ extra)
  | _, _ => return Json.mkObj base

open PM.SimSpec (PS Cmp) in
def parsePS (j : Json) : Except String PS := do
  let conds ← (← j.getArr?).toList.mapM fun c => do
    match c with
    | .arr #[ms, op, k] =>
      let cmp ← match (← op.getStr?) with
        | "==" => pure Cmp.eq | "<" => pure Cmp.lt | ">" => pure Cmp.gt
        | "<=" => pure Cmp.le | ">=" => pure Cmp.ge
        | o => throw s!"bad operator {o}"
      return PS.cond (← natList ms) cmp (← k.getNat?)
    | _ => throw "bad post-selection condition"
  match conds with
  | [] => return .tt
  | c :: rest => return rest.foldl (fun a b => PS.and a b) c

def probsOp (j : Json) : Except String Json := do
  let m ← optNat j "m"
  let minP ← ratOfJson (← j.getObjVal? "minp")
  let mp ← optNat j "minph"
  let ds ← match j.getObjVal? "dets" with
    | .ok .null => pure []
    | .ok v => parseDets v
    | .error _ => throw "missing field dets"
  let hs ← (← arrOf j "heralds").toList.mapM fun h => do
    match h with
    | .arr #[a, b] => return ((← a.getNat?), (← b.getNat?))
    | _ => throw "bad herald"
  let dist ← (← arrOf j "dist").toList.mapM fun e => do
    match e with
    | .arr #[s, p] => return ((← natList s), (← ratOfJson p))
    | _ => throw "bad dist entry"
  let ps ← parsePS (← j.getObjVal? "ps")
  let keep ← boolOf j "keep"
  if !ds.isEmpty && m ≠ some ds.length then throw "AssertionError"
  let o ← probsSvd minP dist ds mp hs ps keep
  return Json.mkObj [("mask", toJson (useMask hs ds)), ("dist", sdistToJson o.results),
    ("perf", ratToJson o.phys), ("logical", ratToJson o.logical)]

def probsMixOp (j : Json) : Except String Json := do
  let m ← optNat j "m"
  let minP ← ratOfJson (← j.getObjVal? "minp")
  let rel ← ratOfJson (← j.getObjVal? "rel")
  let uf ← natOf j "filter"
  let ds ← match j.getObjVal? "dets" with
    | .ok .null => pure []
    | .ok v => parseDets v
    | .error _ => throw "missing field dets"
  let hs ← (← arrOf j "heralds").toList.mapM fun h => do
    match h with
    | .arr #[a, b] => return ((← a.getNat?), (← b.getNat?))
    | _ => throw "bad herald"
  let ms ← (← arrOf j "members").toList.mapM fun mj => do
    let p ← ratOfJson (← mj.getObjVal? "p")
    let n ← natOf mj "n"
    let dist ← (← arrOf mj "dist").toList.mapM fun e => do
      match e with
      | .arr #[s, q] => return ((← natList s), (← ratOfJson q))
      | _ => throw "bad dist entry"
    return (⟨p, n, dist⟩ : Member ℚ)
  let ps ← parsePS (← j.getObjVal? "ps")
  let keep ← boolOf j "keep"
  if !ds.isEmpty && m ≠ some ds.length then throw "AssertionError"
  let o ← probsSvdMix minP rel ms ds uf hs ps keep
  let F := uf + (hs.map (·.2)).sum
  return Json.mkObj [("mask", toJson (useMask hs ds)), ("dist", sdistToJson o.results),
    ("perf", ratToJson o.phys), ("logical", ratToJson o.logical),
    ("thr", ratToJson (preThreshold minP rel F ms)), ("kept", toJson (preKept minP rel F ms).length)]

def histOp (j : Json) : Except String Json := do
  let fixed ← boolOf j "fixed"
  let steps ← (← arrOf j "steps").toList.mapM fun e => do
    match e with
    | .null => return (none : Option (ℚ × ℕ))
    | .arr #[p, n] => return some ((← ratOfJson p), (← n.getNat?))
    | _ => throw "bad step"
  match j.getObjVal? "L" with
  | .ok lj =>
    let l ← lj.getNat?
    let r ← ratOfJson (← j.getObjVal? "r")
    let p ← mkBS l r
    let outs := (SM.run (bsInstH fixed p.1 p.2) ⟨[], none⟩ steps).2
    return Json.mkObj [("outs", .arr (outs.map fun o => match o with
      | none => Json.null
      | some x => outToJson x.2).toArray)]
  | .error _ =>
    let w ← optNat j "wires"
    let mx ← optNat j "max"
    let d ← mkDetector w mx
    let ops ← steps.mapM fun e => match e with
      | none => Except.error "clear_cache: not a method of Detector"
      | some x => pure x
    let outs := (SM.run (detectInstH fixed d) ⟨⟨[], []⟩, none⟩ ops).2
    return Json.mkObj [("outs", .arr (outs.map fun o => outToJson o.2).toArray)]

/-- `{"op":"heap", ("wires":w|null,"max":k|null) | ("L":l,"r":q), "steps":[["detect",i,minp,n]|["copy",i]|["clear",i],…]}`
— the family of copies of one detector (Model/C08Copy.lean).  Reply: per step the answer (`null` for copy/clear) and
the heap after it: for every object the index of the dictionary its `_cache` is bound to, its `_cache_min_p`, and the
sorted photon counts stored in that dictionary. -/
def heapOp (j : Json) : Except String Json := do
  let steps ← (← arrOf j "steps").toList.mapM fun e => do
    match e with
    | .arr #[.str "detect", i, p, n] => return HeapOp.detect (← i.getNat?) (← ratOfJson p) (← n.getNat?)
    | .arr #[.str "copy", i] => return HeapOp.copy (← i.getNat?)
    | .arr #[.str "clear", i] => return HeapOp.clear (← i.getNat?)
    | _ => throw "bad step"
  let render {M : Type} (h : Heap M ℚ) (o : Option (ℕ × DetOut ℚ)) : Json :=
    let objs := (List.range h.nObjs).map fun i => h.objs i
    Json.mkObj [("out", match o with | none => Json.null | some x => outToJson x.2),
      ("cells", toJson (objs.map fun x => x.2.1)),
      ("marks", .arr (objs.map fun x => match x.2.2 with | none => Json.null | some q => ratToJson q).toArray),
      ("keys", toJson (objs.map fun x => ((h.cells x.2.1).map (·.1)).mergeSort))]
  let drive {M : Type} (step : Heap M ℚ → HeapOp ℚ → Heap M ℚ × Option (ℕ × DetOut ℚ)) (h0 : Heap M ℚ) :
      Except String Json := do
    let mut h := h0
    let mut acc : Array Json := #[]
    for op in steps do
      let idx := match op with | .detect i _ _ => i | .copy i => i | .clear i => i
      if idx ≥ h.nObjs then throw "no such object"
      let r := step h op
      h := r.1
      acc := acc.push (render h r.2)
    return Json.mkObj [("steps", .arr acc)]
  match j.getObjVal? "L" with
  | .ok lj =>
    let l ← lj.getNat?
    let r ← ratOfJson (← j.getObjVal? "r")
    let p ← mkBS l r
    drive (bsHeapStep p.1 p.2) (Heap.init ())
  | .error _ =>
    let w ← optNat j "wires"
    let mx ← optNat j "max"
    let d ← mkDetector w mx
    if steps.any (fun op => match op with | .clear _ => true | _ => false) then
      throw "clear_cache: not a method of Detector"
    drive (detHeapStep d) (Heap.init [])

def handleReq (j : Json) : Except String Json := do
  let op ← strOf j "op"
  if op == "heap" then return ← heapOp j
  if op == "hist" then return ← histOp j
  if op == "bscirc" then return ← bscirc j
  if op == "probsmix" then return ← probsMixOp j
  if op == "probs" then return ← probsOp j
  if op == "detect" then
    let w ← optNat j "wires"
    let mx ← optNat j "max"
    let minP ← ratOfJson (← j.getObjVal? "minp")
    let ns ← natList (← j.getObjVal? "ns")
    let d ← mkDetector w mx
    let hist := (SM.run (detectInst d minP) ⟨[], []⟩ ns).2
    let fresh := ns.map fun n => d.detect minP n
    return Json.mkObj [("type", typeStr d.type),
      ("max", match d.maxDetections with | some k => toJson k | none => Json.null),
      ("hist", .arr (hist.map fun o => outToJson o.2).toArray),
      ("fresh", .arr (fresh.map outToJson).toArray)]
  else if op == "bs" then
    let l ← natOf j "L"
    let r ← ratOfJson (← j.getObjVal? "r")
    let ns ← natList (← j.getObjVal? "ns")
    let p ← mkBS l r
    let minP ← match j.getObjVal? "minp" with
      | .ok v => ratOfJson v
      | .error _ => pure 0
    let hist := (SM.run (bsInst minP p.1 p.2) [] ns).2
    let occ := match natOf j "occ" with
      | .ok n => sdistToJson (treeOccP minP p.2 p.1 n)
      | .error _ => Json.null
    return Json.mkObj [("type", "PPNR"), ("max", toJson (2 ^ l)),
      ("hist", .arr (hist.map fun o => outToJson o.2).toArray), ("occ", occ)]
  else if op == "dtype" then
    let ds ← parseDets (← j.getObjVal? "dets")
    return Json.mkObj [("type", typeStr (detectionType ds))]
  else if op == "heralds" then
    let ds ← parseDets (← j.getObjVal? "dets")
    let hs ← (← arrOf j "heralds").toList.mapM fun h => do
      match h with
      | .arr #[a, b] => return ((← a.getNat?), (← b.getNat?))
      | _ => throw "bad herald"
    let b ← checkHeralds hs ds
    return Json.mkObj [("ok", toJson b)]
  else if op == "sim" then
    let m ← optNat j "m"
    let minP ← ratOfJson (← j.getObjVal? "minp")
    let mp ← optNat j "minph"
    let ds ← parseDets (← j.getObjVal? "dets")
    let dist ← (← arrOf j "dist").toList.mapM fun e => do
      match e with
      | .arr #[s, p] => return ((← natList s), (← ratOfJson p))
      | _ => throw "bad dist entry"
    let thr ← match j.getObjVal? "thr" with
      | .ok v => ratOfJson v
      | .error _ => pure 0
    let a ← simulateCheckedThr minP thr m dist ds mp
    let raw := simulateRawThr minP thr dist ds mp
    return Json.mkObj [("type", typeStr (detectionType ds)), ("dist", sdistToJson a.1),
      ("perf", ratToJson a.2), ("mass", ratToJson (mass raw.1)),
      ("pslack", ratToJson (physSlack minP thr ds dist)), ("mslack", ratToJson (massSlack minP thr ds dist)),
      ("ptslack", ratToJson (pointSlack minP thr ds dist))]
  else if op == "tail" then
    let m ← optNat j "m"
    let minP ← ratOfJson (← j.getObjVal? "minp")
    let mp ← optNat j "minph"
    let ds ← match j.getObjVal? "dets" with
      | .ok .null => pure []
      | .ok v => parseDets v
      | .error _ => throw "missing field dets"
    let hs ← (← arrOf j "heralds").toList.mapM fun h => do
      match h with
      | .arr #[a, b] => return ((← a.getNat?), (← b.getNat?))
      | _ => throw "bad herald"
    let dist ← (← arrOf j "dist").toList.mapM fun e => do
      match e with
      | .arr #[s, p] => return ((← natList s), (← ratOfJson p))
      | _ => throw "bad dist entry"
    -- `if detectors:` — an empty / absent list skips simulate_detectors (and its length assertion)
    if !ds.isEmpty && m ≠ some ds.length then throw "AssertionError"
    let ok ← checkHeralds hs ds
    let a := probsTailCoded minP dist ds mp hs
    return Json.mkObj [("mask", toJson (useMask hs ds)), ("compatible", toJson ok),
      ("dist", sdistToJson a.1), ("perf", ratToJson a.2)]
  else if op == "sample" then
    let minP ← ratOfJson (← j.getObjVal? "minp")
    let ds ← parseDets (← j.getObjVal? "dets")
    let st ← natList (← j.getObjVal? "state")
    let fixed ← match j.getObjVal? "fixed" with
      | .ok (.bool b) => pure b
      | _ => throw "missing field fixed"
    let r ← sampleLaw fixed minP ds st
    return Json.mkObj [("type", typeStr (detectionType ds)), ("dist", sdistToJson r)]
  else
    throw s!"unknown op {op}"

def handle (j : Json) : Json :=
  match handleReq j with
  | .ok r => r
  | .error e => errJson e

def main : IO Unit := run handle
