import PercevalModel.Proto
import PercevalModel.Model.C08
import PercevalModel.Model.C08Glue
import PercevalModel.Found.SM
import Mathlib.Algebra.Order.Field.Rat

/-!
  C08 driver.  Requests (one JSON object per line):
  * `{"op":"detect","wires":w|null,"max":k|null,"minp":q,"ns":[…]}` — construct a `Detector`,
    run the history of `detect(n)` calls on ONE instance (memo + cache threaded) and on fresh
    pure `detect`; reply type, max_detections and both result lists
  * `{"op":"bs","L":l,"r":q,"ns":[…],"occ":n?}` — same for `BSLayeredPPNR`; with `occ` also the
    assumed SLOS leaf distribution for that photon count
  * `{"op":"dtype","dets":[…]}`, `{"op":"heralds","heralds":[[k,v],…],"dets":[…]}`
  * `{"op":"sim","m":m|null,"dist":[[[…],q],…],"dets":[…],"minph":f|null,"minp":q}`
  * `{"op":"sample","state":[…],"dets":[…],"minp":q,"fixed":b}` — law of `simulate_detectors_sample`
    (`fixed:false` = the pinned tree, which raises on an unset detector in a mixed list)
  * `{"op":"tail","m":m,"dist":[…],"dets":[…]|null,"minph":f|null,"minp":q,"heralds":[[k,v],…]}` — tail of
    `Simulator.probs_svd` on the theoretical distribution `dist`: whether the heralds mask is used, the
    herald-selected result (before the final normalize(), heralded modes kept) and `phys_perf`
  A detector is `null`, `{"w":w|null,"max":k|null}` or `{"bs":l,"r":q}`.
-/

open Lean PM PM.Proto PM.C08

def optNat (j : Json) (k : String) : Except String (Option ℕ) :=
  match j.getObjVal? k with
  | .ok .null => .ok none
  | .ok v => do return some (← v.getNat?)
  | .error _ => .error s!"missing field {k}"

def distToJson (d : Dist ℕ ℚ) : Json :=
  .arr (d.map fun e => Json.arr #[toJson e.1, ratToJson e.2]).toArray

def sdistToJson (d : Dist (List ℕ) ℚ) : Json :=
  .arr (d.map fun e => Json.arr #[toJson e.1, ratToJson e.2]).toArray

def outToJson : DetOut ℚ → Json
  | .state k => Json.mkObj [("state", toJson k)]
  | .dist d => Json.mkObj [("dist", distToJson d)]

def typeStr : DType → String
  | .PNR => "PNR" | .Threshold => "Threshold" | .PPNR => "PPNR" | .Mixed => "Mixed"

def parseDet (j : Json) : Except String (AnyDet ℚ) := do
  if j.isNull then return .none
  if let .ok l := natOf j "bs" then
    let r ← ratOfJson (← j.getObjVal? "r")
    let p ← mkBS l r
    return .bs p.1 p.2
  let w ← optNat j "w"
  let mx ← optNat j "max"
  return .det (← mkDetector w mx)

def parseDets (j : Json) : Except String (List (AnyDet ℚ)) := do
  (← j.getArr?).toList.mapM parseDet

def handleReq (j : Json) : Except String Json := do
  let op ← strOf j "op"
  if op == "detect" then
    let w ← optNat j "wires"
    let mx ← optNat j "max"
    let minP ← ratOfJson (← j.getObjVal? "minp")
    let ns ← natList (← j.getObjVal? "ns")
    let d ← mkDetector w mx
    let hist := (SM.run (detectInst d minP) ⟨[], []⟩ ns).2
    let fresh := ns.map fun n => d.detect minP n
    return Json.mkObj [("type", typeStr d.type),
      ("max", match d.maxDetections with | some k => toJson k | none => Json.null),
      ("hist", .arr (hist.map fun o => outToJson o.2).toArray),
      ("fresh", .arr (fresh.map outToJson).toArray)]
  else if op == "bs" then
    let l ← natOf j "L"
    let r ← ratOfJson (← j.getObjVal? "r")
    let ns ← natList (← j.getObjVal? "ns")
    let p ← mkBS l r
    let hist := (SM.run (bsInst p.1 p.2) [] ns).2
    let occ := match natOf j "occ" with
      | .ok n => sdistToJson (treeOcc p.2 p.1 n)
      | .error _ => Json.null
    return Json.mkObj [("type", "PPNR"), ("max", toJson (2 ^ l)),
      ("hist", .arr (hist.map fun o => outToJson o.2).toArray), ("occ", occ)]
  else if op == "dtype" then
    let ds ← parseDets (← j.getObjVal? "dets")
    return Json.mkObj [("type", typeStr (detectionType ds))]
  else if op == "heralds" then
    let ds ← parseDets (← j.getObjVal? "dets")
    let hs ← (← arrOf j "heralds").toList.mapM fun h => do
      match h with
      | .arr #[a, b] => return ((← a.getNat?), (← b.getNat?))
      | _ => throw "bad herald"
    let b ← checkHeralds hs ds
    return Json.mkObj [("ok", toJson b)]
  else if op == "sim" then
    let m ← optNat j "m"
    let minP ← ratOfJson (← j.getObjVal? "minp")
    let mp ← optNat j "minph"
    let ds ← parseDets (← j.getObjVal? "dets")
    let dist ← (← arrOf j "dist").toList.mapM fun e => do
      match e with
      | .arr #[s, p] => return ((← natList s), (← ratOfJson p))
      | _ => throw "bad dist entry"
    let a ← simulateChecked minP m dist ds mp
    return Json.mkObj [("type", typeStr (detectionType ds)), ("dist", sdistToJson a.1),
      ("perf", ratToJson a.2)]
  else if op == "tail" then
    let m ← optNat j "m"
    let minP ← ratOfJson (← j.getObjVal? "minp")
    let mp ← optNat j "minph"
    let ds ← match j.getObjVal? "dets" with
      | .ok .null => pure []
      | .ok v => parseDets v
      | .error _ => throw "missing field dets"
    let hs ← (← arrOf j "heralds").toList.mapM fun h => do
      match h with
      | .arr #[a, b] => return ((← a.getNat?), (← b.getNat?))
      | _ => throw "bad herald"
    let dist ← (← arrOf j "dist").toList.mapM fun e => do
      match e with
      | .arr #[s, p] => return ((← natList s), (← ratOfJson p))
      | _ => throw "bad dist entry"
    -- `if detectors:` — an empty / absent list skips simulate_detectors (and its length assertion)
    if !ds.isEmpty && m ≠ some ds.length then throw "AssertionError"
    let ok ← checkHeralds hs ds
    let a := probsTailCoded minP dist ds mp hs
    return Json.mkObj [("mask", toJson (useMask hs ds)), ("compatible", toJson ok),
      ("dist", sdistToJson a.1), ("perf", ratToJson a.2)]
  else if op == "sample" then
    let minP ← ratOfJson (← j.getObjVal? "minp")
    let ds ← parseDets (← j.getObjVal? "dets")
    let st ← natList (← j.getObjVal? "state")
    let fixed ← match j.getObjVal? "fixed" with
      | .ok (.bool b) => pure b
      | _ => throw "missing field fixed"
    let r ← sampleLaw fixed minP ds st
    return Json.mkObj [("type", typeStr (detectionType ds)), ("dist", sdistToJson r)]
  else
    throw s!"unknown op {op}"

def handle (j : Json) : Json :=
  match handleReq j with
  | .ok r => r
  | .error e => errJson e

def main : IO Unit := run handle
