import PercevalModel.Proto
import PercevalModel.Model.C11
import PercevalModel.Model.C11Lists
import PercevalModel.Model.C11Heur
import PercevalModel.Model.C11Regroup
import PercevalModel.Model.C11Deep
import PercevalModel.Model.C11Chain
import PercevalModel.Model.C11Mixed
import PercevalModel.Model.C11Nest

open Lean PM PM.Proto PM.C11

def matOfRows (k : ℕ) (rows : Array (Array GQ)) : Matrix (Fin k) (Fin k) GQ :=
  fun i j => (rows.getD i.val #[]).getD j.val 0

def convOf (s : String) : Except String Conv :=
  match s with
  | "Rx" => .ok .Rx
  | "Ry" => .ok .Ry
  | "H" => .ok .H
  | _ => .error s!"bad convention {s}"

def gqOf (j : Json) (k : String) : Except String GQ := do gqOfJson (← j.getObjVal? k)

def leafOf (j : Json) : Except String (Option (Leaf GQ)) := do
  if let .ok b := j.getObjVal? "bs" then
    let conv ← convOf (← strOf b "conv")
    return some (.bs { conv := conv, c := ← gqOf b "c", s := ← gqOf b "s", tl := ← gqOf b "tl",
                       bl := ← gqOf b "bl", tr := ← gqOf b "tr", br := ← gqOf b "br" })
  if let .ok z := j.getObjVal? "ps" then
    return some (.ps (← gqOfJson z))
  if let .ok k := natOf j "un" then
    let rows ← gqRows (← j.getObjVal? "U")
    if rows.size ≠ k ∨ rows.any (·.size ≠ k) then throw "bad leaf matrix"
    return some (.un k (matOfRows k rows))
  if let .ok p := j.getObjVal? "perm" then
    let σ ← natList p
    if !isPerm σ || σ.isEmpty then throw "AssertionError"
    return some (.un σ.length (permMatL σ.length σ))
  if let .ok k := natOf j "barrier" then
    return some (.barrier k)
  return none

partial def cmpOf (j : Json) : Except String (Cmp GQ) := do
  match ← leafOf j with
  | some l => return .leaf l
  | none =>
    let m ← natOf j "circ"
    if m = 0 then throw "AssertionError"
    let items ← arrOf j "items"
    let mut acc : List (ℕ × Cmp GQ) := []
    for it in items do
      match it with
      | .arr #[o, c] =>
        let off ← o.getNat?
        let sub ← cmpOf c
        if off + sub.size > m ∨ sub.size = 0 then throw "AssertionError"
        acc := (off, sub) :: acc
      | _ => throw "bad item"
    return .circ m (acc.foldl (fun r p => .cons p.1 p.2 r) .nil)

def matJson {n : ℕ} (v : MatV GQ n n) : Json := rowsToJson (v.toArray.map (·.toArray))

def flatJson (c : Cmp GQ) : Json :=
  Json.arr ((C01.flatten (c.toC01 GQ.I)).map fun p => Json.arr #[toJson p.1, toJson p.2.1]).toArray

def itsOf (c : Cmp GQ) : Its GQ := match c with | .circ _ its => its | .leaf _ => .nil

/-! simplifier items over ℚ phases -/

def twoPi : ℚ := mkRat 884279719003555 140737488355328
def tol : ℚ := mkRat 1 1000000000

instance : PhaseAlg ℚ where
  add := (· + ·)
  canDrop φ := [(0 : ℚ), 1, 2].any fun k => |φ - k * twoPi| ≤ tol

def phaseClose (a b : ℚ) : Bool := [(-1 : ℚ), 0, 1].any fun k => |a - b - k * twoPi| ≤ tol

def itemClose (a b : Item ℚ) : Bool :=
  a.r0 == b.r0 && a.w == b.w &&
    match a.k, b.k with
    | .ps x, .ps y => phaseClose x y
    | k1, k2 => k1 == k2

def listClose : List (Item ℚ) → List (Item ℚ) → Bool
  | [], [] => true
  | a :: as, b :: bs => itemClose a b && listClose as bs
  | _, _ => false

def itemOf (j : Json) : Except String (Item ℚ) := do
  let r0 ← natOf j "r0"
  let w ← natOf j "w"
  match ← strOf j "k" with
  | "perm" => return ⟨r0, w, .perm (← natList (← j.getObjVal? "perm"))⟩
  | "ps" => return ⟨r0, w, .ps (← ratOfJson (← j.getObjVal? "phi"))⟩
  | "psvar" => return ⟨r0, w, .psVar (← natOf j "id")⟩
  | "other" => return ⟨r0, w, .other (← natOf j "id")⟩
  | k => throw s!"bad kind {k}"

def itemJson (it : Item ℚ) : Json :=
  let base : List (String × Json) := [("r0", toJson it.r0), ("w", toJson it.w)]
  match it.k with
  | .perm σ => Json.mkObj (base ++ [("k", Json.str "perm"), ("perm", toJson σ)])
  | .ps φ => Json.mkObj (base ++ [("k", Json.str "ps"), ("phi", ratToJson φ)])
  | .psVar i => Json.mkObj (base ++ [("k", Json.str "psvar"), ("id", toJson i)])
  | .other i => Json.mkObj (base ++ [("k", Json.str "other"), ("id", toJson i)])

def itemsOf (j : Json) (k : String) : Except String (List (Item ℚ)) := do
  (← arrOf j k).toList.mapM itemOf

def branchName : PermBranch → String
  | .successive => "successive"
  | .nonSuccessive => "non-successive"
  | .single => "single"

def pairOf (it : Json) : Except String (ℕ × ℕ) :=
  match it with
  | Json.arr #[o, i] => do pure ((← o.getNat?), (← i.getNat?))
  | _ => throw "bad item"

def storeLeaf (l : Json) : Except String (Leaf GQ) := do
  match ← leafOf l with
  | some x => pure x
  | none => throw "bad leaf"

def flagsOf (it : Json) : Except String (Bool × Bool) :=
  match it with
  | Json.arr #[v, h] => do pure ((← v.getBool?), (← h.getBool?))
  | _ => throw "bad flags"

def doInverse (j : Json) : Except String Json := do
  -- `seq`: the successive `inverse(v, h)` calls (empty: the matrix of the tree itself)
  let fixed ← boolOf j "fixed"
  let seq ← (← arrOf j "seq").toList.mapM flagsOf
  let c ← cmpOf (← j.getObjVal? "tree")
  let ci := seq.foldl (fun t (f : Bool × Bool) => t.inv fixed f.1 f.2) c
  return Json.mkObj [("U", matJson (ci.UV GQ.I)), ("flat", flatJson ci)]

def doRefs (j : Json) : Except String Json := do
  let fixed ← boolOf j "fixed"
  let v ← boolOf j "v"
  let h ← boolOf j "h"
  let m ← natOf j "m"
  let store ← (← arrOf j "store").toList.mapM storeLeaf
  let items ← (← arrOf j "items").toList.mapM pairOf
  if items.any (fun it => it.2 ≥ store.length) then throw "bad reference"
  let rc : RefCirc GQ := { m := m, store := store, items := items }
  let mode ← strOf j "mode"
  let out : RefCirc GQ := if mode == "current" then rc.invCurrent fixed v h else rc.invFixed fixed v h
  return Json.mkObj [("U", matJson (out.deref.UV GQ.I)), ("flat", flatJson out.deref)]

def doFlatten (j : Json) : Except String Json := do
  let fixed ← boolOf j "fixed"
  let depth : Option ℕ ← match j.getObjVal? "depth" with
    | .ok Json.null => pure none
    | .ok d => do pure (some (← d.getNat?))
    | .error _ => pure none
  let c ← cmpOf (← j.getObjVal? "tree")
  let l : List (ℕ × Cmp GQ) := flattenExp fixed depth (itsOf c)
  let out : List Json := l.map fun (p : ℕ × Cmp GQ) =>
    Json.mkObj [("r0", toJson p.1), ("w", toJson (p.2.toC01 GQ.I).size), ("U", matJson (p.2.UV GQ.I))]
  return Json.mkObj [("flat", Json.arr out.toArray)]

/-- non-unitary components travel as one-mode placeholders `un 1 [[1000 + id]]` -/
def entryOf (p : ℕ × Cmp GQ) : ℕ × Entry GQ :=
  match p.2 with
  | .leaf (.un 1 U) =>
    let z : GQ := U 0 0
    if z.im = 0 ∧ z.re ≥ 1000 ∧ z.re.den = 1 then (p.1, .non (z.re.num.toNat - 1000) 1) else (p.1, .uni p.2)
  | c => (p.1, .uni c)

def itsOfList : List (ℕ × Cmp GQ) → Its GQ
  | [] => .nil
  | (o, c) :: rest => .cons o c (itsOfList rest)

def groupJson (N : ℕ) (withFull : Bool) (g : C11.Group GQ) : Json :=
  match g with
  | .non r0 id w => Json.mkObj [("r0", toJson r0), ("w", toJson w), ("non", toJson id)]
  | .blockOf r0 w comps =>
    let full := (Cmp.circ N (itsOfList comps)).UV GQ.I
    let M : Matrix (Fin N) (Fin N) GQ := fun i j => (full.toArray.getD i.val (Vector.replicate _ 0)).toArray.getD j.val 0
    let B : MatV GQ w w := MatV.ofMatrix (block r0 w M)
    -- `full`: the ordered product of the run's components on all N modes — what the block, put back on
    -- its range, has to be (`regroup_denotation`)
    Json.mkObj ([("r0", toJson r0), ("w", toJson w), ("U", matJson B), ("n", toJson comps.length)] ++
      (if withFull then [("full", matJson full)] else []))

def entryJson (e : ℕ × Entry GQ) : Json :=
  match e.2 with
  | .uni c => Json.mkObj [("r0", toJson e.1), ("w", toJson c.size)]
  | .non id w => Json.mkObj [("r0", toJson e.1), ("w", toJson w), ("non", toJson id)]

def itemsList : Its GQ → List (ℕ × Cmp GQ)
  | .nil => []
  | .cons o c rest => (o, c) :: itemsList rest

def doRegroup (j : Json) : Except String Json := do
  let fixed ← boolOf j "fixed"
  let c ← cmpOf (← j.getObjVal? "tree")
  let withFull : Bool := match j.getObjVal? "full" with
    | .ok (Json.bool b) => b
    | _ => false
  let hasTd : Bool := match j.getObjVal? "hasTd" with
    | .ok (Json.bool b) => b
    | _ => false
  let N := c.size
  let flat : List (ℕ × Entry GQ) := (flattenExp fixed none (itsOf c)).map entryOf
  let top : List (ℕ × Entry GQ) := (itemsList (itsOf c)).map entryOf
  let unitary : Bool := (unitaryCircuit top).isSome
  match nonUnitaryCircuit GQ.I N hasTd top flat with
  | .inl comps =>
    return Json.mkObj [("td", Json.bool true), ("components", Json.arr (comps.map entryJson).toArray),
      ("unitary", Json.bool unitary)]
  | .inr gs =>
    return Json.mkObj [("groups", Json.arr (gs.map (groupJson N withFull)).toArray),
      ("unitary", Json.bool unitary)]

def doPerm (j : Json) : Except String Json := do
  let fn ← strOf j "fn"
  match fn with
  | "extend" =>
    return Json.mkObj [("out", toJson (extendPerm (← natOf j "r0") (← natList (← j.getObjVal? "perm")) (← natOf j "m")))]
  | "compose" =>
    let c := permCompose (← natOf j "lr0") (← natList (← j.getObjVal? "lperm")) (← natOf j "rr0")
      (← natList (← j.getObjVal? "rperm"))
    return Json.mkObj [("n", toJson c.1), ("out", toJson c.2)]
  | "reduce" =>
    let c := reducePerm (← natOf j "r0") (← natList (← j.getObjVal? "perm"))
    return Json.mkObj [("r0", toJson c.1), ("out", toJson c.2)]
  | "invert" =>
    return Json.mkObj [("out", toJson (invertPerm (← natList (← j.getObjVal? "perm"))))]
  | "bubble" =>
    let σ ← natList (← j.getObjVal? "perm")
    return Json.mkObj [("swaps", toJson (bubble σ)), ("final", toJson (bubbleFinal σ)),
      ("inv", toJson (invertPerm σ))]
  | _ => throw "unknown fn"

def optListJson (o : Option (List ℕ)) : Json :=
  match o with
  | some l => toJson l
  | none => Json.null

abbrev Cand := String × Option (List (Item ℚ))

def candHit (after : List (Item ℚ)) (c : Cand) : Bool :=
  match c.2 with
  | some l => listClose l after
  | none => false

def candJson (c : Cand) : Json :=
  match c.2 with
  | some l => Json.arr (l.map itemJson).toArray
  | none => Json.null

/-- the results the specification allows for one iteration of `simplify` -/
def stepCands (fixedAdj : Bool) (m : ℕ) (display : Bool) (before : List (Item ℚ)) (new : Item ℚ)
    (after : List (Item ℚ)) : List Cand :=
  match new.k with
  | .perm _ =>
    let br := permBranch fixedAdj m before
    let c0 : Cand := (branchName br ++ (if br == PermBranch.nonSuccessive then "/kept" else ""),
               simplifyStep fixedAdj m display false none before new)
    if br == PermBranch.nonSuccessive then
      match recoverChoice m before after with
      | some ρ =>
        let inComps := match lastPermIdx before with
          | some i => before.drop (i + 1)
          | none => []
        let valid := validChoice m inComps ρ
        [c0, ((if valid then "non-successive/unravelled" else "non-successive/INVALID-CHOICE"),
                simplifyStep fixedAdj m display false (some ρ) before new)]
      | none => [c0]
    else [c0]
  | .ps _ =>
    [("ps/keep", simplifyStep fixedAdj m display false none before new),
     ("ps/drop", simplifyStep fixedAdj m display true none before new)]
  | _ => [("other", simplifyStep fixedAdj m display false none before new)]

/-- which paths of the heuristic one call of `_generate_compatible_perm` went through (model-side
trace, recomputed with the model's own functions) -/
def heurTrace (permList : List ℕ) (adj : List (List ℕ)) : List String :=
  match workLists permList adj with
  | none => ["heur-empty-group"]
  | some (multi, third) =>
    let m := permList.length
    let multiKinds : List String :=
      (if multi.any (fun g => !keptAdjacent permList g) then ["heur-first-step"] else []) ++
      (if multi.any (fun g => keptAdjacent permList g) then ["heur-second-step"] else [])
    let walk := fun (acc : Option Slots × List String) (modes : List ℕ) =>
      match acc.1 with
      | none => acc
      | some perm =>
        let init := outMin permList modes
        let sn := searchEmptySpace perm modes.length init
        let t1 := if sn.1 < init then ["heur-search-left"] else if sn.1 > init then ["heur-search-right"] else []
        let t2 := if sn.2 < modes.length then
            match updLoop modes.length (perm.length + 1)
                { perm := perm, smin := sn.1, smax := sn.1 + sn.2, n := sn.2, jr := 0, jl := 1 } with
            | some st =>
              (if st.smin < sn.1 then ["heur-shift-left"] else []) ++
              (if st.smax > sn.1 + sn.2 then ["heur-shift-right"] else []) ++
              (if modes.length - sn.2 ≥ 2 then ["heur-shift-two-or-more"] else [])
            | none => ["heur-loop-out-of-fuel"]
          else []
        (updatePerm perm init modes, acc.2 ++ t1 ++ t2)
    let r1 := multi.foldl walk (some (List.replicate m none), multiKinds)
    let r2 := third.foldl walk r1
    let retry := match r2.1 with
      | some rev2 => if rev2 == (List.range m).map some then ["heur-identity-retry"] else []
      | none => []
    (r2.2 ++ retry).eraseDups

/-- the heuristic on its own: `{"permList": [...], "adj": [[...], ...]}` -/
def doHeur (j : Json) : Except String Json := do
  let permList ← natList (← j.getObjVal? "permList")
  let adj ← (← arrOf j "adj").toList.mapM natList
  return Json.mkObj [("out", optListJson (genCompatiblePerm permList adj)),
    ("trace", toJson (heurTrace permList adj))]

def doStep (j : Json) : Except String Json := do
  let m ← natOf j "m"
  let display ← boolOf j "display"
  let fixedAdj ← boolOf j "fixedAdj"
  let before ← itemsOf j "before"
  let new ← itemOf (← j.getObjVal? "new")
  let after ← itemsOf j "after"
  let fused : Bool := match new.k with
    | .ps _ => decide (after.length ≤ before.length)
    | _ => false
  let isPerm : Bool := match new.k with
    | .perm _ => true
    | _ => false
  if fixedAdj && isPerm && permBranch true m before == PermBranch.nonSuccessive then
    -- the repaired code with the exact model of the heuristic: ONE allowed result
    let keep := simplifyStep true m display false none before new
    let det := simplifyStepDet m display false before new
    let ρ := heurChoice m before
    let trace : List String := match lastPermIdx before with
      | some i =>
        match before[i]? with
        | some ⟨pr0, _, .perm pσ⟩ =>
          heurTrace (invertPerm (extendPerm pr0 pσ m)) (adjExact m (before.drop (i + 1)))
        | _ => []
      | none => []
    let tag := if det == keep then "non-successive/kept" else "non-successive/unravelled"
    if candHit after (tag, det) then
      return Json.mkObj [("ok", Json.bool true), ("tag", Json.str tag), ("fused", Json.bool false),
        ("exact", Json.bool true), ("heur", toJson trace), ("choice", optListJson ρ)]
    else
      -- not the model's result: say what the non-deterministic specification thinks of it
      let cands := stepCands fixedAdj m display before new after
      let specTag : String := match cands.find? (candHit after) with
        | some c => c.1
        | none => "not-allowed"
      return Json.mkObj [("ok", Json.bool false), ("tags", toJson [tag]), ("spec", Json.str specTag),
        ("choice", optListJson ρ), ("recovered", optListJson (recoverChoice m before after)),
        ("cands", Json.arr [candJson (tag, det)].toArray)]
  else
  let cands := stepCands fixedAdj m display before new after
  match cands.find? (candHit after) with
  | some c => return Json.mkObj [("ok", Json.bool true), ("tag", Json.str c.1), ("fused", Json.bool fused)]
  | none =>
    return Json.mkObj [("ok", Json.bool false), ("tags", toJson (cands.map (·.1))),
      ("cands", Json.arr (cands.map candJson).toArray)]

/-! nested circuits with object identity: `{"id": k, "leaf": <leaf>}` / `{"id": k, "circ": m, "items": [[off, node], …]}` -/

partial def ocmpOf (j : Json) : Except String (OCmp GQ) := do
  let id ← natOf j "id"
  if let .ok l := j.getObjVal? "leaf" then
    match ← leafOf l with
    | some x => return .leaf id x
    | none => throw "bad leaf"
  let m ← natOf j "circ"
  if m = 0 then throw "AssertionError"
  let items ← arrOf j "items"
  let mut acc : List (ℕ × OCmp GQ) := []
  for it in items do
    match it with
    | .arr #[o, c] =>
      let off ← o.getNat?
      let sub ← ocmpOf c
      if off + sub.erase.size > m ∨ sub.erase.size = 0 then throw "AssertionError"
      acc := (off, sub) :: acc
    | _ => throw "bad item"
  return .circ id m (acc.foldl (fun r p => .cons p.1 p.2 r) .nil)

mutual
  /-- iteration-order listing `(depth, first port, size, is a container)` -/
  partial def shapeC (depth off : ℕ) : OCmp GQ → List (ℕ × ℕ × ℕ × Bool)
    | .leaf _ l => [(depth, off, l.size, false)]
    | .circ _ m items => (depth, off, m, true) :: shapeI (depth + 1) items
  partial def shapeI (depth : ℕ) : OIts GQ → List (ℕ × ℕ × ℕ × Bool)
    | .nil => []
    | .cons off c rest => shapeC depth off c ++ shapeI depth rest
end

def shapeJson (l : List (ℕ × ℕ × ℕ × Bool)) : Json :=
  Json.arr (l.map fun p => Json.arr #[toJson p.1, toJson p.2.1, toJson p.2.2.1, Json.bool p.2.2.2]).toArray

/-- `copy()` of a nested circuit: the new objects, the shape and the matrix of the copy; with
`"mutate": a` additionally the matrices of original and copy after an in-place `inverse(h=True)` of
the leaf object `a` -/
def doDeepCopy (j : Json) : Except String Json := do
  let t ← ocmpOf (← j.getObjVal? "tree")
  let next ← natOf j "next"
  if t.ids.any (· ≥ next) then throw "identity not below next"
  let cp := (t.copy next).1
  let base : List (String × Json) :=
    [("ids", toJson cp.ids), ("origIds", toJson t.ids), ("shape", shapeJson (shapeC 0 0 cp)),
     ("U", matJson (cp.erase.UV GQ.I))]
  match natOf j "mutate" with
  | .ok a =>
    let f : Leaf GQ → Leaf GQ := Leaf.inv true false true
    return Json.mkObj (base ++ [("origAfter", matJson ((t.mutate a f).erase.UV GQ.I)),
      ("copyAfter", matJson ((cp.mutate a f).erase.UV GQ.I))])
  | .error _ => return Json.mkObj base

/-! histories of transformations on one object (`Model/C11Chain.lean`) -/

def stepOf (j : Json) : Except String Step :=
  match j with
  | Json.arr #[Json.str "inv", v, h] => do pure (.inv (← v.getBool?) (← h.getBool?))
  | Json.arr #[Json.str "copy"] => pure .copy
  | Json.arr #[Json.str "flat"] => pure (.flat none)
  | Json.arr #[Json.str "flat", d] => do pure (.flat (some (← d.getNat?)))
  | _ => throw "bad step"

/-- `{"op": "chain", "tree": …, "steps": [["inv", v, h] | ["copy"] | ["flat"] | ["flat", depth], …]}`: matrix and
leaf ranges of the object after the whole history -/
def doChain (j : Json) : Except String Json := do
  let steps ← (← arrOf j "steps").toList.mapM stepOf
  let c ← cmpOf (← j.getObjVal? "tree")
  let ci := chainCmp steps c
  return Json.mkObj [("U", matJson (ci.UV GQ.I)), ("flat", flatJson ci)]

/-! mixed histories (`Model/C11Mixed.lean`): a phase travels as (angle, unit phase `e^{iφ}` as the component computes it) -/

abbrev PZ := ℚ × GQ

instance : PhaseAlg PZ where
  add a b := (a.1 + b.1, a.2 * b.2)
  canDrop a := PhaseAlg.canDrop a.1

instance : PhaseNeg PZ where
  neg a := (-a.1, star a.2)

def fkOf (j : Json) : Except String (ℕ × FK PZ GQ) := do
  let r0 ← natOf j "r0"
  if let .ok p := j.getObjVal? "perm" then
    let σ ← natList p
    if !isPerm σ || σ.isEmpty then throw "AssertionError"
    return (r0, .perm σ.length σ)
  if let .ok φ := j.getObjVal? "phi" then
    return (r0, .ps (← ratOfJson φ, ← gqOf j "z"))
  match ← leafOf (← j.getObjVal? "leaf") with
  | some l => return (r0, .leaf l)
  | none => throw "bad leaf"

/-- `["simp", display, dropAll]`: every drop test whose phase sum is a multiple of 2π (within the tolerance) is decided
the same way -/
def mstepOf (n : ℕ) (j : Json) : Except String MStep :=
  match j with
  | Json.arr #[Json.str "inv", v, h] => do pure (.inv (← v.getBool?) (← h.getBool?))
  | Json.arr #[Json.str "copy"] => pure .copy
  | Json.arr #[Json.str "flat"] => pure .flat
  | Json.arr #[Json.str "simp", d, a] => do pure (.simp (← d.getBool?) (List.replicate n (← a.getBool?)))
  | Json.arr #[Json.str "decomp", mg] => do pure (.decomp (← mg.getBool?))
  | Json.arr #[Json.str "regroup"] => pure .regroup
  | _ => throw "bad step"

/-- the regrouping step with the product materialised (`MS.regroup` multiplies closures): the same block
`u[min_r:max_r, min_r:max_r]` of the same product (`mixed_tree_matrix`) -/
def regroupFast (m : ℕ) (st : MS PZ GQ) : MS PZ GQ :=
  if st.isEmpty then []
  else
    let cs := st.cmps Prod.snd
    let mm := pendingRange GQ.I m cs
    let full := (Cmp.circ m (itsOfList cs)).UV GQ.I
    let M : Matrix (Fin m) (Fin m) GQ :=
      fun i j => (full.toArray.getD i.val (Vector.replicate _ 0)).toArray.getD j.val 0
    let w := mm.2 - mm.1
    let B : MatV GQ w w := MatV.ofMatrix (block mm.1 w M)
    [(mm.1, .leaf (.un w B.toMatrix))]

def mstepRun (m : ℕ) (s : MStep) (st : MS PZ GQ) : MS PZ GQ :=
  match s with
  | .regroup => regroupFast m st
  | s => s.apply GQ.I Prod.snd m st

def fkJson (p : ℕ × FK PZ GQ) : Json :=
  let base : List (String × Json) := [("r0", toJson p.1), ("w", toJson p.2.size)]
  match p.2 with
  | .perm _ σ => Json.mkObj (base ++ [("k", Json.str "perm"), ("perm", toJson σ)])
  | .ps φ => Json.mkObj (base ++ [("k", Json.str "ps"), ("phi", ratToJson φ.1)])
  | .leaf _ => Json.mkObj (base ++ [("k", Json.str "leaf")])

def msJson (m : ℕ) (st : MS PZ GQ) (withU : Bool) : Json :=
  Json.mkObj ([("state", Json.arr (st.map fkJson).toArray)] ++
    (if withU then [("U", matJson ((Cmp.circ m (itsOfList (st.cmps Prod.snd))).UV GQ.I))] else []))

/-- `{"op": "mchain", "m": m, "state": [...], "steps": [...]}`: the flattened view and the matrix after every step of
the mixed history (entry 0: the initial state); the matrix for the last entry only -/
def doMChain (j : Json) : Except String Json := do
  let m ← natOf j "m"
  if m = 0 then throw "AssertionError"
  let st0 ← (← arrOf j "state").toList.mapM fkOf
  if st0.any (fun p => p.1 + p.2.size > m ∨ p.2.size = 0) then throw "AssertionError"
  let mut st := st0
  let stepsJ ← arrOf j "steps"
  let mut out : Array Json := #[msJson m st (stepsJ.size == 0)]
  let mut i := 0
  for sj in stepsJ do
    let s ← mstepOf (st.length) sj
    st := mstepRun m s st
    i := i + 1
    out := out.push (msJson m st (i == stepsJ.size))
  return Json.mkObj [("trace", Json.arr out)]

/-- the items of a component list -/
def itsToList : Its GQ → List (ℕ × Cmp GQ)
  | .nil => []
  | .cons o c r => (o, c) :: itsToList r

/-- `"swap"` for the two-mode unitary with the matrix of `PERM([1, 0])`, `"leaf"` for any other leaf -/
def leafKind : Cmp GQ → String
  | .leaf (.un k U) =>
      if h : k = 2 then
        let V : Matrix (Fin 2) (Fin 2) GQ := h ▸ U
        if V 0 0 == 0 && V 0 1 == 1 && V 1 0 == 1 && V 1 1 == 0 then "swap" else "leaf"
      else "leaf"
  | .leaf _ => "leaf"
  | .circ _ _ => "circ"

def nestJson (p : ℕ × Cmp GQ) : Json :=
  match p.2 with
  | .circ n its =>
      Json.mkObj [("r0", toJson p.1), ("w", toJson n),
        ("circ", Json.arr ((itsToList its).map fun q =>
          Json.mkObj [("r0", toJson q.1), ("w", toJson q.2.size), ("k", toJson (leafKind q.2))]).toArray)]
  | c => Json.mkObj [("r0", toJson p.1), ("w", toJson c.size), ("k", toJson (leafKind c))]

/-- `{"op": "decompnest", "m": m, "merge": b, "state": [...]}`: the component list `decompose_perms(circuit, merge)`
builds (`MS.decompTree`), nesting included, and its flattened view (`MS.decomp`) -/
def doDecompNest (j : Json) : Except String Json := do
  let m ← natOf j "m"
  if m = 0 then throw "AssertionError"
  let st ← (← arrOf j "state").toList.mapM fkOf
  if st.any (fun p => p.1 + p.2.size > m ∨ p.2.size = 0) then throw "AssertionError"
  let merge ← (← j.getObjVal? "merge").getBool?
  let tree := MS.decompTree merge Prod.snd st
  return Json.mkObj [("items", Json.arr (tree.map nestJson).toArray),
    ("flat", Json.arr ((MS.decomp st).map fun p => Json.arr #[toJson p.1, toJson p.2.size]).toArray)]

def handle (j : Json) : Json :=
  match (do
    let op ← strOf j "op"
    match op with
    | "inverse" => doInverse j
    | "refs" => doRefs j
    | "flatten" => doFlatten j
    | "regroup" => doRegroup j
    | "perm" => doPerm j
    | "step" => doStep j
    | "heur" => doHeur j
    | "deepcopy" => doDeepCopy j
    | "chain" => doChain j
    | "mchain" => doMChain j
    | "decompnest" => doDecompNest j
    | _ => throw "unknown op" : Except String Json) with
  | .ok r => r
  | .error e => errJson e

def main : IO Unit := run handle
