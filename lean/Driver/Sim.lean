import PercevalModel.SimProto
open Lean PM.Proto PM.SimProto
def handle (j : Json) : Json := match handleSim j with | .ok r => r | .error e => errJson e
def main : IO Unit := run handle
