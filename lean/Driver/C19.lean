/-
  C19 driver.  One request = one history:
    {"variant": {"ctx":b,"dir":b,"add":b,"stat":b,"poll":b}, "dir": b, "ops": [op, …]}
  reply:
    {"init": snapshot, "steps": [{"res":…, "view":[…], "mem":[…], "disk":…, "reload":[…]}, …],
     "sent": [...], "issued": [...], "retired": [...]}
  or a script of file-primitive calls over several file names (see `handleFs`).
  Anything malformed is answered {"err": …}; nothing is defaulted.
-/
import PercevalModel.Proto
import PercevalModel.Model.C19
import PercevalModel.Model.C19TW
import PercevalModel.Model.C19Crash
import PercevalModel.Model.C19Conc

open Lean PM PM.Proto PM.C19

def statusOfString : String → Except String Status
  | "WAITING" => .ok .waiting
  | "RUNNING" => .ok .running
  | "SUCCESS" => .ok .success
  | "ERROR" => .ok .error
  | "CANCELED" => .ok .canceled
  | "SUSPENDED" => .ok .suspended
  | "CANCEL_REQUESTED" => .ok .cancelRequested
  | "UNKNOWN" => .ok .unknown
  | s => .error s!"bad status {s}"

def statusToString : Status → String
  | .waiting => "WAITING"
  | .running => "RUNNING"
  | .success => "SUCCESS"
  | .error => "ERROR"
  | .canceled => "CANCELED"
  | .suspended => "SUSPENDED"
  | .cancelRequested => "CANCEL_REQUESTED"
  | .unknown => "UNKNOWN"

/-- key absent → none -/
def optKey (j : Json) (k : String) : Option Json :=
  match j.getObjVal? k with
  | .ok v => some v
  | .error _ => none

def reqKey (j : Json) (k : String) : Except String Json :=
  match j with
  | .obj _ => (match optKey j k with | some v => .ok v | none => .error s!"missing key {k}")
  | _ => .error s!"object expected for key {k}"

/-- null | n -/
def optNat (j : Json) : Except String (Option Nat) :=
  match j with
  | .null => .ok none
  | _ => do return some (← j.getNat?)

/-- key absent | null | n -/
def optOptNat (j : Json) (k : String) : Except String (Option (Option Nat)) :=
  match optKey j k with
  | none => .ok none
  | some v => do return some (← optNat v)

def mapDeltaOf (j : Json) : Except String MapDelta := do
  return { maxSamples := ← optNat (← reqKey j "max_samples"), maxShots := ← optNat (← reqKey j "max_shots") }

def ctxOf (j : Json) : Except String Ctx := do
  match j with
  | .obj _ =>
    let rm ← (match optKey j "result_mapping" with | none => pure none | some v => do pure (some (← v.getNat?)))
    let md ← (match optKey j "mapping_delta_parameters" with | none => pure none | some v => do pure (some (← mapDeltaOf v)))
    return { rm := rm, md := md }
  | _ => throw "job_context: object expected"

def optCtx (j : Json) : Except String (Option Ctx) :=
  match j with
  | .null => .ok none
  | _ => do return some (← ctxOf j)

def payloadOf (j : Json) : Except String Payload := do
  let rest ← (← reqKey j "rest").getNat?
  let ms ← optOptNat j "max_samples"
  let sh ← optOptNat j "max_shots"
  let ctx ← (match optKey j "job_context" with | none => pure none | some v => do pure (some (← optCtx v)))
  return { rest := rest, maxSamples := ms, maxShots := sh, ctx := ctx }

def reqOf (j : Json) : Except String Req := do
  let jn ← (match optKey j "job_name" with | none => pure none | some v => do pure (some (← v.getNat?)))
  return { jobName := jn, payload := ← payloadOf (← reqKey j "payload") }

def jobOf (j : Json) : Except String Job := do
  let id ← optNat (← reqKey j "id")
  let st ← statusOfString (← (← reqKey j "st").getStr?)
  let hd ← (← reqKey j "hd").getNat?
  let name ← (← reqKey j "name").getNat?
  let req ← (match (← reqKey j "req") with | .null => pure none | v => do pure (some (← reqOf v)))
  let ctx ← optCtx (← reqKey j "ctx")
  let cm ← optOptNat j "cmd_max"
  let dm ← (match (← reqKey j "dmap") with | .null => pure none | v => do pure (some (← mapDeltaOf v)))
  let res ← (← reqKey j "res").getBool?
  let dp ← (← reqKey j "dp").getBool?
  let js ← (← reqKey j "js").getBool?
  return { id := id, st := st, hd := hd, name := name, req := req, ctx := ctx, cmdMax := cm, dmap := dm,
           res := res, dp := dp, js := js }

def outcomeOf (j : Json) : Except String Outcome :=
  match j with
  | .str "refuse" => .ok .refuse
  | _ => do return .accept (← (← reqKey j "accept").getNat?)

/-- a status name | "fault:HTTPError" | "fault:ConnectionError" | "fault:KeyboardInterrupt" | "ignored" | "intr" -/
def ansOfString : String → Except String Ans
  | "fault:HTTPError" => .ok (.fault .httpError)
  | "fault:ConnectionError" => .ok (.fault .connectionError)
  | "fault:KeyboardInterrupt" => .ok (.fault .keyboardInterrupt)
  | "ignored" => .ok .ignored
  | "intr" => .ok .intr
  | s => do return .st (← statusOfString s)

def stsOf (j : Json) : Except String (List Ans) := do
  (← (← reqKey j "sts").getArr?).toList.mapM fun x => do ansOfString (← x.getStr?)

/-- "ok:mapped" | "ok:plain" | "unavailable" | "fault:<class>" -/
def rspOfString : String → Except String Rsp
  | "ok:mapped" => .ok (.ok true)
  | "ok:plain" => .ok (.ok false)
  | "unavailable" => .ok .unavailable
  | "fault:HTTPError" => .ok (.fault .httpError)
  | "fault:ConnectionError" => .ok (.fault .connectionError)
  | "fault:KeyboardInterrupt" => .ok (.fault .keyboardInterrupt)
  | s => .error s!"bad results answer {s}"

def rspsOf (j : Json) : Except String (List Rsp) := do
  (← (← reqKey j "rsps").getArr?).toList.mapM fun x => do rspOfString (← x.getStr?)

def kindOf : String → Except String ListKind
  | "successful" => .ok .successful
  | "active" => .ok .active
  | "unsuccessful" => .ok .unsuccessful
  | "unsent" => .ok .unsent
  | s => .error s!"bad list kind {s}"

def opOf (j : Json) : Except String Op := do
  match (← (← reqKey j "op").getStr?) with
  | "reopen" => return .reopen
  | "add" => return .add (← jobOf (← reqKey j "job")) (← optNat (← reqKey j "kw"))
  | "add_local" => return .addLocal
  | "launch" =>
    let outs ← (← (← reqKey j "outs").getArr?).toList.mapM outcomeOf
    return .launch (← (← reqKey j "rerun").getBool?) (← (← reqKey j "replace").getBool?)
      (← (← reqKey j "seq").getBool?) outs (← stsOf j)
  | "progress" => return .progress (← stsOf j)
  | "list" => return .list (← kindOf (← (← reqKey j "kind").getStr?)) (← stsOf j)
  | "get_results" => return .getResults (← stsOf j) (← rspsOf j)
  | "track" => return .track (← stsOf j)
  | "wipe" => return .wipe (← (← reqKey j "now").getNat?)
  | "delete_date" => return .deleteDate (← (← reqKey j "cutoff").getNat?) (← (← reqKey j "now").getNat?)
  | "other" => return .other
  | s => throw s!"bad op {s}"

def variantOf (j : Json) : Except String Variant := do
  return { ctxFix := ← (← reqKey j "ctx").getBool?, dirFix := ← (← reqKey j "dir").getBool?,
           addFix := ← (← reqKey j "add").getBool?, statFix := ← (← reqKey j "stat").getBool?,
           pollFix := ← (← reqKey j "poll").getBool?, resFix := ← (← reqKey j "res").getBool?,
           gstFix := ← (← reqKey j "gst").getBool? }

/-! output -/
def optNatJ : Option Nat → Json
  | none => .null
  | some n => toJson n

def mapDeltaJ (m : MapDelta) : Json :=
  Json.mkObj [("max_samples", optNatJ m.maxSamples), ("max_shots", optNatJ m.maxShots)]

def ctxJ (c : Ctx) : Json :=
  Json.mkObj ((match c.rm with | some n => [("result_mapping", toJson n)] | none => []) ++
              (match c.md with | some m => [("mapping_delta_parameters", mapDeltaJ m)] | none => []))

def optCtxJ : Option Ctx → Json
  | none => .null
  | some c => ctxJ c

def payloadJ (p : Payload) : Json :=
  Json.mkObj ([("rest", toJson p.rest)] ++
    (match p.maxSamples with | some v => [("max_samples", optNatJ v)] | none => []) ++
    (match p.maxShots with | some v => [("max_shots", optNatJ v)] | none => []) ++
    (match p.ctx with | some v => [("job_context", optCtxJ v)] | none => []))

def reqJ (r : Req) : Json :=
  Json.mkObj ((match r.jobName with | some n => [("job_name", toJson n)] | none => []) ++
              [("payload", payloadJ r.payload)])

def optReqJ : Option Req → Json
  | none => .null
  | some r => reqJ r

def jobJ (j : Job) : Json :=
  Json.mkObj ([("id", optNatJ j.id), ("st", .str (statusToString j.st)), ("hd", toJson j.hd),
               ("name", toJson j.name), ("req", optReqJ j.req), ("ctx", optCtxJ j.ctx),
               ("dmap", match j.dmap with | some m => mapDeltaJ m | none => .null),
               ("res", toJson j.res), ("dp", toJson j.dp), ("js", toJson j.js)] ++
              (match j.cmdMax with | some v => [("cmd_max", optNatJ v)] | none => []))

def djobJ (e : DJob) : Json :=
  Json.mkObj [("id", optNatJ e.id),
              ("status", match e.status with | some s => .str (statusToString s) | none => .null),
              ("hd", toJson e.hd), ("body", optReqJ e.body)]

def errName : Err → String
  | .typeError => "TypeError"
  | .valueError => "ValueError"
  | .runtimeError => "RuntimeError"
  | .assertionError => "AssertionError"
  | .httpError => "HTTPError"
  | .connectionError => "ConnectionError"
  | .keyError => "KeyError"
  | .keyboardInterrupt => "KeyboardInterrupt"

def resJ : Res → Json
  | .ok => .str "ok"
  | .killed => .str "killed"
  | .raised e => .str ("raised:" ++ errName e)

def snapshot (v : Variant) (s : State) : List (String × Json) :=
  [("mem", Json.arr (s.mem.map jobJ).toArray),
   ("disk", match s.disk with | none => .null | some d => Json.arr (d.map djobJ).toArray),
   ("dir", toJson s.dir),
   ("reload", Json.arr ((reload v s).map jobJ).toArray),
   ("next", toJson s.next), ("created", toJson s.created)]

def sentJ (r : Sent) : Json :=
  Json.mkObj [("idx", toJson r.idx), ("id", toJson r.id), ("req", optReqJ r.req), ("stored", optReqJ r.stored)]

def runHistory (v : Variant) (s0 : State) (ops : List Op) : State × List Json :=
  ops.foldl (fun (acc : State × List Json) op =>
    let r := step v acc.1 op
    (r.1, acc.2 ++ [Json.mkObj ([("res", resJ r.2.res), ("view", toJson r.2.view)] ++ snapshot v r.1)])) (s0, [])

/-! file primitives: {"fs": [{"op":"write","n":1,"c":2}, {"op":"delete","n":1}, {"op":"read","n":1},
   {"op":"has","n":1}, {"op":"open","n":1}]} → {"obs": ["done", {"content": null|c}, {"found": b}, …]} -/
def fsOpOf (j : Json) : Except String FS.Op := do
  let n ← (← reqKey j "n").getNat?
  match (← (← reqKey j "op").getStr?) with
  | "write" => return .write n (← (← reqKey j "c").getNat?)
  | "delete" => return .delete n
  | "read" => return .read n
  | "has" => return .has n
  | "open" => return .openGroup n
  | s => throw s!"bad fs op {s}"

def fsObsJ : FS.Obs → Json
  | .done => .str "done"
  | .content c => Json.mkObj [("content", optNatJ c)]
  | .found b => Json.mkObj [("found", toJson b)]

def handleFs (j : Json) : Json :=
  match (do (← j.getArr?).toList.mapM fsOpOf : Except String (List FS.Op)) with
  | .error e => errJson e
  | .ok ops => Json.mkObj [("obs", Json.arr ((PM.SM.run (FS.step FS.real) FS.empty ops).2.map fsObsJ).toArray)]

def handleHistory (j : Json) : Json :=
  match (do
    let v ← variantOf (← reqKey j "variant")
    let dir ← (← reqKey j "dir").getBool?
    let ops ← (← (← reqKey j "ops").getArr?).toList.mapM opOf
    pure (v, dir, ops) : Except String (Variant × Bool × List Op)) with
  | .error e => errJson e
  | .ok (v, dir, ops) =>
    let s0 := create v dir
    let r := runHistory v s0 ops
    -- optional "caa": g — the process dies right after the server answered `accept g` to the request at which the
    -- history's last operation ran out of answers (`crashAfterAnswer`): identifiers in the file, identifiers issued
    let caa : List (String × Json) :=
      match optKey j "caa" with
      | some (.num n) =>
        let c := crashAfterAnswer r.1 n.mantissa.toNat
        [("caa", Json.mkObj [("disk_ids", toJson ((c.disk.getD []).filterMap (·.id))), ("issued", toJson c.issued),
                             ("disk_same", toJson (decide (c.disk = r.1.disk)))])]
      | _ => []
    Json.mkObj ([("init", Json.mkObj (snapshot v s0)), ("steps", Json.arr r.2.toArray),
                ("sent", Json.arr (r.1.sent.map sentJ).toArray),
                ("issued", toJson r.1.issued), ("retired", toJson r.1.retired)] ++ caa)

/-! group files of one directory: {"ns": [{"op":"open","n":1,"now":5}, {"op":"save","n":1,"data":2,"now":6},
   {"op":"has","n":1}, {"op":"list"}, {"op":"delete","n":1}, {"op":"delete_all"},
   {"op":"delete_date","cutoff":7,"now":9}]} → {"obs": [{"content": null|{"created":c,"data":k}}, {"found": b},
   {"names": [...]} (sorted: a directory listing has no order), "done", "raised", …]} -/
def nsOpOf (j : Json) : Except String NS.Op := do
  let nat (k : String) : Except String Nat := do (← reqKey j k).getNat?
  match (← (← reqKey j "op").getStr?) with
  | "open" => return .open (← nat "n") (← nat "now")
  | "save" => return .save (← nat "n") (← nat "data") (← nat "now")
  | "has" => return .has (← nat "n")
  | "list" => return .list
  | "delete" => return .delete (← nat "n")
  | "delete_all" => return .deleteAll
  | "delete_date" => return .deleteDate (← nat "cutoff") (← nat "now")
  | s => throw s!"bad ns op {s}"

def insertSorted (x : Nat) : List Nat → List Nat
  | [] => [x]
  | y :: ys => if x ≤ y then x :: y :: ys else y :: insertSorted x ys

def nsObsJ : NS.Obs → Json
  | .content none => Json.mkObj [("content", .null)]
  | .content (some c) => Json.mkObj [("content", Json.mkObj [("created", toJson c.created), ("data", toJson c.data)])]
  | .found b => Json.mkObj [("found", toJson b)]
  | .names l => Json.mkObj [("names", toJson (l.foldr insertSorted []))]
  | .done => .str "done"
  | .raised => .str "raised"

def handleNs (j : Json) : Json :=
  match (do (← j.getArr?).toList.mapM nsOpOf : Except String (List NS.Op)) with
  | .error e => errJson e
  | .ok ops => Json.mkObj [("obs", Json.arr ((PM.SM.run (NS.step NS.real) [] ops).2.map nsObsJ).toArray)]

/-! torn writes: {"tw": {"old": null|"text", "new": "text", "impl": "inPlace"|"viaTemp", "cuts": [c, …]}} →
   {"accepts_new": b, "ends_black": b, "out": ["fresh" | "raises" | {"loaded": {"old": b, "new": b}}, …]}
   (`out[i]` = what `JobGroup(name)` does with the file left by a process that stops after `cuts[i]` events of the
   write; `loaded` says which of the two texts the file is) -/
def textOf (s : String) : TW.Text := s.toList.map Char.toNat

def handleTw (j : Json) : Json :=
  match (do
    let old ← (match (← reqKey j "old") with
               | .null => pure none
               | v => do pure (some (textOf (← v.getStr?))) : Except String (Option TW.Text))
    let new := textOf (← (← reqKey j "new").getStr?)
    let impl ← (match (← (← reqKey j "impl").getStr?) with
                | "inPlace" => pure TW.WriteImpl.inPlace
                | "viaTemp" => pure TW.WriteImpl.viaTemp
                | s => throw s!"bad impl {s}" : Except String TW.WriteImpl)
    let cuts ← (← (← reqKey j "cuts").getArr?).toList.mapM (·.getNat?)
    pure (old, new, impl, cuts) : Except String (Option TW.Text × TW.Text × TW.WriteImpl × List Nat)) with
  | .error e => errJson e
  | .ok (old, new, impl, cuts) =>
    let outJ (o : TW.Opened) : Json :=
      match o with
      | .fresh => .str "fresh"
      | .raises => .str "raises"
      | .loaded t => Json.mkObj [("loaded", Json.mkObj [("old", toJson (decide (some t = old))),
                                                        ("new", toJson (decide (t = new)))])]
    Json.mkObj [("accepts_new", toJson (TW.accepts new)), ("ends_black", toJson (TW.endsBlack new)),
                ("out", Json.arr ((cuts.map fun c => outJ (TW.reopen (TW.fileAt impl old new c))).toArray))]

/-! two objects of one name: {"conc": {"variant": …, "dir": b, "acts": [{"h": 0|1, "op": {…}}]}} → {"steps":
   [{"res", "view", "who", "mem" (the acting object's list), "disk", "other" (the waiting object's list | null),
     "next"}], "disc": b (the history obeys the re-open discipline), "issued", "retired"} -/
def handleConc (j : Json) : Json :=
  match (do
    let v ← variantOf (← reqKey j "variant")
    let dir ← (← reqKey j "dir").getBool?
    let acts ← (← (← reqKey j "acts").getArr?).toList.mapM (fun a => do
      let h ← (← reqKey a "h").getNat?
      if h > 1 then throw s!"bad object {h}"
      let op ← opOf (← reqKey a "op")
      pure ((h == 1, op) : Conc.Act))
    pure (v, dir, acts) : Except String (Variant × Bool × List Conc.Act)) with
  | .error e => errJson e
  | .ok (v, dir, acts) =>
    let r := acts.foldl (fun (acc : Conc.Two × List Json) a =>
      let r := Conc.step2 v acc.1 a
      (r.1, acc.2 ++ [Json.mkObj [("res", resJ r.2.res), ("view", toJson r.2.view),
        ("who", toJson (if r.1.who then 1 else 0)),
        ("mem", Json.arr (r.1.cur.mem.map jobJ).toArray),
        ("disk", match r.1.cur.disk with | none => .null | some d => Json.arr (d.map djobJ).toArray),
        ("other", match r.1.other with | none => .null | some m => Json.arr (m.map jobJ).toArray),
        ("next", toJson r.1.cur.next)]])) (Conc.init2 v dir, [])
    Json.mkObj [("steps", Json.arr r.2.toArray), ("disc", toJson (Conc.disc false acts)),
                ("issued", toJson r.1.cur.issued), ("retired", toJson r.1.cur.retired)]

def handle (j : Json) : Json :=
  match optKey j "conc" with
  | some r => handleConc r
  | none =>
  match optKey j "fs" with
  | some ops => handleFs ops
  | none =>
    match optKey j "tw" with
    | some r => handleTw r
    | none =>
    match optKey j "ns" with
    | some ops => handleNs ops
    | none => handleHistory j

def main : IO Unit := run handle
