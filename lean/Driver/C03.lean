/-
  Driver of C03.  Requests (all carry "m" and "U" = the matrix compute_unitary() reported, exact):
    {"op":"bs",  "state":[[tags of mode 0],…], "outs":[state,…]}
        every state of every request is read through `native` (Model/C03Mixed.lean); "bs" also returns the relabelled
        state, `mixedGroups` and the annotation map
    {"op":"sv",  "terms":[{"coef":[re,im],"state":…},…], "outs":[…][, "pouts":[occupation,…]]}
        also `probsSVentry` (the dispatch of `probs(StateVector)` on the number of components) and `probabilitySV` for "pouts"
    {"op":"svd", "members":[{"w":"1/3","terms":[…]},…], "prec":"1/1000000", "minp":"0"[, "bound":true]}
        with "bound": the exactly computed error bound of Props/C03 section 10 (`errD`, `errTot`, `errNormAt`) and
        whether the hypotheses of `probsSvd_precision_bound` hold for this input
    {"op":"dm",  "members":[…un-tagged…], "nmax":n}
    {"op":"evolve", "terms":[…], "cut2":"1/1000000000000"}   the vector `Simulator.evolve` returns: exact un-normalised
        amplitudes, squared norm of input and output, per output the bound `lossAt` on what the native cut can change
    {"op":"evolve_svd", "members":[…], "cut2":…}   the members of `evolve_svd`'s result and the outcome distribution
    {"op":"keys", "ops":[{"k":"set"|"iadd"|"read","c":component,"s":scaling,"w":"1/3"},…]}   `SVDistribution` as a dict
        keyed by normalised vectors (Model/C03Keys.lean): stored weights of the repaired and of the pinned code, intended weights
  everything else falls through to the shared specification driver (`handleSim`).
-/
import PercevalModel.SimProto
import PercevalModel.Model.C03
import PercevalModel.Model.C03Prec
import PercevalModel.Model.C03Evolve
import PercevalModel.Model.C03Entry
import PercevalModel.Model.C03Mixed
import PercevalModel.Model.C03Keys

open Lean PM PM.Proto PM.Fock PM.Dist PM.SimSpec PM.SimProto PM.C03

/-- a state as the object reports it (tags of the photons mode by mode, photon order, 0 = no annotation) -/
def astateRaw (j : Json) : Except String AState := do
  (← j.getArr?).toList.mapM natList

/-- … read through the native rule for states mixing annotated and un-annotated photons (`native`, the identity on
all other states: theorem `native_uniform`) -/
def astateOf (j : Json) : Except String AState := do
  pure (native (← astateRaw j))

def firstOcc (l : List ℕ) : List ℕ := l.reverse.dedup.reverse

/-- terms over a common ordered tag universe (vacuum for absent tags) -/
def termsOver (m : ℕ) (univ : List ℕ) (ts : List (GQ × AState)) : List SimSpec.Term :=
  ts.map fun t => { coef := t.1, groups :=
    if univ = [] then [zeros m] else univ.map fun tg => groupOf tg t.2 }

def rawTerms (j : Json) : Except String (List (GQ × AState)) := do
  (← j.getArr?).toList.mapM fun tj => do
    pure (← gqOfJson (← tj.getObjVal? "coef"), ← astateOf (← tj.getObjVal? "state"))

def universeOf (ts : List (GQ × AState)) : List ℕ := firstOcc (ts.flatMap fun t => tagsOf t.2)

def ampsToJson (l : Amps GQ) : Json :=
  Json.arr (l.map fun p => Json.arr #[toJson p.1, gqToJson p.2, toJson ((p.1.map prodFact).prod)]).toArray

def sameAmps (a b : Amps GQ) : Bool :=
  a.length == b.length && a.all fun p => b.any fun q => q.1 == p.1 && q.2 == p.2

def sameDist (a b : D) : Bool :=
  let ca := compress a
  let cb := compress b
  (ca.all fun p => p.2 == get cb p.1) && (cb.all fun p => p.2 == get ca p.1)

def membersOf (m : ℕ) (j : Json) : Except String (List Member) := do
  (← j.getArr?).toList.mapM fun mj => do
    let w ← ratOfJson (← mj.getObjVal? "w")
    let raw ← rawTerms (← mj.getObjVal? "terms")
    pure { w := w, terms := termsOver m (universeOf raw) raw }

/-- members over ONE tag universe for the whole mixture, so that equal annotated basis states of two members
have equal `groups` (`sameKey`) -/
def membersOfGlobal (m : ℕ) (j : Json) : Except String (List Member) := do
  let raws ← (← j.getArr?).toList.mapM fun mj => do
    pure (← ratOfJson (← mj.getObjVal? "w"), ← rawTerms (← mj.getObjVal? "terms"))
  let univ := firstOcc (raws.flatMap fun r => universeOf r.2)
  pure (raws.map fun r => { w := r.1, terms := termsOver m univ r.2 })

def anyTagged (j : Json) : Except String Bool := do
  let ms ← (← j.getArr?).toList.mapM fun mj => do rawTerms (← mj.getObjVal? "terms")
  pure (ms.any fun ts => ts.any fun t => t.2.any fun mode => mode.any (· != 0))

/-- the fields describing `Simulator.evolve` of one superposition -/
def evolveFields {m : ℕ} (U : Matrix (Fin m) (Fin m) GQ) (ts : List SimSpec.Term) (cut2 : ℚ) : List (String × Json) :=
  let cs := contribs U ts
  let ev := gatherAmps cs
  let n2 := svNorm2 ts
  let out2 := (ev.map fun p => GQ.normSq p.2 / (((p.1.map prodFact).prod : ℕ) : ℚ)).sum
  let loss := ev.filterMap fun p =>
    let l := lossOf cs cut2 n2 p.1
    if l = 0 then none else some (Json.arr #[toJson p.1, ratToJson l])
  [("evolve", ampsToJson ev), ("norm2", ratToJson n2), ("outNorm2", ratToJson out2),
   ("evolve_is_spec", toJson (sameAmps ev (svAmps U ts))), ("norm_preserved", toJson (out2 == n2)),
   ("loss", Json.arr loss.toArray), ("ncontribs", toJson cs.length)]

def handleE (j : Json) : Except String Json := do
    let op ← strOf j "op"
    match op with
    | "bs" =>
      let ⟨m, U⟩ ← matOfJson j
      let rawSt ← astateRaw (← j.getObjVal? "state")
      let st := native rawSt
      if st.length ≠ m then throw "bad state"
      let outs ← (← arrOf j "outs").toList.mapM astateOf
      let gs := separate st
      let ev := gatherAmps (evolveCode U [⟨(1 : GQ), gs⟩])
      let spec := svAmps U [{ coef := 1, groups := gs }]
      let n := (occ st).sum
      let pb := (allStates m n).map fun t => Json.arr #[toJson t, ratToJson (probabilityBS U st t)]
      let pa := outs.map fun o => Json.arr #[gqToJson (probAmpBS U st o),
        toJson (((annotMap st).map fun p => prodFact p.2).prod * ((annotMap o).map fun p => prodFact p.2).prod)]
      return Json.mkObj [("tags", toJson (tagsOf st)), ("groups", toJson gs),
        ("native", toJson st), ("mixedGroups", toJson (mixedGroups rawSt)), ("annot", toJson (annotMap st)),
        ("outsNative", toJson outs),
        ("probs", distToJson (probsBS U st)),
        ("conv", distToJson (normalize (probsTagged U gs))),
        ("conv_rev", distToJson (normalize (probsTagged U gs.reverse))),
        ("evolve", ampsToJson ev), ("evolve_is_spec", toJson (sameAmps ev spec)),
        ("norm2", ratToJson (svNorm2 [{ coef := 1, groups := gs }])),
        ("probability", Json.arr pb.toArray), ("pa", Json.arr pa.toArray)]
    | "sv" =>
      let ⟨m, U⟩ ← matOfJson j
      let raw ← rawTerms (← j.getObjVal? "terms")
      if raw.any (·.2.length ≠ m) then throw "bad state"
      let outs ← (← arrOf j "outs").toList.mapM astateOf
      let univ := universeOf raw
      let ts := termsOver m univ raw
      let ev := gatherAmps (evolveCode U (ts.map toTermR))
      let spec := svAmps U ts
      let pa := outs.map fun o => Json.arr #[gqToJson (probAmpSV U raw o),
        toJson (((annotMap o).map fun p => prodFact p.2).prod)]
      -- each term on its own (for the linearity oracle evaluated on the implementation)
      let each := ts.map fun t => ampsToJson (gatherAmps (evolveCode U [⟨1, t.groups⟩]))
      let cutFields : List (String × Json) ← match j.getObjVal? "cut2" with
        | .ok c => do
          let cut2 ← ratOfJson c
          pure ((evolveFields U ts cut2).filter fun f => f.1 == "loss" || f.1 == "outNorm2" || f.1 == "ncontribs")
        | .error _ => pure []
      -- the entry points that only dispatch (Model/C03Entry.lean): `probs(StateVector)` with its one-component branch,
      -- `probability(StateVector, BasicState)` for the requested occupations ("pouts")
      let pouts : List Fock ← match j.getObjVal? "pouts" with
        | .ok a => do (← a.getArr?).toList.mapM natList
        | .error _ => pure []
      let entry := probsSVentry U ts
      -- `probabilitySV U ts t` = `probabilityOf m (evolveRaw U ts) (outNorm2 U ts) t` by definition: the vector once
      let evRaw := evolveRaw U ts
      let evN2 := outNorm2 U ts
      let entryFields : List (String × Json) :=
        [("entry", distToJson entry), ("entryBranch", toJson (if ts.length == 1 then "single" else "evolve")),
         ("entry_is_spec", toJson (sameDist entry (probsSV U ts))),
         ("probabilitySV", Json.arr (pouts.map fun t => Json.arr #[toJson t, ratToJson (probabilityOf m evRaw evN2 t)]).toArray)]
      return Json.mkObj (cutFields ++ entryFields ++ [("tags", toJson univ), ("evolve", ampsToJson ev),
        ("evolve_is_spec", toJson (sameAmps ev spec)), ("norm2", ratToJson (svNorm2 ts)),
        ("probs", distToJson (probsSVcode U ts)), ("spec", distToJson (probsSV U ts)),
        ("each", Json.arr each.toArray),
        ("termnorm2", Json.arr (ts.map fun t => ratToJson (svNorm2 [{ coef := 1, groups := t.groups }])).toArray),
        ("pa", Json.arr pa.toArray)])
    | "svd" =>
      let ⟨m, U⟩ ← matOfJson j
      let ms ← membersOfGlobal m (← j.getObjVal? "members")
      let prec ← ratOfJson (← j.getObjVal? "prec")
      let minp ← ratOfJson (← j.getObjVal? "minp")
      let pre := preprocess prec minp ms
      let full := probsSVD U (ms.map fun mb => (mb.w, mb.terms))
      let keptW := (pre.kept.map (·.w)).sum
      let totW := (ms.map (·.w)).sum
      let raw := rawSvd U prec minp ms
      let wantBound := (j.getObjValAs? Bool "bound").toOption.getD false
      let boundFields : List (String × Json) :=
        if wantBound then
          let ed := errD U prec minp ms
          let eTot := mass ed
          let rawM := mass raw
          let specN := normalize full
          let keys := ((compress full).map (·.1) ++ (compress ed).map (·.1)).dedup
          let hyps := decide (0 ≤ prec) && ms.all (fun mb => decide (0 ≤ mb.w)) &&
            ms.all (fun mb => mb.terms.all fun t => t.coef != 0 && t.groups.all (·.length == m)) &&
            mass full != 0 && rawM != 0
          let dropped := preDropped prec minp ms
          [("errAt", distToJson (keys.map fun t => (t, get ed t))),
           ("errNorm", distToJson (keys.map fun t => (t, (get ed t + get specN t * eTot) / rawM))),
           ("errTot", ratToJson eTot), ("rawMass", ratToJson rawM), ("fullMass", ratToJson (mass full)),
           ("tv2", ratToJson (2 * eTot / rawM)),
           ("trimMass", ratToJson (mixMass (probsSV U) dropped)), ("dropped", toJson dropped.length),
           ("hyps", toJson hyps)]
        else []
      let evFields : List (String × Json) ← match j.getObjVal? "cut2" with
        | .ok c => do
          let cut2 ← ratOfJson c
          let raws ← (← (← j.getObjVal? "members").getArr?).toList.mapM fun mj => do rawTerms (← mj.getObjVal? "terms")
          let univ := firstOcc (raws.flatMap universeOf)
          let members := ((evolveSvd U ms).zip ms).map fun e =>
            Json.mkObj (("w", ratToJson e.1.w) :: evolveFields U e.2.terms cut2)
          pure [("ev", Json.mkObj [("tags", toJson univ), ("members", Json.arr members.toArray),
            ("probs", distToJson (probsOfEvolveSvd U ms))])]
        | .error _ => pure []
      return Json.mkObj (evFields ++ boundFields ++ [("probs", distToJson (normalize raw)),
        ("spec", distToJson (normalize full)), ("full", distToJson full),
        ("keptExact", distToJson (normalize (probsSVD U (pre.kept.map fun mb => (mb.w, mb.terms))))),
        ("theta", ratToJson pre.θ), ("superposed", toJson pre.superposed),
        ("kept", toJson pre.kept.length), ("keptTerms", toJson (pre.kept.map (·.terms.length))),
        ("keptW", toJson (pre.kept.map fun mb => ratToJson mb.w)),
        ("cutMass", ratToJson (totW - keptW)), ("totalW", ratToJson totW),
        ("members", Json.arr (ms.map fun mb => distToJson (probsSV U mb.terms)).toArray)])
    | "evolve" =>
      let ⟨m, U⟩ ← matOfJson j
      let raw ← rawTerms (← j.getObjVal? "terms")
      if raw.any (·.2.length ≠ m) then throw "bad state"
      let cut2 ← ratOfJson (← j.getObjVal? "cut2")
      let univ := universeOf raw
      let ts := termsOver m univ raw
      return Json.mkObj (("tags", toJson univ) :: evolveFields U ts cut2)
    | "evolve_svd" =>
      let ⟨m, U⟩ ← matOfJson j
      let ms ← membersOfGlobal m (← j.getObjVal? "members")
      let cut2 ← ratOfJson (← j.getObjVal? "cut2")
      let raws ← (← (← j.getObjVal? "members").getArr?).toList.mapM fun mj => do rawTerms (← mj.getObjVal? "terms")
      let univ := firstOcc (raws.flatMap universeOf)
      let ev := evolveSvd U ms
      let members := (ev.zip ms).map fun e =>
        Json.mkObj (("w", ratToJson e.1.w) :: evolveFields U e.2.terms cut2)
      let probs := probsOfEvolveSvd U ms
      let spec := normalize (probsSVD U (ms.map fun mb => (mb.w, mb.terms)))
      return Json.mkObj [("tags", toJson univ), ("members", Json.arr members.toArray),
        ("probs", distToJson probs), ("spec", distToJson spec), ("probs_is_spec", toJson (sameDist probs spec)),
        ("totalW", ratToJson (ms.map (·.w)).sum)]
    | "keys" =>
      -- a sequence of operations on the dict of a mixture; a key is [component id, scaling id], `norm` = scaling 0
      let ops ← (← arrOf j "ops").toList.mapM fun oj => do
        let kind ← strOf oj "k"
        let key : Nat × Nat := (← natOf oj "c", ← natOf oj "s")
        match kind with
        | "set" => pure (KeyOp.set key (← ratOfJson (← oj.getObjVal? "w")))
        | "iadd" => pure (KeyOp.iadd key (← ratOfJson (← oj.getObjVal? "w")))
        | "read" => pure (KeyOp.read key)
        | _ => throw "bad key op"
      let norm : Nat × Nat → Nat × Nat := fun k => (k.1, 0)
      let comps := (ops.map fun o => match o with
        | .set k _ => k.1 | .iadd k _ => k.1 | .read k => k.1).dedup
      let out := fun (fixed : Bool) =>
        let d := svdRun fixed norm ops
        Json.arr (comps.map fun c => Json.arr #[toJson c, ratToJson (wget d (c, 0))]).toArray
      return Json.mkObj [("fixed", out true), ("current", out false),
        ("intended", Json.arr (comps.map fun c => Json.arr #[toJson c, ratToJson (intended norm (c, 0) 0 ops)]).toArray),
        ("len", toJson (svdRun true norm ops).length)]
    | "dm" =>
      let ⟨m, U⟩ ← matOfJson j
      let ms ← membersOf m (← j.getObjVal? "members")
      let nmax ← natOf j "nmax"
      if (← anyTagged (← j.getObjVal? "members")) then throw "annotations are not supported in DensityMatrix"
      if ms.any (fun mb => mb.terms.any (·.groups.length ≠ 1)) then throw "tagged density matrix"
      -- ρ'(s,s') = ∑ wᵢ c'ᵢ(s) conj c'ᵢ(s') / ‖ψᵢ‖²
      let ρ : DM := ms.flatMap fun mb =>
        mb.terms.flatMap fun a => mb.terms.map fun b =>
          ((a.groups.headD [], b.groups.headD []),
            GQ.ofRat (mb.w / svNorm2 mb.terms) * a.coef * star b.coef)
      let basis := fockBasis m nmax
      let diag := basis.map fun t => Json.arr #[toJson t, gqToJson (dmOut U ρ t t), toJson (prodFact t)]
      -- the same state as a mixture: amplitudes of every member on the basis
      let amps := ms.map fun mb => Json.mkObj [("w", ratToJson mb.w), ("norm2", ratToJson (svNorm2 mb.terms)),
        ("amps", Json.arr (basis.map fun t =>
          gqToJson ((mb.terms.map fun a => a.coef * pamp U (a.groups.headD []) t).sum)).toArray)]
      let svdDiag := basis.map fun t =>
        ((ms.map fun mb => mb.w / svNorm2 mb.terms *
          GQ.normSq ((mb.terms.map fun a => a.coef * pamp U (a.groups.headD []) t).sum)).sum : ℚ)
      let dmDiagOk := (basis.zip svdDiag).all fun p =>
        (dmOut U ρ p.1 p.1).re == p.2 && (dmOut U ρ p.1 p.1).im == 0
      return Json.mkObj [("basis", toJson basis), ("diag", Json.arr diag.toArray),
        ("probs", distToJson (probsDM U ρ nmax)),
        ("svd", distToJson (normalize (probsSVD U (ms.map fun mb => (mb.w, mb.terms))))),
        ("members", Json.arr amps.toArray), ("dm_eq_svd", toJson dmDiagOk)]
    | _ => handleSim j

def handle (j : Json) : Json :=
  match handleE j with
  | .ok r => r
  | .error e => errJson e

def main : IO Unit := run handle
