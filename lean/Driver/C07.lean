import PercevalModel.Proto
import PercevalModel.Model.C07

open Lean PM PM.Proto PM.Fock PM.C07

def matOfRows (k : ℕ) (rows : Array (Array GQ)) : Matrix (Fin k) (Fin k) GQ :=
  fun i j => (rows.getD i.val #[]).getD j.val 0

def statesJson (l : List (List ℕ)) : Json := Json.arr (l.map (fun s => toJson s)).toArray

def distJson (d : Dist.D) : Json :=
  Json.arr (d.map fun p => Json.arr #[toJson p.1, ratToJson p.2]).toArray

def distOfJson (j : Json) : Except String Dist.D := do
  (← j.getArr?).toList.mapM fun e => do
    match e with
    | .arr #[s, w] => return (← natList s, ← ratOfJson w)
    | _ => throw "bad distribution entry"

def compOfJson (j : Json) : Except String (ℕ × Comp GQ) := do
  let r ← natOf j "r"
  if let .ok lc := j.getObjVal? "lc" then
    let loss ← ratOfJson (← j.getObjVal? "loss")
    match lc with
    | .arr #[c, s] =>
      let c ← ratOfJson c
      let s ← ratOfJson s
      -- `LC.__init__`: `_set_parameter("loss", loss, 0, 1, False)` rejects values outside [0, 1]
      if loss < 0 ∨ 1 < loss then throw "ValueError"
      if c * c ≠ 1 - loss ∨ s * s ≠ loss ∨ c < 0 ∨ s < 0 then throw "bad lc amplitudes"
      return (r, .lc ⟨c, 0⟩ ⟨s, 0⟩)
    | _ => throw "bad lc"
  else
    let k ← natOf j "k"
    let rows ← gqRows (← j.getObjVal? "U")
    if rows.size ≠ k ∨ rows.any (·.size ≠ k) ∨ k = 0 then throw "bad matrix"
    return (r, .uni k (matOfRows k rows))

def matVRows {n : ℕ} (v : MatV GQ n n) : Array (Array GQ) :=
  v.toArray.map fun (r : Vector GQ n) => r.toArray

def matVJson {n : ℕ} (v : MatV GQ n n) : Json := rowsToJson (matVRows v)

def handle (j : Json) : Json :=
  match (do
    let op ← strOf j "op"
    match op with
    | "probs" =>
      let comps ← (← arrOf j "comps").toList.mapM compOfJson
      let mOpt : Option ℕ := match j.getObjVal? "m" with
        | .ok (.num n) => if n.exponent = 0 ∧ 0 ≤ n.mantissa then some n.mantissa.toNat else none
        | _ => none
      if comps.isEmpty then throw "empty"
      let M := origM mOpt comps
      -- `_prepare_circuit`: assert m >= _retrieve_mode_count(circuit); `Processor.add` range check
      if M < retrieveModeCount comps then throw "AssertionError"
      let N := expandedM M comps
      let inputs ← (← arrOf j "inputs").toList.mapM natList
      if inputs.any (·.length ≠ M) then throw "input size"
      let vCode := prodV N (rewrite M comps)
      let vSpec := prodV N (spec M comps)
      let same := decide (matVRows vCode = matVRows vSpec)
      let U := vCode.toMatrix
      let dists := inputs.map fun s => distJson (marginal (lossProbs U M s))
      let full := inputs.map fun s => ratToJson (Dist.mass (fullDist U (prepareInput M N s)))
      let wantU := (j.getObjVal? "wantU").isOk
      return Json.mkObj ([("M", toJson M), ("N", toJson N), ("same", toJson same),
        ("nblk", toJson (rewrite M comps).length),
        ("dists", Json.arr dists.toArray), ("mass", Json.arr full.toArray)] ++
        (if wantU then [("U", matVJson vCode), ("Uspec", matVJson vSpec)] else []))
    | "dmloss" =>
      let mode ← natOf j "mode"
      let p ← ratOfJson (← j.getObjVal? "p")
      let d ← distOfJson (← j.getObjVal? "diag")
      if d.any (fun q => q.1.length ≤ mode) then throw "IndexError"
      return Json.mkObj [("diag", distJson (marginal (dmLossDiag mode p d)))]
    | "layers" =>
      let k : Kinds := ⟨← boolOf j "lc", ← boolOf j "td", ← boolOf j "polar", ← boolOf j "ff"⟩
      return Json.mkObj [("layers", toJson (layers k))]
    | "thin" =>
      -- probabilities of (k, n-k) for the bare two-mode block, by permanents and by the closed form
      let n ← natOf j "n"
      let c ← ratOfJson (← j.getObjVal? "c")
      let s ← ratOfJson (← j.getObjVal? "s")
      let U : Matrix (Fin 2) (Fin 2) GQ := bsH ⟨c, 0⟩ ⟨s, 0⟩
      let byPerm := (List.range (n + 1)).map fun k => ratToJson (prob U [n, 0] [k, n - k])
      let closed := (List.range (n + 1)).map fun k =>
        ratToJson ((n.choose k : ℚ) * (c * c) ^ k * (s * s) ^ (n - k))
      return Json.mkObj [("perm", Json.arr byPerm.toArray), ("closed", Json.arr closed.toArray)]
    | _ => throw "unknown op") with
  | .ok r => r
  | .error e => errJson e

def main : IO Unit := run handle
