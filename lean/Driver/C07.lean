import PercevalModel.Proto
import PercevalModel.Model.C07
import PercevalModel.Model.C07SV
import PercevalModel.Model.C07Sel
import PercevalModel.Model.C07Det
import PercevalModel.Model.C07Mix
import PercevalModel.SimProto

open Lean PM PM.Proto PM.Fock PM.C07

def matOfRows (k : ℕ) (rows : Array (Array GQ)) : Matrix (Fin k) (Fin k) GQ :=
  fun i j => (rows.getD i.val #[]).getD j.val 0

def statesJson (l : List (List ℕ)) : Json := Json.arr (l.map (fun s => toJson s)).toArray

def distJson (d : Dist.D) : Json :=
  Json.arr (d.map fun p => Json.arr #[toJson p.1, ratToJson p.2]).toArray

def distOfJson (j : Json) : Except String Dist.D := do
  (← j.getArr?).toList.mapM fun e => do
    match e with
    | .arr #[s, w] => return (← natList s, ← ratOfJson w)
    | _ => throw "bad distribution entry"

def compOfJson (j : Json) : Except String (ℕ × Comp GQ) := do
  let r ← natOf j "r"
  if let .ok lc := j.getObjVal? "lc" then
    let loss ← ratOfJson (← j.getObjVal? "loss")
    match lc with
    | .arr #[c, s] =>
      let c ← ratOfJson c
      let s ← ratOfJson s
      -- `LC.__init__`: `_set_parameter("loss", loss, 0, 1, False)` rejects values outside [0, 1]
      if loss < 0 ∨ 1 < loss then throw "ValueError"
      if c * c ≠ 1 - loss ∨ s * s ≠ loss ∨ c < 0 ∨ s < 0 then throw "bad lc amplitudes"
      return (r, .lc ⟨c, 0⟩ ⟨s, 0⟩)
    | _ => throw "bad lc"
  else
    let k ← natOf j "k"
    let rows ← gqRows (← j.getObjVal? "U")
    if rows.size ≠ k ∨ rows.any (·.size ≠ k) ∨ k = 0 then throw "bad matrix"
    return (r, .uni k (matOfRows k rows))

def matVRows {n : ℕ} (v : MatV GQ n n) : Array (Array GQ) :=
  v.toArray.map fun (r : Vector GQ n) => r.toArray

def matVJson {n : ℕ} (v : MatV GQ n n) : Json := rowsToJson (matVRows v)


/-! ### formal amplitudes `a · √q` on the wire: `[key, [re, im], q]` -/

def svecJson (v : SVec) : Json :=
  Json.arr ((v.filter fun e => e.2.1 != 0 && e.2.2 != 0).map fun e =>
    Json.arr #[toJson e.1, gqToJson e.2.1, ratToJson e.2.2]).toArray

def svecOfJson (j : Json) : Except String SVec := do
  (← j.getArr?).toList.mapM fun e => do
    match e with
    | .arr #[s, a, q] =>
      let q ← ratOfJson q
      if q < 0 then throw "negative radicand"
      return (← natList s, ← gqOfJson a, q)
    | _ => throw "bad state-vector entry"

def dmatJson (v : DMat) : Json :=
  Json.arr ((v.filter fun e => e.2.1 != 0 && e.2.2 != 0).map fun e =>
    Json.arr #[Json.arr #[toJson e.1.1, toJson e.1.2], gqToJson e.2.1, ratToJson e.2.2]).toArray

def dmatOfJson (j : Json) : Except String DMat := do
  (← j.getArr?).toList.mapM fun e => do
    match e with
    | .arr #[.arr #[t, u], a, q] =>
      let q ← ratOfJson q
      if q < 0 then throw "negative radicand"
      return ((← natList t, ← natList u), ← gqOfJson a, q)
    | _ => throw "bad density-matrix entry"


def superOfJson (sv : Json) : Except String (List (List ℕ × GQ)) := do
  (← sv.getArr?).toList.mapM fun (e : Json) => do
    match e with
    | .arr #[s, a] => return (← natList s, ← gqOfJson a)
    | _ => throw "bad superposition entry"

def srcOfJson (j : Json) : Except String (List (ℚ × List ℕ)) := do
  (← j.getArr?).toList.mapM fun (e : Json) => do
    match e with
    | .arr #[w, s] => return (← ratOfJson w, ← natList s)
    | _ => throw "bad source entry"

def csOfJson (j : Json) : Except String (Option (ℚ × ℚ)) := do
  match j.getObjVal? "cs" with
  | .ok (Json.arr #[c, s]) => return some (← ratOfJson c, ← ratOfJson s)
  | .ok _ => throw "bad cs"
  | .error _ => return none

/-- the selection held by the outermost simulator: `{"heralds":[[mode,val],…],"ps":<expr>,"minDet":k,"keep":bool}` -/
def selOfJson (j : Json) (M : ℕ) : Except String Sel := do
  let hs ← (← arrOf j "heralds").toList.mapM fun h => do
    match (← natList h) with
    | [a, b] => pure (a, b)
    | _ => throw "bad herald"
  if hs.any (fun h => M ≤ h.1) then throw "IndexError"
  if (hs.map (·.1)).eraseDups.length ≠ hs.length then throw "duplicate herald mode"
  return { heralds := hs, ps := ← PM.SimProto.psOfJson (← j.getObjVal? "ps"),
           minDet := ← natOf j "minDet", keep := ← boolOf j "keep" }

/-- one detector: `"none"`, `"pnr"`, `"thr"` or `{"rows": [[[count, "p"], …], …]}` (row n = `detect(n)`) -/
def detOfJson (need : ℕ) (j : Json) : Except String DetK := do
  match j with
  | .str "none" => return .none
  | .str "pnr" => return .pnr
  | .str "thr" => return .thr
  | _ =>
    let rows ← (← arrOf j "rows").toList.mapM fun r => do
      (← r.getArr?).toList.mapM fun e => do
        match e with
        | .arr #[c, w] =>
          return (← c.getNat?, ← ratOfJson w)
        | _ => throw "bad detector row"
    if rows.length ≤ need then throw "detector row missing"
    return .ppnr rows

def dtypeJson : DType → Json
  | .pnr => "PNR" | .thr => "Threshold" | .ppnr => "PPNR" | .mixed => "Mixed"

def nzDistJson (d : Dist.D) : Json := distJson (d.filter fun p => p.2 != 0)

/-- the program part shared by `probs`, `evolve`, `probsmix`: components, mode count, admissibility -/
def programOfJson (j : Json) : Except String (Items GQ × ℕ × ℕ) := do
  let comps ← (← arrOf j "comps").toList.mapM compOfJson
  let mOpt : Option ℕ := match j.getObjVal? "m" with
    | .ok (.num n) => if n.exponent = 0 ∧ 0 ≤ n.mantissa then some n.mantissa.toNat else none
    | _ => none
  if comps.isEmpty then throw "empty"
  let M := origM mOpt comps
  if M < retrieveModeCount comps then throw "AssertionError"
  return (comps, M, expandedM M comps)

def handle (j : Json) : Json :=
  match (do
    let op ← strOf j "op"
    match op with
    | "probs" =>
      let comps ← (← arrOf j "comps").toList.mapM compOfJson
      let mOpt : Option ℕ := match j.getObjVal? "m" with
        | .ok (.num n) => if n.exponent = 0 ∧ 0 ≤ n.mantissa then some n.mantissa.toNat else none
        | _ => none
      if comps.isEmpty then throw "empty"
      let M := origM mOpt comps
      -- `_prepare_circuit`: assert m >= _retrieve_mode_count(circuit); `Processor.add` range check
      if M < retrieveModeCount comps then throw "AssertionError"
      let N := expandedM M comps
      let inputs ← (← arrOf j "inputs").toList.mapM natList
      if inputs.any (·.length ≠ M) then throw "input size"
      let vCode := prodV N (rewrite M comps)
      let vSpec := prodV N (spec M comps)
      let same := decide (matVRows vCode = matVRows vSpec)
      let U := vCode.toMatrix
      let dists := inputs.map fun s => distJson (marginal (lossProbs U M s))
      let full := inputs.map fun s => ratToJson (Dist.mass (fullDist U (prepareInput M N s)))
      let wantU := (j.getObjVal? "wantU").isOk
      return Json.mkObj ([("M", toJson M), ("N", toJson N), ("same", toJson same),
        ("nblk", toJson (rewrite M comps).length),
        ("dists", Json.arr dists.toArray), ("mass", Json.arr full.toArray)] ++
        (if wantU then [("U", matVJson vCode), ("Uspec", matVJson vSpec)] else []))
    | "dmloss" =>
      let mode ← natOf j "mode"
      let p ← ratOfJson (← j.getObjVal? "p")
      let d ← distOfJson (← j.getObjVal? "diag")
      if d.any (fun q => q.1.length ≤ mode) then throw "IndexError"
      return Json.mkObj [("diag", distJson (marginal (dmLossDiag mode p d)))]
    | "evolve" =>
      -- `LossSimulator.evolve`: contributions on the truncated states, before the container's normalisation
      let (comps, M, N) ← programOfJson j
      let U := (prodV N (rewrite M comps)).toMatrix
      let inputs : List (List (List ℕ × GQ)) ← (← arrOf j "inputs").toList.mapM superOfJson
      if inputs.any (fun sv => sv.isEmpty || sv.any (·.1.length ≠ M)) then throw "input size"
      return Json.mkObj [("M", toJson M), ("N", toJson N),
        ("svs", Json.arr (inputs.map fun sv => svecJson (lossEvolve U M sv)).toArray),
        -- the distribution path on the same Fock components (for `evolve_incoherent_eq_probs` on the wire)
        ("sq", Json.arr (inputs.map fun (sv : List (List ℕ × GQ)) =>
          Json.arr (sv.map fun (p : List ℕ × GQ) => toJson (decide (sqDist (lossEvolve U M [(p.1, 1)]) = lossProbs U M p.1))).toArray).toArray)]
    | "lcapply" =>
      let r ← natOf j "r"
      let p ← ratOfJson (← j.getObjVal? "p")
      let v ← svecOfJson (← j.getObjVal? "sv")
      if p < 0 ∨ 1 < p then throw "ValueError"
      match v with
      | [] => throw "empty"
      | e :: _ =>
        if v.any (·.1.length ≠ e.1.length) then throw "input size"
        if e.1.length ≤ r then throw "IndexError"
        let out := lcApply r p v
        return Json.mkObj [("sv", svecJson out),
          ("marg", toJson (decide (sqDist (postprocessSV e.1.length out) = dmLossDiag r p (sqDist v))))]
    | "dmfull" =>
      let mode ← natOf j "mode"
      let p ← ratOfJson (← j.getObjVal? "p")
      let ρ ← dmatOfJson (← j.getObjVal? "rho")
      if ρ.any (fun e => e.1.1.length ≤ mode || e.1.2.length ≤ mode) then throw "IndexError"
      let base := [("rho", dmatJson (krausApply mode p ρ))]
      match ← csOfJson j with
      | some (c, s) =>
        if c < 0 ∨ s < 0 ∨ c * c ≠ 1 - p ∨ s * s ≠ p then throw "bad amplitudes"
        return Json.mkObj (base ++ [("dil", dmatJson (dilateTrace mode c s ρ))])
      | none => return Json.mkObj base
    | "probsmix" =>
      let (comps, M, N) ← programOfJson j
      let U := (prodV N (rewrite M comps)).toMatrix
      let src ← srcOfJson (← j.getObjVal? "src")
      if src.any (·.2.length ≠ M) then throw "input size"
      return Json.mkObj [("M", toJson M), ("N", toJson N),
        ("dist", distJson (marginal (lossProbsMix U M src))),
        ("weights", ratToJson (src.map fun (q : ℚ × List ℕ) => q.1).sum)]
    | "source" =>
      let e ← ratOfJson (← j.getObjVal? "e")
      let s ← natList (← j.getObjVal? "s")
      return Json.mkObj [("src", Json.arr ((sourceDist e s).map fun (q : ℚ × List ℕ) =>
        Json.arr #[ratToJson q.1, toJson q.2]).toArray)]
    | "thinspect" =>
      -- a channel block on (a, b) inside N modes holding the Fock state S: by permanents and by the closed form
      let N ← natOf j "N"
      let a ← natOf j "a"
      let b ← natOf j "b"
      let c ← ratOfJson (← j.getObjVal? "c")
      let s ← ratOfJson (← j.getObjVal? "s")
      let S ← natList (← j.getObjVal? "S")
      if ¬ (a < N ∧ b < N ∧ a ≠ b) ∨ S.length ≠ N ∨ S.getD b 0 ≠ 0 then throw "bad block"
      if c * c + s * s ≠ 1 then throw "bad amplitudes"
      let U : Matrix (Fin N) (Fin N) GQ := twoMode N a b (bsH ⟨c, 0⟩ ⟨s, 0⟩)
      let ts := allStates N S.sum
      return Json.mkObj [("perm", nzDistJson (ts.map fun T => (T, prob U S T))),
        ("closed", nzDistJson (ts.map fun T => (T, thinSpect (c * c) (s * s) a b S T)))]
    | "probssel" =>
      -- the loss layer with heralds / post-selection / photon filter / keep_heralds (`_postprocess_bsd`)
      let (comps, M, N) ← programOfJson j
      let U := (prodV N (rewrite M comps)).toMatrix
      let inputs ← (← arrOf j "inputs").toList.mapM natList
      if inputs.any (·.length ≠ M) then throw "input size"
      let σ ← selOfJson (← j.getObjVal? "sel") M
      let runs := inputs.map fun s =>
        let full := lossProbs U M s
        let svd := lossSvdSel σ U M s
        let phys := SimSpec.physPerf σ.cond full
        let ret := Dist.mass (SimSpec.retained σ.cond full)
        Json.mkObj [("probs", distJson (marginal (lossProbsSel σ U M s))),
          ("results", distJson (marginal svd.1)), ("logical", ratToJson svd.2.1), ("physical", ratToJson svd.2.2),
          -- the specification (one conditioning of the marginal distribution) next to the code-shaped model
          ("spec", distJson (marginal (SimSpec.conditioned σ.cond full))),
          ("specPhysical", ratToJson phys), ("specLogical", ratToJson (SimSpec.logicalPerf σ.cond full)),
          ("retained", ratToJson ret),
          ("mass", ratToJson (Dist.mass (fullDist U (prepareInput M N s))))]
      return Json.mkObj [("M", toJson M), ("N", toJson N), ("filter", toJson σ.filter),
        ("runs", Json.arr runs.toArray)]
    | "probsdet" =>
      -- detectors below the loss layer: `_prepare_detectors_impl`, `simulate_detectors`, then `_postprocess_bsd`
      let (comps, M, N) ← programOfJson j
      let U := (prodV N (rewrite M comps)).toMatrix
      let inputs ← (← arrOf j "inputs").toList.mapM natList
      if inputs.any (·.length ≠ M) then throw "input size"
      let σ ← selOfJson (← j.getObjVal? "sel") M
      let need := (inputs.map List.sum).foldl max 0
      let ds ← (← arrOf j "dets").toList.mapM (detOfJson need)
      if ds.length ≠ M then throw "AssertionError"
      let runs := inputs.map fun s =>
        let svd := lossDetSvd σ ds U M s
        let dm := detectMarginal ds U M s
        let enl := detectAll ((padDetectors M N ds).map DetK.kern) (fullDist U (prepareInput M N s))
        Json.mkObj [("results", distJson (marginal svd.1)), ("logical", ratToJson svd.2.1),
          ("physical", ratToJson svd.2.2),
          -- the specification: detectors on the marginal distribution, then one conditioning
          ("spec", distJson (marginal (SimSpec.conditioned σ.cond dm))),
          ("specPhysical", ratToJson (SimSpec.physPerf σ.cond dm)),
          ("specLogical", ratToJson (SimSpec.logicalPerf σ.cond dm)),
          ("retained", ratToJson (Dist.mass (SimSpec.retained σ.cond dm))),
          -- `detectors_see_only_original_modes` on the wire
          ("commute", toJson (decide (marginal (postprocess M enl) = marginal dm))),
          ("detMass", ratToJson (Dist.mass enl)),
          ("mass", ratToJson (Dist.mass (fullDist U (prepareInput M N s))))]
      return Json.mkObj [("M", toJson M), ("N", toJson N), ("filter", toJson σ.filter),
        ("dtype", dtypeJson (detType (padDetectors M N ds))), ("runs", Json.arr runs.toArray)]
    | "mixsel" =>
      -- a source distribution of Fock inputs together with heralds / post-selection / filter on the loss layer
      let (comps, M, N) ← programOfJson j
      let U := (prodV N (rewrite M comps)).toMatrix
      let src ← srcOfJson (← j.getObjVal? "src")
      if src.any (·.2.length ≠ M) then throw "input size"
      if src.any (·.1 < 0) then throw "negative weight"
      let σ ← selOfJson (← j.getObjVal? "sel") M
      let r := lossMixSvdSel σ U M src
      let full := lossProbsMix U M src
      return Json.mkObj [("M", toJson M), ("N", toJson N),
        ("results", distJson (marginal r.1)), ("logical", ratToJson r.2.1), ("physical", ratToJson r.2.2),
        ("spec", distJson (marginal (SimSpec.conditioned σ.cond full))),
        ("specPhysical", ratToJson (SimSpec.physPerf σ.cond full)),
        ("specLogical", ratToJson (SimSpec.logicalPerf σ.cond full)),
        ("retained", ratToJson (Dist.mass (SimSpec.retained σ.cond full))),
        ("weights", ratToJson (src.map fun (q : ℚ × List ℕ) => q.1).sum),
        ("mass", ratToJson (Dist.mass (enlargedMix U M src)))]
    | "layers" =>
      let k : Kinds := ⟨← boolOf j "lc", ← boolOf j "td", ← boolOf j "polar", ← boolOf j "ff"⟩
      return Json.mkObj [("layers", toJson (layers k))]
    | "thin" =>
      -- probabilities of (k, n-k) for the bare two-mode block, by permanents and by the closed form
      let n ← natOf j "n"
      let c ← ratOfJson (← j.getObjVal? "c")
      let s ← ratOfJson (← j.getObjVal? "s")
      let U : Matrix (Fin 2) (Fin 2) GQ := bsH ⟨c, 0⟩ ⟨s, 0⟩
      let byPerm := (List.range (n + 1)).map fun k => ratToJson (prob U [n, 0] [k, n - k])
      let closed := (List.range (n + 1)).map fun k =>
        ratToJson ((n.choose k : ℚ) * (c * c) ^ k * (s * s) ^ (n - k))
      return Json.mkObj [("perm", Json.arr byPerm.toArray), ("closed", Json.arr closed.toArray)]
    | _ => throw "unknown op") with
  | .ok r => r
  | .error e => errJson e

def main : IO Unit := run handle
