import PercevalModel.Proto
import PercevalModel.Model.C01
import PercevalModel.Model.C01Reg
import PercevalModel.Model.C01Range

open Lean PM PM.Proto PM.C01

def matOfRows (k : ℕ) (rows : Array (Array GQ)) : Matrix (Fin k) (Fin k) GQ :=
  fun i j => (rows.getD i.val #[]).getD j.val 0

/-- interpret a construction program with the model's `add` -/
partial def evalExpr (j : Json) : Except String (Comp GQ) := do
  if let .ok k := natOf j "leaf" then
    let rows ← gqRows (← j.getObjVal? "U")
    if rows.size ≠ k ∨ rows.any (·.size ≠ k) then throw "bad leaf matrix"
    return .leaf k (matOfRows k rows)
  else if let .ok e := j.getObjVal? "copy" then
    evalExpr e
  else
    let m ← natOf j "circ"
    if m = 0 then throw "AssertionError"
    let ops ← arrOf j "ops"
    let mut items : Items GQ := .nil
    for op in ops do
      if let .ok _ := op.getObjVal? "barrier" then
        items := addItem items 0 (barrierItem m) false
      else
        let off ← natOf op "add"
        let c ← evalExpr (← op.getObjVal? "c")
        let merge ← boolOf op "merge"
        if !addOk m off c then throw "AssertionError"
        items := addItem items off c merge
    return .circ m items

/-! ### histories over a pool of circuit objects (`World ℕ GQ`: environments are numbered) -/

/-- a leaf whose matrix is given per environment -/
def matOfTables (k : ℕ) (tabs : Array (Array (Array GQ))) : Matrix (Fin k) (Fin k) (ℕ → GQ) :=
  fun i j e => ((tabs.getD e #[]).getD i.val #[]).getD j.val 0

def checkRows (k : ℕ) (rows : Array (Array GQ)) : Except String Unit :=
  if rows.size ≠ k ∨ rows.any (·.size ≠ k) then throw "bad leaf matrix" else pure ()

def evalOut {E : Type} (w : World E GQ) (i : ℕ) : Json :=
  let u := observeV w i
  let rows := u.toArray.map (·.toArray)
  let flat := (flatten (snapshot w.heap i)).map fun p => Json.arr #[toJson p.1, toJson p.2.1]
  Json.mkObj [("m", toJson (w.heap.msize i)), ("U", rowsToJson rows), ("flat", Json.arr flat.toArray)]

/-- one request operation; replies `"ok"`, `"rej"` (the model's `Op.ok` is false: the real API asserts)
or the observation of an `eval` -/
def histStep (nenv : ℕ) (w : World ℕ GQ) (op : Json) : Except String (World ℕ GQ × Json) := do
  let structOp (o : Op (ℕ → GQ)) : Except String (World ℕ GQ × Json) :=
    if o.ok w.heap then pure (wstep w (.struct o), Json.str "ok") else pure (w, Json.str "rej")
  let ranked (i j : ℕ) : Except String Unit :=
    if i < w.heap.size ∧ j < w.heap.size ∧ ¬ (w.heap.rank j < w.heap.rank i) then
      throw "rank discipline violated (harness error)" else pure ()
  if let .ok m := natOf op "new" then
    structOp (.new m (← natOf op "rank"))
  else if let .ok i := natOf op "leaf" then
    let off ← natOf op "off"
    let k ← natOf op "k"
    if let .ok u := op.getObjVal? "U" then
      let rows ← gqRows u
      checkRows k rows
      structOp (.leaf i off k (fun a b _ => (rows.getD a.val #[]).getD b.val 0))
    else
      let tabs ← (← arrOf op "Us").mapM gqRows
      if tabs.size ≠ nenv then throw "one matrix per environment expected"
      for t in tabs do checkRows k t
      structOp (.leaf i off k (matOfTables k tabs))
  else if let .ok i := natOf op "nest" then
    let j ← natOf op "j"
    ranked i j
    structOp (.nest i j (← natOf op "off"))
  else if let .ok i := natOf op "merge" then
    let j ← natOf op "j"
    ranked i j
    structOp (.merge i j (← natOf op "off"))
  else if let .ok i := natOf op "barrier" then
    structOp (.barrier i)
  else if let .ok i := natOf op "copy" then
    if i < w.heap.size then pure (wstep w (.copy i), Json.str "ok") else throw "copy of an unknown entry"
  else if let .ok e := natOf op "set" then
    if e < nenv then pure (wstep w (.set fun _ => e), Json.str "ok") else throw "unknown environment"
  else if let .ok i := natOf op "eval" then
    if i < w.heap.size then pure (w, evalOut w i) else throw "eval of an unknown entry"
  else throw "unknown operation"

def handleHist (j : Json) : Except String Json := do
  let ops ← arrOf j "hist"
  let nenv ← natOf j "envs"
  if nenv = 0 then throw "no environment"
  let mut w : World ℕ GQ := ⟨Heap.empty, 0⟩
  let mut outs : Array Json := #[]
  for op in ops do
    let (w', o) ← histStep nenv w op
    w := w'
    outs := outs.push o
  return Json.mkObj [("out", Json.arr outs)]

/-! ### histories of the registry machine (`RState ℕ GQ`: parameter values are numbered) -/

def varsToJson (vs : List Var) : Json :=
  Json.arr (vs.map fun v => Json.arr #[toJson v.pid, toJson v.name]).toArray

def optNat (j : Json) : Except String (Option ℕ) :=
  if j.isNull then pure none else do pure (some (← j.getNat?))

def pairList (j : Json) : Except String (List (ℕ × ℕ)) := do
  let arr ← j.getArr?
  arr.toList.mapM fun p => do
    let a ← p.getArr?
    if a.size ≠ 2 then throw "pair expected"
    pure ((← a[0]!.getNat?), (← a[1]!.getNat?))

def outcomeStr : Outcome → String
  | .ok => "ok"
  | .assertion => "assertion"
  | .runtime => "runtime"
  | .key => "key"

/-- the matrix of a leaf as a function of the store: a table indexed by the values of its slots -/
def tableLeaf (k : ℕ) (slots : List Var) (tab : List (List (Option ℕ) × Array (Array GQ))) :
    Matrix (Fin k) (Fin k) (PEnv ℕ → GQ) :=
  fun a b e =>
    match tab.find? (fun t => t.1 == slots.map fun v => e v.pid) with
    | some t => (t.2.getD a.val #[]).getD b.val 0
    | none => 0

def rlook (s : RState ℕ GQ) (i : ℕ) : List (String × Json) :=
  [("reg", varsToJson (s.reg i)), ("occ", varsToJson (s.occ i)), ("defined", toJson (s.definedReg i)),
   ("env", Json.arr ((List.range s.next).map fun p =>
      match s.w.env p with
      | some x => toJson x
      | none => Json.null).toArray)]

def rhistStep (names : Array ℕ) (s : RState ℕ GQ) (op : Json) : Except String (RState ℕ GQ × Json) := do
  let var (p : ℕ) : Except String Var :=
    if p < names.size then pure ⟨p, names[p]!⟩ else throw "unknown parameter"
  let fin (r : RState ℕ GQ × Outcome) (i : ℕ) : Except String (RState ℕ GQ × Json) :=
    pure (r.1, Json.mkObj ([("st", Json.str (outcomeStr r.2))] ++ rlook r.1 i))
  let ranked (i j : ℕ) : Except String Unit :=
    if i < s.size ∧ j < s.size ∧ ¬ (s.w.heap.rank j < s.w.heap.rank i) then
      throw "rank discipline violated (harness error)" else pure ()
  if let .ok m := natOf op "new" then
    fin (rstep s (.new m (← natOf op "rank"))) s.size
  else if let .ok i := natOf op "leaf" then
    let off ← natOf op "off"
    let k ← natOf op "k"
    let slots ← (← natList (← op.getObjVal? "slots")).mapM var
    let tabJ ← arrOf op "tab"
    let tab ← tabJ.toList.mapM fun t => do
      let key ← (← arrOf t "at").toList.mapM optNat
      let rows ← gqRows (← t.getObjVal? "U")
      checkRows k rows
      if key.length ≠ slots.length then throw "table key length"
      pure (key, rows)
    fin (rstep s (.leaf i off k slots (tableLeaf k slots tab))) i
  else if let .ok i := natOf op "nest" then
    let j ← natOf op "j"
    ranked i j
    fin (rstep s (.nest i j (← natOf op "off"))) i
  else if let .ok i := natOf op "merge" then
    let j ← natOf op "j"
    ranked i j
    fin (rstep s (.merge i j (← natOf op "off"))) i
  else if let .ok i := natOf op "barrier" then
    fin (rstep s (.barrier i)) i
  else if let .ok i := natOf op "copy" then
    let subs ← pairList (← op.getObjVal? "subs")
    let σ : ℕ → Option ℕ := fun n => (subs.find? (fun p => p.1 == n)).map (·.2)
    if i < s.size then
      let r := rstep s (.copy i σ)
      fin r (if r.2 = .ok then s.size else i)
    else throw "copy of an unknown entry"
  else if let .ok p := natOf op "setv" then
    let x ← optNat (← op.getObjVal? "x")
    pure ((rstep s (.setv p x)).1, Json.mkObj [("st", Json.str "ok")])
  else if let .ok i := natOf op "assign" then
    let a ← pairList (← op.getObjVal? "a")
    if i < s.size then fin (rstep s (.assign i a)) i else throw "assign on an unknown entry"
  else if let .ok i := natOf op "eval" then
    if i < s.size then
      if s.evalOk i then
        let o := evalOut s.w i
        pure (s, Json.mkObj ([("st", Json.str "ok"), ("out", o)] ++ rlook s i))
      else pure (s, Json.mkObj ([("st", Json.str "assertion")] ++ rlook s i))
    else throw "eval of an unknown entry"
  else throw "unknown operation"

def handleRHist (j : Json) : Except String Json := do
  let ops ← arrOf j "rhist"
  let names := (← natList (← j.getObjVal? "names")).toArray
  let init ← (← arrOf j "init").toList.mapM optNat
  let env : PEnv ℕ := fun p => (init.getD p none)
  let mut s : RState ℕ GQ := RState.empty env names.size
  let mut outs : Array Json := #[]
  for op in ops do
    let (s', o) ← rhistStep names s op
    s := s'
    outs := outs.push o
  return Json.mkObj [("out", Json.arr outs)]

/-! ### extension 8: `port_range` argument checks, range shifts, literal block assignment -/

def portArgOf (j : Json) (k : ℕ) : Except String PortArg := do
  if let .ok p := intOf j "int" then return .int p
  else if let .ok p := intOf j "fd" then return floordivArg p k
  else return .seq (← intList (← j.getObjVal? "seq"))

def addOutStr : AddOut → String
  | .ok => "ok"
  | .assertion => "assertion"
  | .valueError => "valueError"

def handleRange (j : Json) : Except String Json := do
  let m ← natOf j "m"
  let k ← natOf j "k"
  let a ← portArgOf (← j.getObjVal? "arg") k
  let out := checkRange m k a
  let norm := a.norm k
  -- the range the item is stored under when merged into an outer circuit at range `outer`
  let shifted ← match j.getObjVal? "outer" with
    | .ok o => do pure (toJson (mergeRange (← intList o) norm))
    | .error _ => pure Json.null
  return Json.mkObj [("st", Json.str (addOutStr out)), ("norm", toJson norm), ("shifted", shifted)]

def handleLit (j : Json) : Except String Json := do
  let m ← natOf j "m"
  let itemsJ ← arrOf j "items"
  let mut l : List (List ℤ × (Σ k, Matrix (Fin k) (Fin k) GQ)) := []
  let mut ok := true
  for it in itemsJ do
    let k ← natOf it "k"
    let rows ← gqRows (← it.getObjVal? "U")
    checkRows k rows
    let r ← intList (← it.getObjVal? "r")
    if checkRange m k (.seq r) ≠ .ok then ok := false
    l := l ++ [(r, ⟨k, matOfRows k rows⟩)]
  if !ok then throw "a range the real add rejects (harness error)"
  let u := litUnitaryV m l
  return Json.mkObj [("U", rowsToJson (u.toArray.map (·.toArray))),
    ("first", toJson ((firstPorts l).map (·.1)))]

def storedRanges : RItems GQ → List (List ℤ)
  | .nil => []
  | .cons r _ rest => r :: storedRanges rest

def rleafOf (j : Json) : Except String (RComp GQ) := do
  let k ← natOf j "leaf"
  let rows ← gqRows (← j.getObjVal? "U")
  checkRows k rows
  return .leaf k (matOfRows k rows)

/-- a whole port-range case run by the literal model: `radd` for every add, then `riter` and `rlitV` -/
def handleRCase (j : Json) : Except String Json := do
  let m ← natOf j "m"
  if m = 0 then throw "AssertionError"
  let mut items : RItems GQ := .nil
  let mut outs : Array Json := #[]
  for ad in (← arrOf j "adds") do
    let cj ← ad.getObjVal? "comp"
    let c ← if (cj.getObjVal? "leaf").isOk then rleafOf cj else do
      let k ← natOf cj "circ"
      if k = 0 then throw "AssertionError"
      let mut inner : RItems GQ := .nil
      for it in (← arrOf cj "inner") do
        let lf ← rleafOf it
        let r := radd k inner (.int (← intOf it "off")) lf false
        if r.1 ≠ .ok then throw "inner add rejected (harness error)"
        inner := r.2
      pure (RComp.circ k inner)
    let a ← portArgOf (← ad.getObjVal? "arg") c.size
    let r := radd m items a c (← boolOf ad "merge")
    outs := outs.push (Json.str (addOutStr r.1))
    items := r.2
  let u := rlitV (.circ m items)
  return Json.mkObj [("outs", Json.arr outs), ("stored", toJson (storedRanges items)),
    ("iter", toJson ((riter (.circ m items)).map (·.1))),
    ("U", rowsToJson (u.toArray.map (·.toArray)))]

def handle (j : Json) : Json :=
  if let .ok r := j.getObjVal? "rcase" then
    match handleRCase r with
    | .error e => errJson e
    | .ok r => r
  else
  if let .ok r := j.getObjVal? "range" then
    match handleRange r with
    | .error e => errJson e
    | .ok r => r
  else
  if let .ok r := j.getObjVal? "lit" then
    match handleLit r with
    | .error e => errJson e
    | .ok r => r
  else
  if (j.getObjVal? "rhist").isOk then
    match handleRHist j with
    | .error e => errJson e
    | .ok r => r
  else
  if (j.getObjVal? "hist").isOk then
    match handleHist j with
    | .error e => errJson e
    | .ok r => r
  else
  match evalExpr j with
  | .error e => errJson e
  | .ok c =>
    let u := unitaryV c
    let rows := u.toArray.map (·.toArray)
    let flat := (flatten c).map fun p => Json.arr #[toJson p.1, toJson p.2.1]
    Json.mkObj [("m", toJson c.size), ("U", rowsToJson rows), ("flat", Json.arr flat.toArray)]

def main : IO Unit := run handle
