import PercevalModel.Proto
import PercevalModel.Model.C01

open Lean PM PM.Proto PM.C01

def matOfRows (k : ℕ) (rows : Array (Array GQ)) : Matrix (Fin k) (Fin k) GQ :=
  fun i j => (rows.getD i.val #[]).getD j.val 0

/-- interpret a construction program with the model's `add` -/
partial def evalExpr (j : Json) : Except String (Comp GQ) := do
  if let .ok k := natOf j "leaf" then
    let rows ← gqRows (← j.getObjVal? "U")
    if rows.size ≠ k ∨ rows.any (·.size ≠ k) then throw "bad leaf matrix"
    return .leaf k (matOfRows k rows)
  else if let .ok e := j.getObjVal? "copy" then
    evalExpr e
  else
    let m ← natOf j "circ"
    if m = 0 then throw "AssertionError"
    let ops ← arrOf j "ops"
    let mut items : Items GQ := .nil
    for op in ops do
      if let .ok _ := op.getObjVal? "barrier" then
        items := addItem items 0 (barrierItem m) false
      else
        let off ← natOf op "add"
        let c ← evalExpr (← op.getObjVal? "c")
        let merge ← boolOf op "merge"
        if !addOk m off c then throw "AssertionError"
        items := addItem items off c merge
    return .circ m items

def handle (j : Json) : Json :=
  match evalExpr j with
  | .error e => errJson e
  | .ok c =>
    let u := unitaryV c
    let rows := u.toArray.map (·.toArray)
    let flat := (flatten c).map fun p => Json.arr #[toJson p.1, toJson p.2.1]
    Json.mkObj [("m", toJson c.size), ("U", rowsToJson rows), ("flat", Json.arr flat.toArray)]

def main : IO Unit := run handle
