import PercevalModel.Proto
import PercevalModel.Model.C01

open Lean PM PM.Proto PM.C01

def matOfRows (k : ℕ) (rows : Array (Array GQ)) : Matrix (Fin k) (Fin k) GQ :=
  fun i j => (rows.getD i.val #[]).getD j.val 0

/-- interpret a construction program with the model's `add` -/
partial def evalExpr (j : Json) : Except String (Comp GQ) := do
  if let .ok k := natOf j "leaf" then
    let rows ← gqRows (← j.getObjVal? "U")
    if rows.size ≠ k ∨ rows.any (·.size ≠ k) then throw "bad leaf matrix"
    return .leaf k (matOfRows k rows)
  else if let .ok e := j.getObjVal? "copy" then
    evalExpr e
  else
    let m ← natOf j "circ"
    if m = 0 then throw "AssertionError"
    let ops ← arrOf j "ops"
    let mut items : Items GQ := .nil
    for op in ops do
      if let .ok _ := op.getObjVal? "barrier" then
        items := addItem items 0 (barrierItem m) false
      else
        let off ← natOf op "add"
        let c ← evalExpr (← op.getObjVal? "c")
        let merge ← boolOf op "merge"
        if !addOk m off c then throw "AssertionError"
        items := addItem items off c merge
    return .circ m items

/-! ### histories over a pool of circuit objects (`World ℕ GQ`: environments are numbered) -/

/-- a leaf whose matrix is given per environment -/
def matOfTables (k : ℕ) (tabs : Array (Array (Array GQ))) : Matrix (Fin k) (Fin k) (ℕ → GQ) :=
  fun i j e => ((tabs.getD e #[]).getD i.val #[]).getD j.val 0

def checkRows (k : ℕ) (rows : Array (Array GQ)) : Except String Unit :=
  if rows.size ≠ k ∨ rows.any (·.size ≠ k) then throw "bad leaf matrix" else pure ()

def evalOut (w : World ℕ GQ) (i : ℕ) : Json :=
  let u := observeV w i
  let rows := u.toArray.map (·.toArray)
  let flat := (flatten (snapshot w.heap i)).map fun p => Json.arr #[toJson p.1, toJson p.2.1]
  Json.mkObj [("m", toJson (w.heap.msize i)), ("U", rowsToJson rows), ("flat", Json.arr flat.toArray)]

/-- one request operation; replies `"ok"`, `"rej"` (the model's `Op.ok` is false: the real API asserts)
or the observation of an `eval` -/
def histStep (nenv : ℕ) (w : World ℕ GQ) (op : Json) : Except String (World ℕ GQ × Json) := do
  let structOp (o : Op (ℕ → GQ)) : Except String (World ℕ GQ × Json) :=
    if o.ok w.heap then pure (wstep w (.struct o), Json.str "ok") else pure (w, Json.str "rej")
  let ranked (i j : ℕ) : Except String Unit :=
    if i < w.heap.size ∧ j < w.heap.size ∧ ¬ (w.heap.rank j < w.heap.rank i) then
      throw "rank discipline violated (harness error)" else pure ()
  if let .ok m := natOf op "new" then
    structOp (.new m (← natOf op "rank"))
  else if let .ok i := natOf op "leaf" then
    let off ← natOf op "off"
    let k ← natOf op "k"
    if let .ok u := op.getObjVal? "U" then
      let rows ← gqRows u
      checkRows k rows
      structOp (.leaf i off k (fun a b _ => (rows.getD a.val #[]).getD b.val 0))
    else
      let tabs ← (← arrOf op "Us").mapM gqRows
      if tabs.size ≠ nenv then throw "one matrix per environment expected"
      for t in tabs do checkRows k t
      structOp (.leaf i off k (matOfTables k tabs))
  else if let .ok i := natOf op "nest" then
    let j ← natOf op "j"
    ranked i j
    structOp (.nest i j (← natOf op "off"))
  else if let .ok i := natOf op "merge" then
    let j ← natOf op "j"
    ranked i j
    structOp (.merge i j (← natOf op "off"))
  else if let .ok i := natOf op "barrier" then
    structOp (.barrier i)
  else if let .ok i := natOf op "copy" then
    if i < w.heap.size then pure (wstep w (.copy i), Json.str "ok") else throw "copy of an unknown entry"
  else if let .ok e := natOf op "set" then
    if e < nenv then pure (wstep w (.set fun _ => e), Json.str "ok") else throw "unknown environment"
  else if let .ok i := natOf op "eval" then
    if i < w.heap.size then pure (w, evalOut w i) else throw "eval of an unknown entry"
  else throw "unknown operation"

def handleHist (j : Json) : Except String Json := do
  let ops ← arrOf j "hist"
  let nenv ← natOf j "envs"
  if nenv = 0 then throw "no environment"
  let mut w : World ℕ GQ := ⟨Heap.empty, 0⟩
  let mut outs : Array Json := #[]
  for op in ops do
    let (w', o) ← histStep nenv w op
    w := w'
    outs := outs.push o
  return Json.mkObj [("out", Json.arr outs)]

def handle (j : Json) : Json :=
  if (j.getObjVal? "hist").isOk then
    match handleHist j with
    | .error e => errJson e
    | .ok r => r
  else
  match evalExpr j with
  | .error e => errJson e
  | .ok c =>
    let u := unitaryV c
    let rows := u.toArray.map (·.toArray)
    let flat := (flatten c).map fun p => Json.arr #[toJson p.1, toJson p.2.1]
    Json.mkObj [("m", toJson c.size), ("U", rowsToJson rows), ("flat", Json.arr flat.toArray)]

def main : IO Unit := run handle
