import PercevalModel.Proto
import PercevalModel.Model.C10
import PercevalModel.Model.C10Hist
import PercevalModel.Model.C10HistR
import PercevalModel.Model.C10Verdict

open Lean PM PM.Proto PM.C10

def matOfRows (k : ℕ) (rows : Array (Array GQ)) : Matrix (Fin k) (Fin k) GQ :=
  fun i j => (rows.getD i.val #[]).getD j.val 0

def cmpOf : String → Except String Cmp
  | "==" => .ok .eq | ">" => .ok .gt | "<" => .ok .lt | ">=" => .ok .ge | "<=" => .ok .le
  | s => .error s!"bad comparison {s}"

def cmpStr : Cmp → String
  | .eq => "==" | .gt => ">" | .lt => "<" | .ge => ">=" | .le => "<="

partial def psOf (j : Json) : Except String PS := do
  let a ← j.getArr?
  let tag ← (a.getD 0 Json.null).getStr?
  match tag with
  | "c" =>
    if a.size ≠ 4 then throw "bad condition"
    return .cond (← natList a[1]!) (← cmpOf (← a[2]!.getStr?)) (← a[3]!.getNat?)
  | "!" =>
    if a.size ≠ 2 then throw "bad not"
    return .not (← psOf a[1]!)
  | op =>
    if a.size ≠ 3 then throw "bad binary node"
    let x ← psOf a[1]!
    let y ← psOf a[2]!
    match op with
    | "&" => return .and x y
    | "|" => return .or x y
    | "^" => return .xor x y
    | _ => throw s!"bad operator {op}"

def psJson : PS → Json
  | .cond ms op v => .arr #["c", toJson ms, cmpStr op, toJson v]
  | .and a b => .arr #["&", psJson a, psJson b]
  | .or a b => .arr #["|", psJson a, psJson b]
  | .xor a b => .arr #["^", psJson a, psJson b]
  | .not a => .arr #["!", psJson a]

def optStr (j : Json) : Except String (Option String) :=
  match j with
  | .null => .ok none
  | .str s => .ok (some s)
  | _ => .error "expected string or null"

def portOf (j : Json) : Except String Port := do
  let a ← j.getArr?
  if a.size ≠ 6 then throw "bad port"
  return { start := ← a[0]!.getNat?, size := ← a[1]!.getNat?, name := ← a[2]!.getStr?,
           herald := ← a[3]!.getBool?, expected := ← a[4]!.getNat?, userName := ← optStr a[5]! }

def sideOf (j : Json) : Except String Side := do
  let hs ← (← arrOf j "heralds").toList.mapM fun h => do
    let a ← h.getArr?
    if a.size < 2 then throw "bad herald"
    return ((← a[0]!.getNat?), (← a[1]!.getNat?))
  let ps ← match j.getObjVal? "ps" with
    | .ok .null => pure none
    | .ok p => some <$> psOf p
    | .error _ => pure none
  return { comp := ← boolOf j "comp", m := ← natOf j "m", cs := ← natOf j "cs",
           conn := ← (← arrOf j "conn").toList.mapM (·.getBool?),
           heralds := hs,
           dets := ← (← arrOf j "dets").toList.mapM optStr,
           outp := ← (← arrOf j "outp").toList.mapM portOf,
           inp := ← (← arrOf j "inp").toList.mapM portOf,
           outNames := ← (← arrOf j "out_names").toList.mapM (·.getStr?),
           inNames := ← (← arrOf j "in_names").toList.mapM (·.getStr?),
           ps := ps }

def rawMapOf (j : Json) : Except String RawMap := do
  match ← strOf j "form" with
  | "int" => return .ofInt (← intOf j "v")
  | "list" | "tuple" => return .ofList (← intList (← j.getObjVal? "v"))
  | "dict" =>
    let items ← (← arrOf j "items").toList.mapM fun it => do
      let a ← it.getArr?
      if a.size ≠ 2 then throw "bad item"
      let k ← match a[0]! with
        | .str s => pure (MKey.name s)
        | x => MKey.int <$> x.getInt?
      let v ← match a[1]! with
        | .str s => pure (MVal.name s)
        | .arr xs => MVal.list <$> xs.toList.mapM (·.getInt?)
        | x => MVal.int <$> x.getInt?
      return (k, v)
    return .ofDict items
  | f => throw s!"bad mapping form {f}"

def pairsJson (l : List (Nat × Nat)) : Json := .arr (l.map fun p => Json.arr #[toJson p.1, toJson p.2]).toArray

def optNames (o : Option (List String)) : Json :=
  match o with
  | none => .null
  | some l => toJson l

def portJson (p : Port) : Json :=
  .arr #[toJson p.start, toJson p.size, .str p.name, .bool p.herald, toJson p.expected]

def pairsIJson (l : List (Int × Int)) : Json := .arr (l.map fun p => Json.arr #[toJson p.1, toJson p.2]).toArray

/-- `{"op": "names", "cs": n, "inp": [...], "outp": [...]}` -> the model of `in_port_names` / `out_port_names` on
given port lists (null = IndexError) -/
def handleNames (j : Json) : Except String Json := do
  let cs ← natOf j "cs"
  let inp ← (← arrOf j "inp").toList.mapM portOf
  let outp ← (← arrOf j "outp").toList.mapM portOf
  return Json.mkObj [("in_names", optNames (portNames cs inp)), ("out_names", optNames (portNames cs outp))]

/-- `{"op": "resolve", ...}` -> the resolved mapping (or the error class), and for a dictionary the closed form:
the pairs every item stands for -/
def handleResolve (j : Json) : Except String Json := do
  let fx : RFlags := ⟨← boolOf j "fix_name", ← boolOf j "fix_skip"⟩
  let l ← sideOf (← j.getObjVal? "left")
  let r ← sideOf (← j.getObjVal? "right")
  let raw ← rawMapOf (← j.getObjVal? "map")
  let closed : Json := match raw with
    | .ofDict items => match allPairs fx l r items with
      | .ok ps => Json.mkObj [("pairs", pairsIJson ps), ("dict", pairsIJson (dictOf ps)),
                              ("types", .bool (typeChecks r items))]
      | .error e => Json.mkObj [("err", .str e.name), ("types", .bool (typeChecks r items))]
    | _ => .null
  match resolve fx l r raw with
  | .ok d => return Json.mkObj [("map", pairsIJson d), ("closed", closed)]
  | .error e => return Json.mkObj [("err", .str e.name), ("closed", closed)]

def handleCompose (j : Json) : Except String Json := do
    let fixName ← boolOf j "fix_name"
    let fixSkip ← boolOf j "fix_skip"
    let fixPS ← boolOf j "fix_ps"
    let fixPorts ← boolOf j "fix_ports"
    let lj ← j.getObjVal? "left"
    let rj ← j.getObjVal? "right"
    let l ← sideOf lj
    let r ← sideOf rj
    let raw ← rawMapOf (← j.getObjVal? "map")
    let keep ← boolOf j "keep_port"
    match compose ⟨fixName, fixSkip⟩ fixPS fixPorts l r raw keep with
    | .error e => return errJson e.name
    | .ok res =>
      let states ← (← arrOf j "states").toList.mapM natList
      let tt : Json := match res.ps with
        | none => .null
        | some ps => toJson (states.map fun s => ps.eval (fun m => s.getD m 0))
      let ulRows ← gqRows (← lj.getObjVal? "U")
      let urRows ← gqRows (← rj.getObjVal? "U")
      if ulRows.size ≠ l.cs ∨ urRows.size ≠ r.cs then throw "matrix size"
      let n := res.cs
      let left : Matrix (Fin n) (Fin n) GQ := embed n 0 (matOfRows l.cs ulRows)
      let u := composeMatV n res.first r.cs res.perm (!r.comp) (matOfRows r.cs urRows) left
      let rows := u.toArray.map (·.toArray)
      -- the left mode every right-hand mode is read back from by the carried-over post-selection
      let pull : Json := if r.comp then .null else
        toJson ((List.range r.cs).map fun v => match res.inv with
          | none => v + res.first
          | some τ => applyPermFn τ 0 v + res.first)
      return Json.mkObj [
        ("map", pairsJson res.map), ("full", pairsJson res.full), ("min", toJson res.first),
        ("perm", match res.perm with | none => .null | some p => toJson p),
        ("inv", match res.inv with | none => .null | some p => toJson p),
        ("cs", toJson res.cs), ("conn", toJson res.conn), ("heralds", pairsJson res.heralds),
        ("dets", .arr (res.dets.map fun d => match d with | none => Json.null | some s => .str s).toArray),
        ("in_names", optNames (portNames res.cs res.inp)),
        ("out_names", optNames (portNames res.cs res.outp)),
        ("inp", .arr (res.inp.map portJson).toArray), ("outp", .arr (res.outp.map portJson).toArray),
        ("pull", pull),
        ("ps", match res.ps with | none => .null | some p => psJson p),
        ("tt", tt), ("U", rowsToJson rows)]


/-! ### extension 3: histories of a long-lived processor (`Model/C10Hist.lean`) -/

def locOf : String → Except String Loc
  | "INPUT" => .ok .input | "OUTPUT" => .ok .output | "IN_OUT" => .ok .inout
  | s => .error s!"bad location {s}"

def optNatOf (j : Json) (k : String) : Except String (Option Nat) :=
  match j.getObjVal? k with
  | .ok .null => pure none
  | .ok x => some <$> x.getNat?
  | .error _ => throw s!"missing {k}"

/-- one call of a life.  An `add` names its right-hand side either by its observed public state (`"right"`) or by the
life that built it (`"right_hist": {"m": n | null, "ops": [...]}`): the model then runs that life itself (repaired
prelude) and reads the added processor through `Exp.side` (`addHist`); a nested life that fails is a protocol error -/
partial def hopOf (j : Json) : Except String HOp := do
  match ← strOf j "op" with
  | "herald" => return .herald (← natOf j "mode") (← natOf j "exp") (← optStr (← j.getObjVal? "name"))
  | "port" => return .port (← natOf j "mode") (← natOf j "size") (← strOf j "name") (← locOf (← strOf j "loc"))
  | "rmport" => return .rmport (← natOf j "mode") (← locOf (← strOf j "loc"))
  | "det" => return .det (← natOf j "mode") (← strOf j "name")
  | "ps" => return .setps (← psOf (← j.getObjVal? "ps"))
  | "add" =>
    let raw ← rawMapOf (← j.getObjVal? "map")
    let keep ← boolOf j "keep_port"
    match j.getObjVal? "right_hist" with
    | .ok rh =>
      let ops ← (← arrOf rh "ops").toList.mapM hopOf
      match history true (← optNatOf rh "m") ops with
      | .ok e' => return .add e'.side raw keep
      | .error x => throw s!"nested life fails with {x.name}"
    | .error _ => return .add (← sideOf (← j.getObjVal? "right")) raw keep
  | s => throw s!"bad history op {s}"

def mtStr : MT → String
  | .photonic => "PHOTONIC" | .herald => "HERALD" | .classical => "CLASSICAL"

def expJson (e : Exp) : Json :=
  Json.mkObj [("m", toJson e.nmoi), ("cs", toJson e.cs), ("nher", toJson e.nher),
    ("mt", toJson (e.mt.map mtStr)), ("conn", toJson (e.side.conn)),
    ("heralds", pairsJson e.side.heralds),
    ("dets", .arr (e.dets.map fun d => match d with | none => Json.null | some s => .str s).toArray),
    ("inp", .arr (e.inp.map portJson).toArray), ("outp", .arr (e.outp.map portJson).toArray),
    ("in_names", optNames (portNames e.cs e.inp)), ("out_names", optNames (portNames e.cs e.outp)),
    ("ps", match e.ps with | none => .null | some p => psJson p),
    ("right_wf", .bool (rightWFb e.side))]

/-- `{"op": "hist", "fix_m0": b, "m": n | null, "ops": [...]}` -> the state after the construction and after every
call, up to the first exception (`{"err": class}` is then the last entry) -/
def handleHist (j : Json) : Except String Json := do
  let fx ← boolOf j "fix_m0"
  let m ← match j.getObjVal? "m" with
    | .ok .null => pure none
    | .ok x => some <$> x.getNat?
    | .error _ => throw "missing m"
  let ops ← (← arrOf j "ops").toList.mapM hopOf
  match Exp.new m with
  | .error x => return Json.mkObj [("trace", .arr #[errJson x.name])]
  | .ok e0 =>
    let rec go (e : Exp) (ops : List HOp) (acc : Array Json) : Array Json :=
      match ops with
      | [] => acc
      | op :: rest =>
        match stepH fx e op with
        | .error x => acc.push (errJson x.name)
        | .ok e' => go e' rest (acc.push (expJson e'))
    return Json.mkObj [("trace", .arr (go e0 ops #[expJson e0])),
                       ("no_herald_removal", .bool (noHeraldRemoval fx e0 ops)),
                       ("keeps_herald_out", .bool (keepsHeraldOut fx e0 ops))]

/-- `{"op": "verdict", "left": side, "right": side, "map": offset-or-list}` -> the closed-form verdict of the add of a
bare component (`compVerdict`, proved equal to the verdict of `compose` by `add_component_closed`) next to the
verdict of the chain itself, so that the harness can compare both with the real `Processor.add` -/
def handleVerdict (j : Json) : Except String Json := do
  let l ← sideOf (← j.getObjVal? "left")
  let r ← sideOf (← j.getObjVal? "right")
  let raw ← rawMapOf (← j.getObjVal? "map")
  if !r.comp then throw "verdict: the right-hand side must be a bare component"
  if r.m = 0 then throw "verdict: component without modes"
  match raw with
  | .ofDict _ => throw "verdict: offset or list mapping only"
  | _ => pure ()
  let cls (o : Option Err) : Json := match o with | none => .str "ok" | some e => .str e.name
  let chain : Option Err := match compose .all true true l r raw (← boolOf j "keep_port") with
    | .ok _ => none
    | .error e => some e
  return Json.mkObj [("closed", cls (compVerdict l r raw)), ("chain", cls chain)]

def handle (j : Json) : Json :=
  let r : Except String Json :=
    match j.getObjVal? "op" with
    | .ok (.str "names") => handleNames j
    | .ok (.str "resolve") => handleResolve j
    | .ok (.str "compose") => handleCompose j
    | .ok (.str "hist") => handleHist j
    | .ok (.str "verdict") => handleVerdict j
    | .ok _ => .error "unknown op"
    | .error _ => handleCompose j
  match r with
  | .ok out => out
  | .error e => errJson s!"protocol: {e}"

def main : IO Unit := run handle
