import PercevalModel.Proto
import PercevalModel.Model.C09

open Lean PM PM.Proto PM.C09

/-- optional natural: JSON `null` = Python `None` -/
def optNat (j : Json) (k : String) : Except String (Option Nat) := do
  let v ← j.getObjVal? k
  match v with
  | .null => return none
  | _ => return some (← v.getNat?)

def ratList (j : Json) : Except String (List Rat) := do
  (← j.getArr?).toList.mapM ratOfJson

def outcomeOf (s : String) : Except String Outcome :=
  match s with
  | "p" => .ok .phys
  | "l" => .ok .logic
  | "s" => .ok .sel
  | _ => .error s!"bad outcome {s}"

def shotOf (j : Json) : Except String Shot := do
  match j with
  | .arr #[c, b, o] => return ⟨← c.getBool?, ← b.getNat?, ← outcomeOf (← o.getStr?)⟩
  | _ => throw "bad shot"

def shotsOf (j : Json) (k : String) : Except String (List Shot) := do
  (← arrOf j k).toList.mapM shotOf

def optNatJson : Option Nat → Json
  | none => .null
  | some n => toJson n

def haltJson : Option Halt → Json
  | none => .null
  | some .cancel => .str "cancel"
  | some .exhausted => .str "exhausted"

def stJson (c : Cfg) (s : St) : Json :=
  Json.mkObj [("out", toJson s.out), ("shots", toJson s.shots), ("notSel", toJson s.notSel),
    ("notSelPhys", toJson s.notSelPhys), ("idx", toJson s.idx), ("batchLen", toJson s.batchLen),
    ("halt", haltJson s.halt), ("stopped", toJson (stopped c s)),
    ("phys", ratToJson (perf s).1), ("logical", ratToJson (perf s).2)]

def handleReq (j : Json) : Except String Json := do
  let op ← strOf j "op"
  match op with
  | "deduce" =>
    match deduceCount (← optNat j "count") (← optNat j "max_shots") (← optNat j "max_samples") with
    | .ok n => return Json.mkObj [("ok", toJson n)]
    | .error e => return Json.mkObj [("raise", .str e)]
  | "cs" =>
    match computeSamples (← optNat j "ms") (← optNat j "sh") with
    | .ok n => return Json.mkObj [("ok", optNatJson n)]
    | .error e => return Json.mkObj [("raise", .str e)]
  | "cswp" =>
    let pp ← ratOfJson (← j.getObjVal? "pp")
    let zpp ← ratOfJson (← j.getObjVal? "zpp")
    if pp < 0 ∨ 1 < zpp ∨ zpp < 0 then throw "domain"
    match computeSamplesWithPerf (← natOf j "filter") (← natOf j "prepare") pp zpp (← optNat j "sh") with
    | .ok (p, sh) => return Json.mkObj [("prepare", toJson p), ("sh", optNatJson sh)]
    | .error "domain" => throw "domain"
    | .error e => return Json.mkObj [("raise", .str e)]
  | "perfect" =>
    let n ← natOf j "n"
    let (a, l) := perfectLoop n n 0
    return Json.mkObj [("acquired", toJson a), ("requests", toJson l)]
  | "loop" =>
    let c : Cfg := ⟨← natOf j "ms", ← optNat j "sh", ← boolOf j "cb"⟩
    let first ← natOf j "first"
    let ops ← shotsOf j "ops"
    let (s, evs) := PM.SM.run (step c) (init first) ops
    return Json.mkObj [("state", stJson c s),
      ("asked", Json.arr (evs.map fun e => optNatJson e.asked).toArray),
      ("ran", Json.arr (evs.map fun e => toJson e.ran).toArray)]
  | "pipeline" =>
    let pre ← ratOfJson (← j.getObjVal? "pre")
    let zpp ← ratOfJson (← j.getObjVal? "zpp")
    if pre < 0 ∨ 1 < zpp ∨ zpp < 0 then throw "domain"
    let src ← boolOf j "source"
    let i : SamplesIn := ⟨← optNat j "ms", ← optNat j "sh", ← natOf j "filter", pre, zpp,
      (fun n => if src then n else 0), ← boolOf j "cb"⟩
    let ops ← shotsOf j "ops"
    match samplesPipeline i ops with
    | .error "domain" => throw "domain"
    | .error "unreachable" => throw "unreachable"
    | .error e => return Json.mkObj [("raise", .str e)]
    | .result n ph lg st =>
      let extra := match st with
        | none => [("loop", Json.null)]
        | some s => [("loop", Json.mkObj [("shots", toJson s.shots), ("halt", haltJson s.halt),
            ("notSel", toJson s.notSel), ("notSelPhys", toJson s.notSelPhys)])]
      return Json.mkObj ([("n", toJson n), ("phys", ratToJson ph), ("logical", ratToJson lg)] ++ extra)
  | "p2sc" =>
    let ps ← ratList (← j.getObjVal? "ps")
    let ns ← ratList (← j.getObjVal? "ns")
    if ps.any (fun p => p < 0 ∨ 1 < p) then throw "domain"
    let fb ← natList (← j.getObjVal? "fb")
    if fb.any (fun i => ps.length ≤ i) then throw "domain"
    match probsToSampleCount ps ns (← natOf j "count") (← natList (← j.getObjVal? "picks")) fb with
    | .empty => return Json.mkObj [("kind", "empty")]
    | .needPicks => return Json.mkObj [("kind", "needPicks")]
    | .bad w => throw w
    | .done via cs => return Json.mkObj [("kind", "done"), ("fallback", toJson via), ("counts", toJson cs)]
  | "count" =>
    let n ← natOf j "n"
    let samples ← natList (← j.getObjVal? "samples")
    if samples.any (fun i => n ≤ i) then throw "domain"
    return Json.mkObj [("counts", toJson (countOf n samples))]
  | "c2p" =>
    let cs ← intList (← j.getObjVal? "counts")
    match countsToProbs cs with
    | .error e => return Json.mkObj [("raise", .str e)]
    | .ok ps => return Json.mkObj [("probs", Json.arr (ps.map fun
        | none => Json.null
        | some q => ratToJson q).toArray)]
  | _ => throw s!"unknown op {op}"

def handle (j : Json) : Json :=
  match handleReq j with
  | .ok r => r
  | .error e => errJson e

def main : IO Unit := run handle
