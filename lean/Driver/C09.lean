import PercevalModel.Proto
import PercevalModel.Model.C09

open Lean PM PM.Proto PM.C09

/-- optional natural: JSON `null` = Python `None` -/
def optNat (j : Json) (k : String) : Except String (Option Nat) := do
  let v ← j.getObjVal? k
  match v with
  | .null => return none
  | _ => return some (← v.getNat?)

def ratList (j : Json) : Except String (List Rat) := do
  (← j.getArr?).toList.mapM ratOfJson

def outcomeOf (s : String) : Except String Outcome :=
  match s with
  | "p" => .ok .phys
  | "l" => .ok .logic
  | "s" => .ok .sel
  | _ => .error s!"bad outcome {s}"

def shotOf (j : Json) : Except String Shot := do
  match j with
  | .arr #[c, b, o] => return ⟨← c.getBool?, ← b.getNat?, ← outcomeOf (← o.getStr?)⟩
  | _ => throw "bad shot"

def shotsOf (j : Json) (k : String) : Except String (List Shot) := do
  (← arrOf j k).toList.mapM shotOf

def optNatJson : Option Nat → Json
  | none => .null
  | some n => toJson n

def haltJson : Option Halt → Json
  | none => .null
  | some .cancel => .str "cancel"
  | some .exhausted => .str "exhausted"

def stJson (c : Cfg) (s : St) : Json :=
  Json.mkObj [("out", toJson s.out), ("shots", toJson s.shots), ("notSel", toJson s.notSel),
    ("notSelPhys", toJson s.notSelPhys), ("idx", toJson s.idx), ("batchLen", toJson s.batchLen),
    ("halt", haltJson s.halt), ("stopped", toJson (stopped c s)),
    ("phys", ratToJson (perf s).1), ("logical", ratToJson (perf s).2)]

/-- configuration of the loop the pipeline runs (same steps as `samplesPipeline`), if it runs one -/
def pipelineCfg (i : SamplesIn) : Option (Cfg × Nat × Nat) :=
  match computeSamples i.maxSamples i.maxShots with
  | .ok (some (p + 1)) =>
    match computeSamplesWithPerf i.filter (p + 1) i.prePerf i.zpp i.maxShots, i.maxSamples with
    | .ok (p' + 1, sh'), some ms => some (⟨ms, sh', i.hasCallback⟩, i.firstBatch (p' + 1), p' + 1)
    | _, _ => none
  | _ => none

/-- A scripted source answers per REQUEST (`batches[r]`: `none` = as many as asked), the model wants
the batch per ITERATION: build the operation list while stepping.  Returns the operations and the
trace `[len(output) before, nb_gen asked or null]` of every iteration that entered the loop body. -/
def buildOps (c : Cfg) (batches : List (Option Nat)) :
    List (Bool × Outcome) → St → Nat → Array Shot → Array Json → Array Shot × Array Json
  | [], _, _, ops, tr => (ops, tr)
  | (cancel, o) :: rest, s, r, ops, tr =>
    let b := match batches.getD r none with
      | some k => k
      | none => nbGen c s
    let op : Shot := ⟨cancel, b, o⟩
    let (s', ev) := step c s op
    buildOps c batches rest s' (if ev.asked.isSome then r + 1 else r) (ops.push op)
      (if ev.ran then tr.push (Json.arr #[toJson s.out, optNatJson ev.asked]) else tr)

/-- what the first-batch request asks for (`estimate_weights_from_source` is called even when the
rescaled number of samples to prepare is 0) -/
def pipelinePrepare (i : SamplesIn) : Option Nat :=
  match computeSamples i.maxSamples i.maxShots with
  | .ok (some (p + 1)) =>
    match computeSamplesWithPerf i.filter (p + 1) i.prePerf i.zpp i.maxShots with
    | .ok (p', _) => some p'
    | _ => none
  | _ => none

def optNatOfJson (v : Json) : Except String (Option Nat) :=
  match v with
  | .null => return none
  | _ => return some (← v.getNat?)

def handleReq (j : Json) : Except String Json := do
  let op ← strOf j "op"
  match op with
  | "deduce" =>
    match deduceCount (← optNat j "count") (← optNat j "max_shots") (← optNat j "max_samples") with
    | .ok n => return Json.mkObj [("ok", toJson n)]
    | .error e => return Json.mkObj [("raise", .str e)]
  | "cs" =>
    match computeSamples (← optNat j "ms") (← optNat j "sh") with
    | .ok n => return Json.mkObj [("ok", optNatJson n)]
    | .error e => return Json.mkObj [("raise", .str e)]
  | "cswp" =>
    let pp ← ratOfJson (← j.getObjVal? "pp")
    let zpp ← ratOfJson (← j.getObjVal? "zpp")
    if pp < 0 ∨ 1 < zpp ∨ zpp < 0 then throw "domain"
    match computeSamplesWithPerf (← natOf j "filter") (← natOf j "prepare") pp zpp (← optNat j "sh") with
    | .ok (p, sh) => return Json.mkObj [("prepare", toJson p), ("sh", optNatJson sh)]
    | .error "domain" => throw "domain"
    | .error e => return Json.mkObj [("raise", .str e)]
  | "perfect" =>
    let n ← natOf j "n"
    let (a, l) := perfectLoop n n 0
    return Json.mkObj [("acquired", toJson a), ("requests", toJson l)]
  | "loop" =>
    let c : Cfg := ⟨← natOf j "ms", ← optNat j "sh", ← boolOf j "cb"⟩
    let first ← natOf j "first"
    let ops ← shotsOf j "ops"
    let (s, evs) := PM.SM.run (step c) (init first) ops
    return Json.mkObj [("state", stJson c s),
      ("asked", Json.arr (evs.map fun e => optNatJson e.asked).toArray),
      ("ran", Json.arr (evs.map fun e => toJson e.ran).toArray)]
  | "pipeline" =>
    let pre ← ratOfJson (← j.getObjVal? "pre")
    let zpp ← ratOfJson (← j.getObjVal? "zpp")
    if pre < 0 ∨ 1 < zpp ∨ zpp < 0 then throw "domain"
    let src ← boolOf j "source"
    -- length of the first batch: `null` = what the code asks for (source) / nothing (distribution);
    -- a number = what a scripted source hands back whatever it is asked
    let firstOv ← optNat j "first"
    let fb : Nat → Nat := fun n => match firstOv with
      | some k => k
      | none => if src then n else 0
    let i : SamplesIn := ⟨← optNat j "ms", ← optNat j "sh", ← natOf j "filter", pre, zpp, fb, ← boolOf j "cb"⟩
    let outs ← (← arrOf j "outcomes").toList.mapM fun v => do outcomeOf (← v.getStr?)
    let cancels ← (← arrOf j "cancels").toList.mapM fun v => v.getBool?
    let batches ← (← arrOf j "batches").toList.mapM optNatOfJson
    let script := (List.range outs.length).zipWith (fun k o => (cancels.getD k false, o)) outs
    let (ops, tr) := match pipelineCfg i with
      | some (c, first, _) =>
        let (ops, tr) := buildOps c batches script (init first) 0 #[] #[]
        (ops.toList, tr)
      | none => ([], #[])
    let trace := Json.mkObj [("prepare", optNatJson (pipelinePrepare i)), ("iters", Json.arr tr)]
    match samplesPipeline i ops with
    | .error "domain" => throw "domain"
    | .error "unreachable" => throw "unreachable"
    | .error e =>
      -- the requests made before the failure are still observable
      return Json.mkObj [("raise", .str e), ("trace", trace)]
    | .result n ph lg st =>
      let lp := match st with
        | none => Json.null
        | some s => Json.mkObj [("shots", toJson s.shots), ("halt", haltJson s.halt),
            ("notSel", toJson s.notSel), ("notSelPhys", toJson s.notSelPhys),
            ("stopped", toJson ((pipelineCfg i).map fun (c, _, _) => stopped c s))]
      return Json.mkObj [("n", toJson n), ("phys", ratToJson ph), ("logical", ratToJson lg),
        ("loop", lp), ("trace", trace)]
  | "classify" =>
    -- one sampled state through the filter / heralds / post-selection of `_noisy_sampling`
    let hs ← (← arrOf j "heralds").toList.mapM fun v => do
      match v with
      | .arr #[m, x] => pure (← m.getNat?, ← x.getNat?)
      | _ => throw "bad herald"
    let st ← natList (← j.getObjVal? "state")
    if hs.any (fun h => st.length ≤ h.1) then throw "domain"
    if ¬ (hs.map (·.1)).Nodup then throw "domain"
    let o := shotOutcome (← boolOf j "fixed") (← natOf j "filter") hs (← boolOf j "ps") st
    let letter := match o with
      | .phys => "p"
      | .logic => "l"
      | .sel => "s"
    return Json.mkObj [("outcome", .str letter), ("emitted", toJson (emitted hs (← boolOf j "keep") st))]
  | "p2sc" =>
    let ps ← ratList (← j.getObjVal? "ps")
    let ns ← ratList (← j.getObjVal? "ns")
    if ps.any (fun p => p < 0 ∨ 1 < p) then throw "domain"
    let fb ← natList (← j.getObjVal? "fb")
    if fb.any (fun i => ps.length ≤ i) then throw "domain"
    match probsToSampleCount ps ns (← natOf j "count") (← natList (← j.getObjVal? "picks")) fb with
    | .empty => return Json.mkObj [("kind", "empty")]
    | .needPicks => return Json.mkObj [("kind", "needPicks")]
    | .bad w => throw w
    | .done via cs => return Json.mkObj [("kind", "done"), ("fallback", toJson via), ("counts", toJson cs)]
  | "count" =>
    let n ← natOf j "n"
    let samples ← natList (← j.getObjVal? "samples")
    if samples.any (fun i => n ≤ i) then throw "domain"
    return Json.mkObj [("counts", toJson (countOf n samples))]
  | "c2p" =>
    let cs ← intList (← j.getObjVal? "counts")
    match countsToProbs cs with
    | .error e => return Json.mkObj [("raise", .str e)]
    | .ok ps => return Json.mkObj [("probs", Json.arr (ps.map fun
        | none => Json.null
        | some q => ratToJson q).toArray)]
  | _ => throw s!"unknown op {op}"

def handle (j : Json) : Json :=
  match handleReq j with
  | .ok r => r
  | .error e => errJson e

def main : IO Unit := run handle
