import PercevalModel.Proto
import PercevalModel.SimProto
import PercevalModel.Model.C09
import PercevalModel.Model.C09Run
import PercevalModel.Model.C09Conv
import PercevalModel.Model.C09Iter
import PercevalModel.Model.C09Job

open Lean PM PM.Proto PM.C09

/-- optional natural: JSON `null` = Python `None` -/
def optNat (j : Json) (k : String) : Except String (Option Nat) := do
  let v ← j.getObjVal? k
  match v with
  | .null => return none
  | _ => return some (← v.getNat?)

def ratList (j : Json) : Except String (List Rat) := do
  (← j.getArr?).toList.mapM ratOfJson

def outcomeOf (s : String) : Except String Outcome :=
  match s with
  | "p" => .ok .phys
  | "l" => .ok .logic
  | "s" => .ok .sel
  | _ => .error s!"bad outcome {s}"

def shotOf (j : Json) : Except String Shot := do
  match j with
  | .arr #[c, b, o] => return ⟨← c.getBool?, ← b.getNat?, ← outcomeOf (← o.getStr?)⟩
  | _ => throw "bad shot"

def shotsOf (j : Json) (k : String) : Except String (List Shot) := do
  (← arrOf j k).toList.mapM shotOf

def optNatJson : Option Nat → Json
  | none => .null
  | some n => toJson n

def haltJson : Option Halt → Json
  | none => .null
  | some .cancel => .str "cancel"
  | some .exhausted => .str "exhausted"

def stJson (c : Cfg) (s : St) : Json :=
  Json.mkObj [("out", toJson s.out), ("shots", toJson s.shots), ("notSel", toJson s.notSel),
    ("notSelPhys", toJson s.notSelPhys), ("idx", toJson s.idx), ("batchLen", toJson s.batchLen),
    ("halt", haltJson s.halt), ("stopped", toJson (stopped c s)),
    ("phys", ratToJson (perf s).1), ("logical", ratToJson (perf s).2)]

/-- configuration of the loop the pipeline runs (same steps as `samplesPipeline`), if it runs one -/
def pipelineCfg (i : SamplesIn) : Option (Cfg × Nat × Nat) :=
  match computeSamples i.maxSamples i.maxShots with
  | .ok (some (p + 1)) =>
    match computeSamplesWithPerf i.filter (p + 1) i.prePerf i.zpp i.maxShots, i.maxSamples with
    | .ok (p' + 1, sh'), some ms => some (⟨ms, sh', i.hasCallback⟩, i.firstBatch (p' + 1), p' + 1)
    | _, _ => none
  | _ => none

/-- A scripted source answers per REQUEST (`batches[r]`: `none` = as many as asked), the model wants
the batch per ITERATION: build the operation list while stepping.  Returns the operations and the
trace `[len(output) before, nb_gen asked or null]` of every iteration that entered the loop body. -/
def buildOps (c : Cfg) (batches : List (Option Nat)) :
    List (Bool × Outcome) → St → Nat → Array Shot → Array Json → Array Shot × Array Json
  | [], _, _, ops, tr => (ops, tr)
  | (cancel, o) :: rest, s, r, ops, tr =>
    let b := match batches.getD r none with
      | some k => k
      | none => nbGen c s
    let op : Shot := ⟨cancel, b, o⟩
    let (s', ev) := step c s op
    buildOps c batches rest s' (if ev.asked.isSome then r + 1 else r) (ops.push op)
      (if ev.ran then tr.push (Json.arr #[toJson s.out, optNatJson ev.asked]) else tr)

/-- what the first-batch request asks for (`estimate_weights_from_source` is called even when the
rescaled number of samples to prepare is 0) -/
def pipelinePrepare (i : SamplesIn) : Option Nat :=
  match computeSamples i.maxSamples i.maxShots with
  | .ok (some (p + 1)) =>
    match computeSamplesWithPerf i.filter (p + 1) i.prePerf i.zpp i.maxShots with
    | .ok (p', _) => some p'
    | _ => none
  | _ => none

def optNatOfJson (v : Json) : Except String (Option Nat) :=
  match v with
  | .null => return none
  | _ => return some (← v.getNat?)


/-! ### replay of `NoisySamplingSimulator.samples` on recorded draws (`Model/C09Run.lean`) -/

def fockOfJson (j : Json) : Except String (List Nat) := natList j

def fockListOfJson (j : Json) : Except String (List (List Nat)) := do
  (← j.getArr?).toList.mapM fockOfJson

/-- `[[key, [state, …]], …]` -/
def streamsOfJson (j : Json) : Except String (AL (List Fock)) := do
  (← j.getArr?).toList.mapM fun e => do
    match e with
    | .arr #[k, v] => pure (← fockOfJson k, ← fockListOfJson v)
    | _ => throw "bad stream entry"

def heraldsOfJson (j : Json) : Except String (List (Nat × Nat)) := do
  (← j.getArr?).toList.mapM fun v => do
    match v with
    | .arr #[m, x] => pure (← m.getNat?, ← x.getNat?)
    | _ => throw "bad herald"

def detModeOf : String → Except String DetMode
  | "none" => pure .none
  | "threshold" => pure .threshold
  | "random" => pure .random
  | s => throw s!"bad detector mode {s}"

def itemOfJson (j : Json) : Except String InItem := do
  let p ← ratOfJson (← j.getObjVal? "p")
  if p < 0 ∨ 1 < p then throw "domain"
  return ⟨← fockListOfJson (← j.getObjVal? "comps"), ← boolOf j "annotated", ← natOf j "n", p⟩

def specOfJson (j : Json) : Except String InSpec := do
  match (← strOf j "kind") with
  | "source" =>
    let pre ← ratOfJson (← j.getObjVal? "pre")
    let zpp ← ratOfJson (← j.getObjVal? "zpp")
    if pre < 0 ∨ 1 < zpp ∨ zpp < 0 then throw "domain"
    return .source (← boolOf j "perfect") (← boolOf j "annotated") (← fockOfJson (← j.getObjVal? "input")) pre zpp
  | "svd" => return .svd (← (← arrOf j "items").toList.mapM itemOfJson)
  | k => throw s!"bad spec kind {k}"

def alJson (l : List (Fock × Nat)) : Json :=
  Json.arr (l.map fun (k, n) => Json.arr #[toJson k, toJson n]).toArray

def runInOfJson (j : Json) : Except String RunIn := do
  let hs ← heraldsOfJson (← j.getObjVal? "heralds")
  if ¬ (hs.map (·.1)).Nodup then throw "domain"
  let ps ← PM.SimProto.psOfJson (← j.getObjVal? "ps")
  let detMax ← match (← j.getObjVal? "detMax") with
    | .null => pure none
    | v => do
      let l ← (← v.getArr?).toList.mapM optNatOfJson
      pure (some l)
  let sel : SelCfg := ⟨← natOf j "filter", hs, ← boolOf j "keep", fun t => ps.eval t, ← detModeOf (← strOf j "det")⟩
  let gens ← (← arrOf j "gens").toList.mapM fun b => do
    (← b.getArr?).toList.mapM fockListOfJson
  return ⟨sel, ← optNat j "ms", ← optNat j "sh", ← boolOf j "psHasCond", detMax, ← specOfJson (← j.getObjVal? "spec"),
    gens, ← streamsOfJson (← j.getObjVal? "backend"), ← streamsOfJson (← j.getObjVal? "detDraws"), ← natOf j "fuel"⟩

def runOutJson (r : RunOut) : Json :=
  Json.mkObj [("results", toJson r.results), ("phys", ratToJson r.phys), ("logical", ratToJson r.logical),
    ("path", .str r.path), ("shots", toJson r.shots), ("notSel", toJson r.notSel),
    ("notSelPhys", toJson r.notSelPhys), ("asked", toJson r.asked), ("reqs", alJson r.reqs),
    ("seen", toJson r.seen), ("weights", alJson r.weights), ("prepared", optNatJson r.prepared)]

/-- the same request answered by the LAZY provider started on `lazyOf` of the prepared pooled provider
(an executable instance of `pooled_run_refines_lazy`); only the loop path -/
def runLazyCheck (i : RunIn) : Option (List Fock × Nat × Nat × Nat) :=
  match computeSamples i.maxSamples i.maxShots, i.maxSamples with
  | .ok (some (q + 1)), some ms =>
    let prep : Option (Nat × Option Nat × List InDraw × List (List InDraw) × AL Nat) :=
      match i.spec with
      | .source _ _ _ prePerf zpp =>
        match computeSamplesWithPerf (effF i.sel) (q + 1) prePerf zpp i.maxShots, i.gens with
        | .ok (ps, sh), first :: gs => some (ps, sh, first, gs, estSource [] first)
        | _, _ => none
      | .svd items =>
        let (zpp, maxP) := checkSvd (effF i.sel) items
        let (trimmed, prePerf) := preprocess (effF i.sel) items maxP (q + 1)
        match computeSamplesWithPerf (effF i.sel) (q + 1) prePerf zpp i.maxShots with
        | .ok (ps, sh) => some (ps, sh, [], i.gens, estDist trimmed ps [])
        | _ => none
    match prep with
    | some (ps, sh, first, gs, w) =>
      if ps = 0 then none
      else
        match prepare ⟨[], w, i.backend, []⟩ with
        | .ok p =>
          match loopG sfLazy i.sel ms sh none i.fuel (lazyOf p) ⟨[], [], 0, 0, 0, first, gs, [], i.detDraws⟩ with
          | .ok (_, s) => some (s.out.reverse, s.shots, s.notSel, s.notSelPhys)
          | .error _ => none
        | .error _ => none
    | none => none
  | _, _ => none


/-! ### Sampler iterations (`Model/C09Iter.lean`) -/

def scfgOfJson (j : Json) : Except String SCfg := do
  return ⟨← optNat j "ms", ← optNat j "sh", ← optNat j "filter", ← natOf j "input", ← natOf j "noise",
    ← natList (← j.getObjVal? "params")⟩

def scfgJson (c : SCfg) : Json :=
  Json.mkObj [("ms", optNatJson c.maxSamples), ("sh", optNatJson c.maxShots), ("filter", optNatJson c.filter),
    ("input", toJson c.input), ("noise", toJson c.noise), ("params", toJson c.params)]

def iterOfJson (n : Nat) (j : Json) : Except String Iter := do
  let ps ← match (← j.getObjVal? "params") with
    | .null => pure none
    | v => do
      let l ← (← v.getArr?).toList.mapM fun e => do
        match e with
        | .arr #[i, x] => pure (← i.getNat?, ← x.getNat?)
        | _ => throw "bad parameter entry"
      if l.any (fun iv => n ≤ iv.1) then throw "domain"
      pure (some l)
  return ⟨← optNat j "ms", ← optNat j "sh", ← optNat j "filter", ← optNat j "input", ← optNat j "noise", ps⟩

def cmdOf (s : String) : Except String Cmd :=
  match s with
  | "probs" => .ok .probs
  | "sample_count" => .ok .sampleCount
  | "samples" => .ok .samples
  | _ => .error s!"bad command {s}"

def cmdStr : Cmd → String
  | .probs => "probs"
  | .sampleCount => "sample_count"
  | .samples => "samples"

def optNatVal (v : Json) : Except String (Option Nat) :=
  match v with
  | .null => return none
  | _ => return some (← v.getNat?)

/-- a dictionary entry: `[]` = key absent, `[v]` = key present with value `v` (`null` = `None`) -/
def entryOf (j : Json) (k : String) : Except String (Option (Option Nat)) := do
  match (← arrOf j k) with
  | #[] => return none
  | #[v] => return some (← optNatVal v)
  | _ => throw "bad entry"

def entryJson : Option (Option Nat) → Json
  | none => Json.arr #[]
  | some v => Json.arr #[optNatJson v]

def callJson : Call → Json
  | .samples ms sh => Json.mkObj [("kind", "samples"), ("ms", toJson ms), ("sh", optNatJson sh)]
  | .probs sh => Json.mkObj [("kind", "probs"), ("sh", optNatJson sh)]

def handleReq (j : Json) : Except String Json := do
  let op ← strOf j "op"
  match op with
  | "deduce" =>
    match deduceCount (← optNat j "count") (← optNat j "max_shots") (← optNat j "max_samples") with
    | .ok n => return Json.mkObj [("ok", toJson n)]
    | .error e => return Json.mkObj [("raise", .str e)]
  | "cs" =>
    match computeSamples (← optNat j "ms") (← optNat j "sh") with
    | .ok n => return Json.mkObj [("ok", optNatJson n)]
    | .error e => return Json.mkObj [("raise", .str e)]
  | "cswp" =>
    let pp ← ratOfJson (← j.getObjVal? "pp")
    let zpp ← ratOfJson (← j.getObjVal? "zpp")
    if pp < 0 ∨ 1 < zpp ∨ zpp < 0 then throw "domain"
    match computeSamplesWithPerf (← natOf j "filter") (← natOf j "prepare") pp zpp (← optNat j "sh") with
    | .ok (p, sh) => return Json.mkObj [("prepare", toJson p), ("sh", optNatJson sh)]
    | .error "domain" => throw "domain"
    | .error e => return Json.mkObj [("raise", .str e)]
  | "perfect" =>
    let n ← natOf j "n"
    let (a, l) := perfectLoop n n 0
    return Json.mkObj [("acquired", toJson a), ("requests", toJson l)]
  | "loop" =>
    let c : Cfg := ⟨← natOf j "ms", ← optNat j "sh", ← boolOf j "cb"⟩
    let first ← natOf j "first"
    let ops ← shotsOf j "ops"
    let (s, evs) := PM.SM.run (step c) (init first) ops
    return Json.mkObj [("state", stJson c s),
      ("asked", Json.arr (evs.map fun e => optNatJson e.asked).toArray),
      ("ran", Json.arr (evs.map fun e => toJson e.ran).toArray)]
  | "pipeline" =>
    let pre ← ratOfJson (← j.getObjVal? "pre")
    let zpp ← ratOfJson (← j.getObjVal? "zpp")
    if pre < 0 ∨ 1 < zpp ∨ zpp < 0 then throw "domain"
    let src ← boolOf j "source"
    -- length of the first batch: `null` = what the code asks for (source) / nothing (distribution);
    -- a number = what a scripted source hands back whatever it is asked
    let firstOv ← optNat j "first"
    let fb : Nat → Nat := fun n => match firstOv with
      | some k => k
      | none => if src then n else 0
    let i : SamplesIn := ⟨← optNat j "ms", ← optNat j "sh", ← natOf j "filter", pre, zpp, fb, ← boolOf j "cb"⟩
    let outs ← (← arrOf j "outcomes").toList.mapM fun v => do outcomeOf (← v.getStr?)
    let cancels ← (← arrOf j "cancels").toList.mapM fun v => v.getBool?
    let batches ← (← arrOf j "batches").toList.mapM optNatOfJson
    let script := (List.range outs.length).zipWith (fun k o => (cancels.getD k false, o)) outs
    let (ops, tr) := match pipelineCfg i with
      | some (c, first, _) =>
        let (ops, tr) := buildOps c batches script (init first) 0 #[] #[]
        (ops.toList, tr)
      | none => ([], #[])
    let trace := Json.mkObj [("prepare", optNatJson (pipelinePrepare i)), ("iters", Json.arr tr)]
    match samplesPipeline i ops with
    | .error "domain" => throw "domain"
    | .error "unreachable" => throw "unreachable"
    | .error e =>
      -- the requests made before the failure are still observable
      return Json.mkObj [("raise", .str e), ("trace", trace)]
    | .result n ph lg st =>
      let lp := match st with
        | none => Json.null
        | some s => Json.mkObj [("shots", toJson s.shots), ("halt", haltJson s.halt),
            ("notSel", toJson s.notSel), ("notSelPhys", toJson s.notSelPhys),
            ("stopped", toJson ((pipelineCfg i).map fun (c, _, _) => stopped c s))]
      return Json.mkObj [("n", toJson n), ("phys", ratToJson ph), ("logical", ratToJson lg),
        ("loop", lp), ("trace", trace)]
  | "classify" =>
    -- one sampled state through the filter / heralds / post-selection of `_noisy_sampling`
    let hs ← (← arrOf j "heralds").toList.mapM fun v => do
      match v with
      | .arr #[m, x] => pure (← m.getNat?, ← x.getNat?)
      | _ => throw "bad herald"
    let st ← natList (← j.getObjVal? "state")
    if hs.any (fun h => st.length ≤ h.1) then throw "domain"
    if ¬ (hs.map (·.1)).Nodup then throw "domain"
    let o := shotOutcome (← boolOf j "fixed") (← natOf j "filter") hs (← boolOf j "ps") st
    let letter := match o with
      | .phys => "p"
      | .logic => "l"
      | .sel => "s"
    return Json.mkObj [("outcome", .str letter), ("emitted", toJson (emitted hs (← boolOf j "keep") st))]
  | "p2sc" =>
    let ps ← ratList (← j.getObjVal? "ps")
    let ns ← ratList (← j.getObjVal? "ns")
    if ps.any (fun p => p < 0 ∨ 1 < p) then throw "domain"
    let fb ← natList (← j.getObjVal? "fb")
    if fb.any (fun i => ps.length ≤ i) then throw "domain"
    match probsToSampleCount ps ns (← natOf j "count") (← natList (← j.getObjVal? "picks")) fb with
    | .empty => return Json.mkObj [("kind", "empty")]
    | .needPicks => return Json.mkObj [("kind", "needPicks")]
    | .bad w => throw w
    | .done via cs => return Json.mkObj [("kind", "done"), ("fallback", toJson via), ("counts", toJson cs)]
  | "count" =>
    let n ← natOf j "n"
    let samples ← natList (← j.getObjVal? "samples")
    if samples.any (fun i => n ≤ i) then throw "domain"
    return Json.mkObj [("counts", toJson (countOf n samples))]
  | "c2p" =>
    let cs ← intList (← j.getObjVal? "counts")
    match countsToProbs cs with
    | .error e => return Json.mkObj [("raise", .str e)]
    | .ok ps => return Json.mkObj [("probs", Json.arr (ps.map fun
        | none => Json.null
        | some q => ratToJson q).toArray)]
  | "replay" =>
    let i ← runInOfJson j
    match runSamples i with
    | .ok r =>
      let base := runOutJson r
      if (← boolOf j "lazy") then
        let lz := match runLazyCheck i with
          | some (o, a, b, c) => Json.mkObj [("results", toJson o), ("shots", toJson a), ("notSel", toJson b),
              ("notSelPhys", toJson c)]
          | none => Json.null
        return base.setObjVal! "lazy" lz
      else return base
    | .error "needDraws" => return Json.mkObj [("need", "backend")]
    | .error "needInputs" => return Json.mkObj [("need", "inputs")]
    | .error "needDetDraws" => return Json.mkObj [("need", "detectors")]
    | .error "fuel" => return Json.mkObj [("need", "fuel")]
    | .error "domain" => throw "domain"
    | .error "unreachable" => throw "unreachable"
    | .error e => return Json.mkObj [("raise", .str e)]
  | "sampledist" | "p2s" | "sc2s" =>
    let vac ← (← arrOf j "vac").toList.mapM fun v => v.getBool?
    let draws ← natList (← j.getObjVal? "draws")
    let r ← match op with
      | "sampledist" => do
        let present ← (← arrOf j "present").toList.mapM fun v => v.getBool?
        let ws ← ratList (← j.getObjVal? "weights")
        if ws.length ≠ present.length ∨ vac.length ≠ present.length ∨ ws.any (· < 0) then throw "domain"
        pure (sampleDist vac (← boolOf j "non_null") present ws (← natOf j "count") draws)
      | "p2s" => do
        let ps ← ratList (← j.getObjVal? "probs")
        if vac.length ≠ ps.length ∨ ps.any (· < 0) then throw "domain"
        pure (probsToSamples vac ps (← optNat j "count") (← optNat j "max_shots") (← optNat j "max_samples") draws)
      | _ => do
        let cs ← intList (← j.getObjVal? "counts")
        if vac.length ≠ cs.length then throw "domain"
        pure (sampleCountToSamples vac cs (← optNat j "count") (← optNat j "max_shots") (← optNat j "max_samples") draws)
    match r with
    | .ok l => return Json.mkObj [("ok", toJson l)]
    | .raise e => return Json.mkObj [("raise", .str e)]
    | .bad w => return Json.mkObj [("bad", .str w)]
  | "s2p" =>
    let n ← natOf j "n"
    let samples ← natList (← j.getObjVal? "samples")
    if samples.any (fun i => n ≤ i) then throw "domain"
    match samplesToProbs n samples with
    | .error e => return Json.mkObj [("raise", .str e)]
    | .ok ps => return Json.mkObj [("probs", Json.arr (ps.map fun
        | none => Json.null
        | some q => ratToJson q).toArray)]
  | "iterate" =>
    let c ← scfgOfJson (← j.getObjVal? "cfg")
    let its ← (← arrOf j "its").toList.mapM (iterOfJson c.params.length)
    let fixed ← boolOf j "fixed"
    match (← strOf j "kind") with
    | "samples" =>
      match samplesIterate fixed c (← optNat j "max_shots") (← optNat j "max_samples") its with
      | .error e => return Json.mkObj [("raise", .str e)]
      | .ok (calls, cf) =>
        return Json.mkObj [("calls", Json.arr (calls.map scfgJson).toArray), ("final", scfgJson cf)]
    | "probs" =>
      let (calls, cf) := probsIterate fixed c (← optNat j "max_shots") its
      return Json.mkObj [("calls", Json.arr (calls.map scfgJson).toArray), ("final", scfgJson cf)]
    | k => throw s!"bad kind {k}"
  | "job" =>
    let c ← scfgOfJson (← j.getObjVal? "cfg")
    let its ← (← arrOf j "its").toList.mapM (iterOfJson c.params.length)
    let avail ← (← arrOf j "avail").toList.mapM fun e => do cmdOf (← e.getStr?)
    let method ← cmdOf (← strOf j "method")
    let args ← (← arrOf j "args").toList.mapM optNatVal
    let kwj ← j.getObjVal? "kw"
    let kw : Kw := ⟨← entryOf kwj "ms", ← entryOf kwj "sh", ← boolOf kwj "other"⟩
    let prim := match primitiveOf avail method with
      | none => Json.null
      | some p => Json.str (cmdStr p)
    match jobPlan avail method c its args kw with
    | .error e => return Json.mkObj [("raise", .str e), ("prim", prim)]
    | .ok pl =>
      return Json.mkObj [("prim", prim), ("converts", toJson pl.converts),
        ("call", match pl.call with
          | none => Json.null
          | some cl => callJson cl),
        ("calls", Json.arr (pl.iterCalls.map scfgJson).toArray),
        ("final", match pl.final with
          | none => Json.null
          | some cf => scfgJson cf),
        ("conv", Json.arr (pl.conv.map fun kv => Json.arr #[entryJson kv.1, entryJson kv.2]).toArray),
        ("takesKw", toJson (converterTakesKw method pl.prim)),
        ("convFails", toJson (pl.conv.any (convFails method pl.prim))),
        ("count", Json.arr (pl.conv.map fun kv => match convertedCount kv with
          | .ok n => toJson n
          | .error e => Json.str e).toArray)]
  | "provconst" =>
    let n ← natOf j "n"
    return Json.mkObj [("ceilTenth", toJson ((List.range (n + 1)).map ceilTenth)),
      ("grow", toJson ((List.range (n + 1)).map grow))]
  | _ => throw s!"unknown op {op}"

def handle (j : Json) : Json :=
  match handleReq j with
  | .ok r => r
  | .error e => errJson e

def main : IO Unit := run handle
