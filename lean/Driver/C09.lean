import PercevalModel.Proto
import PercevalModel.Model.C09

open Lean PM PM.Proto PM.C09

/-- optional natural: JSON `null` = Python `None` -/
def optNat (j : Json) (k : String) : Except String (Option Nat) := do
  let v ← j.getObjVal? k
  match v with
  | .null => return none
  | _ => return some (← v.getNat?)

def ratList (j : Json) : Except String (List Rat) := do
  (← j.getArr?).toList.mapM ratOfJson

def outcomeOf (s : String) : Except String Outcome :=
  match s with
  | "p" => .ok .phys
  | "l" => .ok .logic
  | "s" => .ok .sel
  | _ => .error s!"bad outcome {s}"

def shotOf (j : Json) : Except String Shot := do
  match j with
  | .arr #[c, b, o] => return ⟨← c.getBool?, ← b.getNat?, ← outcomeOf (← o.getStr?)⟩
  | _ => throw "bad shot"

def shotsOf (j : Json) (k : String) : Except String (List Shot) := do
  (← arrOf j k).toList.mapM shotOf

def optNatJson : Option Nat → Json
  | none => .null
  | some n => toJson n

def haltJson : Option Halt → Json
  | none => .null
  | some .cancel => .str "cancel"
  | some .exhausted => .str "exhausted"

def stJson (c : Cfg) (s : St) : Json :=
  Json.mkObj [("out", toJson s.out), ("shots", toJson s.shots), ("notSel", toJson s.notSel),
    ("notSelPhys", toJson s.notSelPhys), ("idx", toJson s.idx), ("batchLen", toJson s.batchLen),
    ("halt", haltJson s.halt), ("stopped", toJson (stopped c s)),
    ("phys", ratToJson (perf s).1), ("logical", ratToJson (perf s).2)]

/-- per-iteration trace of the loop the pipeline runs (same configuration as `samplesPipeline`):
for every iteration that entered the loop body `[len(output) before, nb_gen asked or null]`, plus
the size asked for the first batch. -/
def pipelineTrace (i : SamplesIn) (ops : List Shot) : Except String Json := do
  match computeSamples i.maxSamples i.maxShots with
  | .ok (some (p + 1)) =>
    match computeSamplesWithPerf i.filter (p + 1) i.prePerf i.zpp i.maxShots, i.maxSamples with
    | .ok (p' + 1, sh'), some ms =>
      let c : Cfg := ⟨ms, sh', i.hasCallback⟩
      let rec go (s : St) (ops : List Shot) (acc : Array Json) : Array Json × St :=
        match ops with
        | [] => (acc, s)
        | op :: rest =>
          let (s', ev) := step c s op
          go s' rest (if ev.ran then acc.push (Json.arr #[toJson s.out, optNatJson ev.asked]) else acc)
      let (tr, sEnd) := go (init (i.firstBatch (p' + 1))) ops #[]
      if sEnd ≠ loop c (i.firstBatch (p' + 1)) ops then throw "driver inconsistency"
      return Json.mkObj [("prepare", toJson (p' + 1)), ("iters", Json.arr tr),
        ("stopped", toJson (stopped c sEnd)), ("shotsLimit", optNatJson sh')]
    | _, _ => return Json.null
  | _ => return Json.null

def handleReq (j : Json) : Except String Json := do
  let op ← strOf j "op"
  match op with
  | "deduce" =>
    match deduceCount (← optNat j "count") (← optNat j "max_shots") (← optNat j "max_samples") with
    | .ok n => return Json.mkObj [("ok", toJson n)]
    | .error e => return Json.mkObj [("raise", .str e)]
  | "cs" =>
    match computeSamples (← optNat j "ms") (← optNat j "sh") with
    | .ok n => return Json.mkObj [("ok", optNatJson n)]
    | .error e => return Json.mkObj [("raise", .str e)]
  | "cswp" =>
    let pp ← ratOfJson (← j.getObjVal? "pp")
    let zpp ← ratOfJson (← j.getObjVal? "zpp")
    if pp < 0 ∨ 1 < zpp ∨ zpp < 0 then throw "domain"
    match computeSamplesWithPerf (← natOf j "filter") (← natOf j "prepare") pp zpp (← optNat j "sh") with
    | .ok (p, sh) => return Json.mkObj [("prepare", toJson p), ("sh", optNatJson sh)]
    | .error "domain" => throw "domain"
    | .error e => return Json.mkObj [("raise", .str e)]
  | "perfect" =>
    let n ← natOf j "n"
    let (a, l) := perfectLoop n n 0
    return Json.mkObj [("acquired", toJson a), ("requests", toJson l)]
  | "loop" =>
    let c : Cfg := ⟨← natOf j "ms", ← optNat j "sh", ← boolOf j "cb"⟩
    let first ← natOf j "first"
    let ops ← shotsOf j "ops"
    let (s, evs) := PM.SM.run (step c) (init first) ops
    return Json.mkObj [("state", stJson c s),
      ("asked", Json.arr (evs.map fun e => optNatJson e.asked).toArray),
      ("ran", Json.arr (evs.map fun e => toJson e.ran).toArray)]
  | "pipeline" =>
    let pre ← ratOfJson (← j.getObjVal? "pre")
    let zpp ← ratOfJson (← j.getObjVal? "zpp")
    if pre < 0 ∨ 1 < zpp ∨ zpp < 0 then throw "domain"
    let src ← boolOf j "source"
    -- length of the first batch: `null` = what the code asks for (source) / nothing (distribution);
    -- a number = what a scripted source hands back whatever it is asked
    let firstOv ← optNat j "first"
    let fb : Nat → Nat := fun n => match firstOv with
      | some k => k
      | none => if src then n else 0
    let i : SamplesIn := ⟨← optNat j "ms", ← optNat j "sh", ← natOf j "filter", pre, zpp, fb, ← boolOf j "cb"⟩
    let ops ← shotsOf j "ops"
    match samplesPipeline i ops with
    | .error "domain" => throw "domain"
    | .error "unreachable" => throw "unreachable"
    | .error e =>
      -- the requests made before the failure are still observable
      return Json.mkObj [("raise", .str e), ("trace", ← pipelineTrace i ops)]
    | .result n ph lg st =>
      let extra ← match st with
        | none => pure [("loop", Json.null)]
        | some s => do
          let tr ← pipelineTrace i ops
          pure [("loop", Json.mkObj [("shots", toJson s.shots), ("halt", haltJson s.halt),
            ("notSel", toJson s.notSel), ("notSelPhys", toJson s.notSelPhys)]), ("trace", tr)]
      return Json.mkObj ([("n", toJson n), ("phys", ratToJson ph), ("logical", ratToJson lg)] ++ extra)
  | "p2sc" =>
    let ps ← ratList (← j.getObjVal? "ps")
    let ns ← ratList (← j.getObjVal? "ns")
    if ps.any (fun p => p < 0 ∨ 1 < p) then throw "domain"
    let fb ← natList (← j.getObjVal? "fb")
    if fb.any (fun i => ps.length ≤ i) then throw "domain"
    match probsToSampleCount ps ns (← natOf j "count") (← natList (← j.getObjVal? "picks")) fb with
    | .empty => return Json.mkObj [("kind", "empty")]
    | .needPicks => return Json.mkObj [("kind", "needPicks")]
    | .bad w => throw w
    | .done via cs => return Json.mkObj [("kind", "done"), ("fallback", toJson via), ("counts", toJson cs)]
  | "count" =>
    let n ← natOf j "n"
    let samples ← natList (← j.getObjVal? "samples")
    if samples.any (fun i => n ≤ i) then throw "domain"
    return Json.mkObj [("counts", toJson (countOf n samples))]
  | "c2p" =>
    let cs ← intList (← j.getObjVal? "counts")
    match countsToProbs cs with
    | .error e => return Json.mkObj [("raise", .str e)]
    | .ok ps => return Json.mkObj [("probs", Json.arr (ps.map fun
        | none => Json.null
        | some q => ratToJson q).toArray)]
  | _ => throw s!"unknown op {op}"

def handle (j : Json) : Json :=
  match handleReq j with
  | .ok r => r
  | .error e => errJson e

def main : IO Unit := run handle
