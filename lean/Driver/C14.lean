import PercevalModel.Proto
import PercevalModel.Model.C14
import PercevalModel.Model.C14Life
import PercevalModel.Model.C14Sym
import PercevalModel.Model.C14Refl
import Std.Data.HashMap

/-!
  C14 driver.  One JSON request per line:

  {"op":"bs","conv":"Rx|Ry|H","h":[c,s],"tl":[c,s],"bl":[c,s],"tr":[c,s],"br":[c,s]}
  {"op":"ps","phi":[c,s]}   {"op":"wp","d":[c,s],"x":[c,s]}   {"op":"pr","d":[c,s]}
      (c,s) = exact rational (cos,sin); rejected unless c²+s²=1; an angle may also be {"raw":[c,s]}
      (doubles as dyadic rationals, no unit-circle check; "unitary" is then meaningless)
      -> {"U":rows (numeric branch),"sym":numeric branch = symbolic branch,"unitary":bool}
  {"op":"wrap","periodic":b,"lo":q|null,"hi":q|null,"v":q}
      -> {"exact":q|null,"fix64":q|null,"cur64":q|null}      (null = ValueError)
  {"op":"perm","l":[ints]} -> {"err":"AssertionError"} | {"U":rows,"vec":[..],"sends":[..],"unitary":b}
  {"op":"expr","params":[{"name":s,"lo":q|null,"hi":q|null,"periodic":b,"val":q|null}],
   "slots":[ast],"hist":[[name,q]]}
      -> {"vals":[[q|null per slot] initially and after every call],"acc":[q|null per call]}
  {"op":"life","ops":[…]}   the Parameter lifecycle (`Model/C14Life.lean`), one session:
      {"k":"new","x":name,"val":q|null,"lo":q|null,"hi":q|null,"periodic":b}      Parameter(...)
      {"k":"set","x":name,"v":q,"force":b} {"k":"fix","x":name,"v":q} {"k":"reset","x":name} {"k":"per","x":name,"b":b}
      {"k":"mk","c":cid,"slots":[{"lo":q,"hi":q,"dflt":q|null,"num":q,"key":s} | {"lo":q,"hi":q,"dflt":q|null,"ref":name}]}
          a constructor: one `_set_parameter` per slot, in order
      {"k":"assign","c":cid,"kv":[[name,q]][,"fwd":false]}  ("fwd": false = BS.compute_unitary(assign=…), ignored)
      {"k":"resetall","c":cid}  {"k":"copy","c":cid} (observation only)
      -> {"cur":R,"fix":R}  (pinned / repaired `_set_parameter`), R = {"out":[null|class|copy report per op],
         "snaps":[after every op {"params":{name:[lo,hi,periodic,variable,value]},
                                   "comps":{cid:{"vars":[..],"defined":b,"getvars":[null|"name"|q per slot]}}}]}
  {"op":"pbs"} -> {"U":rows,"unitary":b}
  {"op":"refl","pi":q,"table":[...],"items":[item]}   reflectivity helpers (`Model/C14Refl.lean`)
      item = {"f":"mod","conv":..,"h":[c,s],"tl":..,"bl":..,"tr":..,"br":..} -> {"mod":[[|U00|²,|U01|²],[|U10|²,|U11|²]],"r":cos²(θ/2)}
           | {"f":"t2r"|"r2t","num":q,"env":[]} | {"f":"t2r"|"r2t","e":ast,"own":q|null,"env":[[name,q]]}
                -> {"num":q|null} | {"expr":value at env q|null,"free":[names]}
      -> {"out":[per item],"missing":[[fn,arg]]}
  {"op":"xsess", ...}   Expression objects and the symbolic branch (`Model/C14Expr.lean`, `Model/C14Sym.lean`):
      "pi":q, "table":[[fn,arg,res|null]]      the values of math.sin/cos/exp/sqrt/acos the harness supplies (null:
                                               not a real number); anything the model needs and does not find is
                                               listed in the reply ("missing") and asked again
      "ops":[ {"k":"new"|"set"|"fix"|"reset"|"per", …}          raw parameters, as in "life"
              {"k":"bind","x":name,"lo":q,"hi":q}                 `_set_parameter` of one slot on a raw parameter
              {"k":"assign","keys":[…],"kv":[[name,q]]}
              {"k":"xnew","id":s,"e":ast}                         Expression(...) / an overloaded operator
              {"k":"xset","id":s,"v":q,"force":b} {"k":"xfix","id":s,"v":q} {"k":"xreset","id":s}
              {"k":"xper","id":s,"b":b} {"k":"xbind","id":s,"lo":q,"hi":q} ]
      ast = {"v":name} | {"c":q} | {"pi":1} | {"op":"add|sub|mul|div","a":ast,"b":ast} | {"op":"neg","a":ast}
            | {"op":"pow","a":ast,"n":int} | {"op":"fn","f":"sin|cos|exp|sqrt|acos","a":ast}
      "comps":[{"c":cid,"kind":"BS|PS|WP|HWP|QWP|PR","conv":…,"from":i,"slots":[{"par":key}|{"ex":id}|{"lit":ast}]}]
      "symat":[step indices], "points":[{name:q}]   (symbolic matrices at the current values / at the points, last step)
      -> {"out":[null|class per op], "missing":[[fn,arg]],
          "steps":[{"params":{name:par5},"objs":{id:[lo,hi,_periodic,symbol,value,defined]},
                    "comps":{cid:{"reads":[q|{"e":class} per slot],"sym":rows|absent}}}],
          "final":{cid:{"free":[names],"pts":[rows per point]}}}      (an entry that is not a number is null)
-/

open Lean PM PM.Proto PM.C14

/-- `[c,s]`: exact point of the unit circle (rejected otherwise); `{"raw":[c,s]}`: the pair of doubles
`(math.cos x, math.sin x)` the implementation holds, taken as the dyadic rationals they are (the model
is polynomial in `c, s`, so it is evaluated exactly on these numbers; no unit-circle check). -/
def angOf (j : Json) (k : String) : Except String (Ang GQ) := do
  match ← j.getObjVal? k with
  | .arr #[a, b] =>
    let c ← ratOfJson a
    let s ← ratOfJson b
    if c * c + s * s ≠ 1 then throw "not-unit" else return ⟨⟨c, 0⟩, ⟨s, 0⟩⟩
  | v@(.obj _) =>
    match v.getObjVal? "raw" with
    | .ok (.arr #[a, b]) => return ⟨⟨← ratOfJson a, 0⟩, ⟨← ratOfJson b, 0⟩⟩
    | _ => throw "expected {raw:[cos,sin]}"
  | _ => throw "expected [cos,sin]"

def convOf (s : String) : Except String Conv :=
  match s with
  | "Rx" => .ok .Rx
  | "Ry" => .ok .Ry
  | "H" => .ok .H
  | _ => .error "NotImplementedError"

def rowsOf {n : ℕ} (M : Matrix (Fin n) (Fin n) GQ) : Json :=
  rowsToJson ((Array.ofFn fun i : Fin n => Array.ofFn fun j : Fin n => M i j))

def unitaryB {n : ℕ} (M : Matrix (Fin n) (Fin n) GQ) : Bool :=
  decide (M * M.conjTranspose = 1 ∧ M.conjTranspose * M = 1)

def matReply {n : ℕ} (num sym : Matrix (Fin n) (Fin n) GQ) : Json :=
  Json.mkObj [("U", rowsOf num), ("sym", toJson (decide (num = sym))), ("unitary", toJson (unitaryB num))]

def optRatOf (j : Json) (k : String) : Except String (Option ℚ) := do
  match j.getObjVal? k with
  | .ok .null => return none
  | .ok v => return some (← ratOfJson v)
  | .error _ => throw s!"missing {k}"

def optRatToJson : Option ℚ → Json
  | none => .null
  | some q => ratToJson q

partial def exprOf (j : Json) : Except String C14.Expr := do
  if let .ok (.str x) := j.getObjVal? "v" then return .var x
  if let .ok c := j.getObjVal? "c" then return .const (← ratOfJson c)
  let op ← strOf j "op"
  let a ← exprOf (← j.getObjVal? "a")
  match op with
  | "neg" => return .neg a
  | "pow" => return .pow a (← natOf j "n")
  | _ =>
    let b ← exprOf (← j.getObjVal? "b")
    match op with
    | "add" => return .add a b
    | "sub" => return .sub a b
    | "mul" => return .mul a b
    | "div" => return .div a b
    | _ => throw s!"bad op {op}"

/-! ### lifecycle sessions -/

structure LifeComp where
  cid : String
  keys : List String
  dflts : List (Option ℚ)

structure LifeSt where
  st : LStore := fun _ => none
  names : Array String := #[]
  comps : Array LifeComp := #[]

def parToJson (p : Par) : Json :=
  Json.arr #[optRatToJson p.lo, optRatToJson p.hi, toJson p.periodic, toJson p.sym, optRatToJson p.val]

def excToJson : Option Exc → Json
  | none => .null
  | some e => .str e.name

def lifeSnap (s : LifeSt) : Json :=
  let ps := s.names.toList.filterMap fun n => (s.st n).map fun p => (n, parToJson p)
  let cs := s.comps.toList.map fun c =>
    let gv := (c.keys.zip c.dflts).map fun (k, d) =>
      match s.st k with
      | none => Json.str "?"
      | some p => match populate p d with
        | none => Json.null
        | some (.inl _) => Json.str "name"
        | some (.inr v) => ratToJson v
    (c.cid, Json.mkObj [("vars", toJson (vars s.st c.keys).eraseDups), ("defined", toJson (compDefined s.st c.keys)),
      ("getvars", Json.arr gv.toArray)])
  Json.mkObj [("params", Json.mkObj ps), ("comps", Json.mkObj cs)]

def findComp (s : LifeSt) (cid : String) : Except String LifeComp :=
  match s.comps.toList.find? (·.cid == cid) with
  | some c => .ok c
  | none => .error s!"unknown component {cid}"

/-- run session operations until one raises -/
def runStop (sound : Bool) (st : LStore) : List SOp → LStore × Option Exc
  | [] => (st, none)
  | op :: rest =>
    match sstep sound st op with
    | (st', none) => runStop sound st' rest
    | (st', some e) => (st', some e)

def lifeOp (sound : Bool) (s : LifeSt) (j : Json) : Except String (LifeSt × Json) := do
  let k ← strOf j "k"
  let reg (s : LifeSt) (x : String) : LifeSt := if s.names.contains x then s else { s with names := s.names.push x }
  match k with
  | "new" =>
    let x ← strOf j "x"
    let (st', o) := sstep sound s.st (.new x (← optRatOf j "val") (← optRatOf j "lo") (← optRatOf j "hi") (← boolOf j "periodic"))
    return (reg { s with st := st' } x, excToJson o)
  | "set" =>
    let (st', o) := sstep sound s.st (.par (← strOf j "x") (.set (← ratOfJson (← j.getObjVal? "v")) (← boolOf j "force")))
    return ({ s with st := st' }, excToJson o)
  | "fix" =>
    let (st', o) := sstep sound s.st (.par (← strOf j "x") (.fix (← ratOfJson (← j.getObjVal? "v"))))
    return ({ s with st := st' }, excToJson o)
  | "reset" =>
    let (st', o) := sstep sound s.st (.par (← strOf j "x") .reset)
    return ({ s with st := st' }, excToJson o)
  | "per" =>
    let (st', o) := sstep sound s.st (.par (← strOf j "x") (.setPeriodic (← boolOf j "b")))
    return ({ s with st := st' }, excToJson o)
  | "mk" =>
    let cid ← strOf j "c"
    let mut ops : List SOp := []
    let mut keys : List String := []
    let mut dflts : List (Option ℚ) := []
    let mut s1 := s
    for sl in ← arrOf j "slots" do
      let lo ← ratOfJson (← sl.getObjVal? "lo")
      let hi ← ratOfJson (← sl.getObjVal? "hi")
      let arg ← match sl.getObjVal? "ref" with
        | .ok (.str x) => pure (Arg.ref x)
        | _ => do pure (Arg.num (← strOf sl "key") (← ratOfJson (← sl.getObjVal? "num")))
      ops := ops ++ [slotOp lo hi arg]
      keys := keys ++ [arg.key]
      dflts := dflts ++ [← optRatOf sl "dflt"]
      s1 := reg s1 arg.key
    let (st', o) := runStop sound s.st ops
    return ({ s1 with st := st', comps := s1.comps.push ⟨cid, keys, dflts⟩ }, excToJson o)
  | "assign" =>
    let c ← findComp s (← strOf j "c")
    let kv ← (← arrOf j "kv").toList.mapM fun e => do
      match e with
      | .arr #[.str x, v] => return (x, ← ratOfJson v)
      | _ => throw "bad assign entry"
    let fwd := (j.getObjValAs? Bool "fwd").toOption.getD true
    let (st', o) := computeAssign sound fwd s.st c.keys kv
    return ({ s with st := st' }, excToJson o)
  | "resetall" =>
    let c ← findComp s (← strOf j "c")
    let (st', o) := runStop sound s.st (c.keys.map fun k => .par k .reset)
    return ({ s with st := st' }, excToJson o)
  | "copy" =>
    let c ← findComp s (← strOf j "c")
    let rep := c.keys.map fun k =>
      match s.st k with
      | none => Json.str "?"
      | some p => match p.copy with
        | .inl e => Json.str e.name
        | .inr q => parToJson q
    return (s, Json.arr rep.toArray)
  | _ => throw s!"bad lifecycle op {k}"

def lifeRun (sound : Bool) (ops : Array Json) : Except String Json := do
  let mut s : LifeSt := {}
  let mut outs : Array Json := #[]
  let mut snaps : Array Json := #[]
  for j in ops do
    let (s', o) ← lifeOp sound s j
    s := s'
    outs := outs.push o
    snaps := snaps.push (lifeSnap s)
  return Json.mkObj [("out", Json.arr outs), ("snaps", Json.arr snaps)]

/-! ### sessions with Expression objects; the symbolic branch -/

def fnOf (s : String) : Except String Fn1 :=
  match s with
  | "sin" => .ok .sin
  | "cos" => .ok .cos
  | "exp" => .ok .exp
  | "sqrt" => .ok .sqrt
  | "acos" => .ok .acos
  | _ => .error s!"unknown function {s}"

def PM.C14.Fn1.str : Fn1 → String
  | .sin => "sin" | .cos => "cos" | .exp => "exp" | .sqrt => "sqrt" | .acos => "acos"

partial def xexprOf (j : Json) : Except String XExpr := do
  if let .ok (.str x) := j.getObjVal? "v" then return .var x
  if let .ok c := j.getObjVal? "c" then return .const (← ratOfJson c)
  if let .ok _ := j.getObjVal? "pi" then return .pi
  let op ← strOf j "op"
  let a ← xexprOf (← j.getObjVal? "a")
  match op with
  | "neg" => return .neg a
  | "pow" => return .powi a (← intOf j "n")
  | "fn" => return .app (← fnOf (← strOf j "f")) a
  | _ =>
    let b ← xexprOf (← j.getObjVal? "b")
    match op with
    | "add" => return .add a b
    | "sub" => return .sub a b
    | "mul" => return .mul a b
    | "div" => return .div a b
    | _ => throw s!"bad op {op}"

/-- the function table supplied by the harness: key `fn:arg` -/
abbrev FTable := Std.HashMap String (Option ℚ)

def fkey (f : Fn1) (x : ℚ) : String := f.str ++ ":" ++ (if x.den = 1 then s!"{x.num}" else s!"{x.num}/{x.den}")

def tableInterp (pi : ℚ) (t : FTable) : Interp ℚ :=
  { pi := pi, fn := fun f x => match t.get? (fkey f x) with
      | some r => r
      | none => none }

def tableOf (j : Json) : Except String FTable := do
  let mut t : FTable := {}
  for e in ← arrOf j "table" do
    match e with
    | .arr #[.str f, a, r] =>
      let f ← fnOf f
      let a ← ratOfJson a
      let r ← match r with
        | .null => pure none
        | v => do pure (some (← ratOfJson v))
      t := t.insert (fkey f a) r
    | _ => throw "bad table entry"
  return t

/-- function applications whose argument evaluates but whose value the table does not hold -/
def xneeds (I : Interp ℚ) (t : FTable) (env : String → Option ℚ) : XExpr → List (Fn1 × ℚ)
  | .var _ | .const _ | .pi => []
  | .add a b | .sub a b | .mul a b | .div a b => xneeds I t env a ++ xneeds I t env b
  | .powi a _ | .neg a => xneeds I t env a
  | .app f a => xneeds I t env a ++
      (match a.eval I env with
        | some x => if t.contains (fkey f x) then [] else [(f, x)]
        | none => [])

def cneeds (I : Interp ℚ) (t : FTable) (env : String → Option ℚ) : CExpr → List (Fn1 × ℚ)
  | .re a => xneeds I t env a
  | .I => []
  | .expI a => xneeds I t env a ++
      (match a.eval I env with
        | some x => (if t.contains (fkey .cos x) then [] else [(Fn1.cos, x)]) ++
                    (if t.contains (fkey .sin x) then [] else [(Fn1.sin, x)])
        | none => [])
  | .add a b | .sub a b | .mul a b => cneeds I t env a ++ cneeds I t env b
  | .neg a => cneeds I t env a

def rowsC {n : ℕ} (M : Matrix (Fin n) (Fin n) CExpr) : Array (Array CExpr) :=
  Array.ofFn fun i : Fin n => Array.ofFn fun j : Fin n => M i j

/-- the symbolic matrix of a leaf from the `spv` of its slots (constructor order) -/
def symRows (kind : String) (conv : String) (sp : List XExpr) : Except String (Array (Array CExpr)) :=
  match kind, sp with
  | "BS", [θ, tl, bl, tr, br] => do return rowsC (symBS (← convOf conv) θ tl bl tr br)
  | "PS", [φ] => return rowsC (symPS φ)
  | "WP", [d, x] => return rowsC (symWP d x)
  | "HWP", [x] => return rowsC (symHWP x)
  | "QWP", [x] => return rowsC (symQWP x)
  | "PR", [d] => return rowsC (symPR d)
  | _, _ => throw s!"bad component {kind}/{sp.length}"

structure XComp where
  cid : String
  kind : String
  conv : String
  frm : ℕ
  slots : List SlotRef

def slotRefOf (j : Json) : Except String SlotRef := do
  if let .ok (.str k) := j.getObjVal? "par" then return .par k
  if let .ok (.str k) := j.getObjVal? "ex" then return .ex k
  if let .ok a := j.getObjVal? "lit" then return .lit (← xexprOf a)
  throw "bad slot reference"

def xopOf (j : Json) : Except String XOp := do
  let k ← strOf j "k"
  let rat (key : String) : Except String ℚ := do ratOfJson (← j.getObjVal? key)
  match k with
  | "new" => return .base (.new (← strOf j "x") (← optRatOf j "val") (← optRatOf j "lo") (← optRatOf j "hi") (← boolOf j "periodic"))
  | "set" => return .base (.par (← strOf j "x") (.set (← rat "v") (← boolOf j "force")))
  | "fix" => return .base (.par (← strOf j "x") (.fix (← rat "v")))
  | "reset" => return .base (.par (← strOf j "x") .reset)
  | "per" => return .base (.par (← strOf j "x") (.setPeriodic (← boolOf j "b")))
  | "bind" => return .base (.par (← strOf j "x") (.bind (some (← rat "lo")) (some (← rat "hi")) (some true)))
  | "assign" =>
    let keys ← (← arrOf j "keys").toList.mapM fun e => e.getStr?
    let kv ← (← arrOf j "kv").toList.mapM fun e => do
      match e with
      | .arr #[.str x, v] => return (x, ← ratOfJson v)
      | _ => throw "bad assign entry"
    return .base (.assign keys kv)
  | "xnew" => return .xnew (← strOf j "id") (← xexprOf (← j.getObjVal? "e"))
  | "xset" => return .xpar (← strOf j "id") (.set (← rat "v") (← boolOf j "force"))
  | "xfix" => return .xpar (← strOf j "id") (.fix (← rat "v"))
  | "xreset" => return .xpar (← strOf j "id") .reset
  | "xper" => return .xpar (← strOf j "id") (.setPeriodic (← boolOf j "b"))
  | "xbind" => return .xpar (← strOf j "id") (.bind (some (← rat "lo")) (some (← rat "hi")) (some true))
  | _ => throw s!"bad session op {k}"

def floatToJson : Exc ⊕ ℚ → Json
  | .inr v => ratToJson v
  | .inl e => Json.mkObj [("e", .str e.name)]

def centryToJson : Option GQ → Json
  | some z => gqToJson z
  | none => .null

def evalRows (I : Interp ℚ) (env : String → Option ℚ) (rows : Array (Array CExpr)) : Json :=
  .arr (rows.map fun r => .arr (r.map fun e => centryToJson (e.eval I GQ.ofRat GQ.I env)))

def needRows (I : Interp ℚ) (t : FTable) (env : String → Option ℚ) (rows : Array (Array CExpr)) : List (Fn1 × ℚ) :=
  rows.toList.flatMap fun r => r.toList.flatMap fun e => cneeds I t env e

def xsess (j : Json) : Except String Json := do
  let pi ← ratOfJson (← j.getObjVal? "pi")
  let t ← tableOf j
  let I := tableInterp pi t
  let ops ← (← arrOf j "ops").mapM xopOf
  let comps ← (← arrOf j "comps").toList.mapM fun c => do
    let slots ← (← arrOf c "slots").toList.mapM slotRefOf
    pure (⟨← strOf c "c", ← strOf c "kind", (c.getObjValAs? String "conv").toOption.getD "", ← natOf c "from", slots⟩ : XComp)
  let symat ← (← arrOf j "symat").toList.mapM fun e => e.getNat?
  let points ← (← arrOf j "points").toList.mapM fun pt => do
    match pt with
    | .obj kvs => kvs.toList.mapM fun (k, v) => do pure (k, ← ratOfJson v)
    | _ => throw "bad point"
  let mut s : XSt := (fun _ => none, fun _ => none)
  let mut names : Array String := #[]
  let mut ids : Array String := #[]
  let mut outs : Array Json := #[]
  let mut steps : Array Json := #[]
  let mut missing : List (Fn1 × ℚ) := []
  let mut i := 0
  for op in ops do
    let (s', o) := xstep true s op
    s := s'
    outs := outs.push (excToJson o)
    match op with
    | .base (.new x ..) => if !names.contains x then names := names.push x
    | .xnew id _ => if !ids.contains id then ids := ids.push id
    | _ => pure ()
    let env := LStore.env s.1
    let ps := names.toList.filterMap fun n => (s.1 n).map fun p => (n, parToJson p)
    let os := ids.toList.filterMap fun id => (s.2 id).map fun o =>
      (id, Json.arr #[optRatToJson o.par.lo, optRatToJson o.par.hi, toJson o.par.periodic, toJson o.par.sym,
        optRatToJson o.par.val, toJson (o.defined s.1)])
    let mut cs : List (String × Json) := []
    for c in comps do
      if c.frm ≤ i then
        let reads := c.slots.map fun r => floatToJson (slotFloat I s r)
        for r in c.slots do
          match r with
          | .ex id => match s.2 id with
            | some o => missing := missing ++ xneeds I t env o.e
            | none => pure ()
          | .lit e => missing := missing ++ xneeds I t env e
          | _ => pure ()
        let mut fields : List (String × Json) := [("reads", Json.arr reads.toArray)]
        if symat.contains i then
          match c.slots.mapM (slotSpv s) with
          | some sp =>
            let rows ← symRows c.kind c.conv sp
            missing := missing ++ needRows I t env rows
            fields := fields ++ [("sym", evalRows I env rows)]
          | none => pure ()
        cs := cs ++ [(c.cid, Json.mkObj fields)]
    steps := steps.push (Json.mkObj [("params", Json.mkObj ps), ("objs", Json.mkObj os), ("comps", Json.mkObj cs)])
    i := i + 1
  -- last state: free symbols and the symbolic matrices at the points
  let mut fin : List (String × Json) := []
  for c in comps do
    if c.frm < i then
      match c.slots.mapM (slotSpv s) with
      | some sp =>
        let rows ← symRows c.kind c.conv sp
        let free := (sp.flatMap XExpr.vars).eraseDups
        let mut pts : Array Json := #[]
        for pt in points do
          let env : String → Option ℚ := fun x => (pt.find? (·.1 == x)).map (·.2)
          missing := missing ++ needRows I t env rows
          pts := pts.push (evalRows I env rows)
        fin := fin ++ [(c.cid, Json.mkObj [("free", toJson free), ("pts", Json.arr pts)])]
      | none => pure ()
  let miss := missing.eraseDups.map fun (f, x) => Json.arr #[.str f.str, ratToJson x]
  return Json.mkObj [("out", Json.arr outs), ("steps", Json.arr steps), ("final", Json.mkObj fin),
    ("missing", Json.arr miss.toArray)]

/-! ### reflectivity helpers (`Model/C14Refl.lean`) -/

/-- function applications the numeric forms `math.cos(v/2)**2` / `2*math.acos(math.sqrt(v))` need and the table
does not hold -/
def numNeeds (t : FTable) (f : String) (v : ℚ) : List (Fn1 × ℚ) :=
  if f = "t2r" then (if t.contains (fkey .cos (v / 2)) then [] else [(.cos, v / 2)])
  else match t.get? (fkey .sqrt v) with
    | none => [(.sqrt, v)]
    | some none => []
    | some (some s) => if t.contains (fkey .acos s) then [] else [(.acos, s)]

def reflOutToJson (I : Interp ℚ) (env : String → Option ℚ) : ReflOut ℚ → Json
  | .num v => Json.mkObj [("num", optRatToJson v)]
  | .expr e => Json.mkObj [("expr", optRatToJson (e.eval I env)), ("free", toJson e.vars.eraseDups)]

def reflOp (j : Json) : Except String Json := do
  let pi ← ratOfJson (← j.getObjVal? "pi")
  let t ← tableOf j
  let I := tableInterp pi t
  let mut outs : Array Json := #[]
  let mut missing : List (Fn1 × ℚ) := []
  for it in ← arrOf j "items" do
    let f ← strOf it "f"
    if f = "mod" then
      let conv ← convOf (← strOf it "conv")
      let h ← angOf it "h"
      let M := bsNum GQ.I conv h (← angOf it "tl") (← angOf it "bl") (← angOf it "tr") (← angOf it "br")
      let row := fun (i : Fin 2) => Json.arr #[ratToJson (GQ.normSq (M i 0)), ratToJson (GQ.normSq (M i 1))]
      outs := outs.push (Json.mkObj [("mod", Json.arr #[row 0, row 1]), ("r", ratToJson (reflOfAng h).re)])
    else
      if f ≠ "t2r" ∧ f ≠ "r2t" then throw s!"bad f {f}"
      let envl ← (← arrOf it "env").toList.mapM fun e => do
        match e with
        | .arr #[.str x, v] => pure (x, ← ratOfJson v)
        | _ => throw "bad env entry"
      let env : String → Option ℚ := fun x => (envl.find? (·.1 = x)).map (·.2)
      let arg : ReflArg ℚ ← match it.getObjVal? "num" with
        | .ok v => do pure (ReflArg.num (← ratOfJson v))
        | .error _ => do pure (ReflArg.par (← xexprOf (← it.getObjVal? "e")) (← optRatOf it "own"))
      let out := if f = "t2r" then thetaToR I arg else rToTheta I arg
      match out, arg with
      | .expr e, _ => missing := missing ++ xneeds I t env e
      | .num _, .num v => missing := missing ++ numNeeds t f v
      | .num _, .par _ (some v) => missing := missing ++ numNeeds t f v
      | .num _, .par _ none => pure ()
      outs := outs.push (reflOutToJson I env out)
  let miss := missing.eraseDups.map fun (f, x) => Json.arr #[.str f.str, ratToJson x]
  return Json.mkObj [("out", Json.arr outs), ("missing", Json.arr miss.toArray)]

def handleReq (j : Json) : Except String Json := do
  let op ← strOf j "op"
  match op with
  | "bs" =>
    let conv ← convOf (← strOf j "conv")
    let h ← angOf j "h"
    let tl ← angOf j "tl"
    let bl ← angOf j "bl"
    let tr ← angOf j "tr"
    let br ← angOf j "br"
    return matReply (bsNum GQ.I conv h tl bl tr br)
      (bs GQ.I conv h.c h.s (tl.cis GQ.I) (bl.cis GQ.I) (tr.cis GQ.I) (br.cis GQ.I))
  | "ps" =>
    let a ← angOf j "phi"
    return matReply (psNum GQ.I a) (ps (a.cis GQ.I))
  | "wp" =>
    let d ← angOf j "d"
    let x ← angOf j "x"
    return matReply (wp GQ.I d x) (wp GQ.I d x)
  | "pr" =>
    let d ← angOf j "d"
    return matReply (pr d) (pr d)
  | "wrap" =>
    let periodic ← boolOf j "periodic"
    let lo ← optRatOf j "lo"
    let hi ← optRatOf j "hi"
    let v ← ratOfJson (← j.getObjVal? "v")
    return Json.mkObj [("exact", optRatToJson (wrap periodic lo hi v)),
      ("fix64", optRatToJson (wrapFixed fl64 periodic lo hi v)),
      ("cur64", optRatToJson (wrapCurrent fl64 periodic lo hi v))]
  | "perm" =>
    let l ← intList (← j.getObjVal? "l")
    if !permOk l then throw "AssertionError"
    let σ := permFun l
    let M : Matrix (Fin l.length) (Fin l.length) GQ := permMat σ
    let sends := (List.finRange l.length).map fun k =>
      -- image of the basis vector e_k: index of the (unique) non-zero coordinate of M e_k
      let col := (List.finRange l.length).filter fun r => (M.mulVec (Pi.single k 1)) r ≠ 0
      toJson (col.map (·.val))
    return Json.mkObj [("U", rowsOf M), ("vec", toJson (permVector M)), ("sends", Json.arr sends.toArray),
      ("unitary", toJson (unitaryB M))]
  | "expr" =>
    let ps ← arrOf j "params"
    let mut st : Store := fun _ => none
    for p in ps do
      let name ← strOf p "name"
      let info : PInfo := ⟨← optRatOf p "lo", ← optRatOf p "hi", ← boolOf p "periodic", ← optRatOf p "val"⟩
      st := Function.update st name (some info)
    let slots ← (← arrOf j "slots").mapM exprOf
    let hist ← (← arrOf j "hist").mapM fun h => do
      match h with
      | .arr #[.str x, v] => return (x, ← ratOfJson v)
      | _ => throw "bad history entry"
    let mut vals : Array Json := #[Json.arr (slots.map fun e => optRatToJson (slotValue e st))]
    let mut acc : Array Json := #[]
    for (x, v) in hist do
      acc := acc.push (optRatToJson (st.accepts x v))
      st := st.set x v
      vals := vals.push (Json.arr (slots.map fun e => optRatToJson (slotValue e st)))
    return Json.mkObj [("vals", Json.arr vals), ("acc", Json.arr acc)]
  | "life" =>
    let ops ← arrOf j "ops"
    return Json.mkObj [("cur", ← lifeRun false ops), ("fix", ← lifeRun true ops)]
  | "pbs" =>
    let M : Matrix (Fin 4) (Fin 4) GQ := pbs
    return Json.mkObj [("U", rowsOf M), ("unitary", toJson (unitaryB M))]
  | "xsess" => xsess j
  | "refl" => reflOp j
  | _ => throw s!"unknown op {op}"

def handle (j : Json) : Json :=
  match handleReq j with
  | .ok r => r
  | .error e => errJson e

def main : IO Unit := run handle
