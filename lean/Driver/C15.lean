import PercevalModel.Proto
import PercevalModel.Model.C15
import PercevalModel.Model.C15FF
import PercevalModel.Model.C15Text
import PercevalModel.Model.C15PS
import PercevalModel.Model.C15PSW
import PercevalModel.Model.C15Tree
import PercevalModel.Model.C15F32
import PercevalModel.Model.C15Det
import PercevalModel.Model.C15Noise

/-!
  Line protocol for C15 (model: `Model/C15.lean`).  Every request carries
  `"cfg": [unitaryFields, filterZero, keepEmptyTable, exprFix]` (four booleans) and, where an
  `Expression` whose sub-parameters all have a value may occur, `"evs": [[expr, "num/den"], …]`
  (`float(expression)` as computed by sympy — external).

  ops (object syntax = the model's abstract syntax, message syntax = canonical field dump):
  * `circuit`    {obj}            → {enc, dec|null, allocs, eq}     `serialize_circuit` / `deserialize_circuit`
  * `component`  {obj}            → {enc, dec|null}                 `serialize_component` / `deserialize_component`
  * `decpb`      {pb, n, top}     → {dec|null}                      reader on an arbitrary message
  * `experiment` {obj}            → {enc, dec|null, allocs, eq}
  * `decexp`     {pb}             → {dec|null}
  * `det` / `port` / `noise` / `mat` {obj[, asfound]} → {enc, dec|null};  `kw` {tag} → {accepted, accepted_as_found, known};  `decdet` / `decport` / `decmat` {pb} → {dec|null}
  * `detctors`   {args:[[n_wires|null, max_detections|null]…]} → {res:[{ctor:[w,m]|null, type, enc:[a,b]|null, dec:[[w,m],type]|null, expected}]}
                 `Detector.__init__` + codec (`Model/C15Det.lean`);  `detdecs` {fs:[[a,b]…]} → {res:[[[w,m],type]|null]}
  * `noisehist`  {args:[[k,v]…], ops:[["num",name,v]|["bool",b]…]} → {ctor:"ok"|error class, raised:[[i,class]], state, same, enc, dec}
                 `NoiseModel(**args)` + `set_value` history (`Model/C15Noise.lean`);  `decnoisev` {pb} → {dec: kvs | {raises}}
  * `envelope`   {tag, payload, compress} → {text, open}            (identity codec for zlib+base64)
  * `open`       {text}           → {open: [tag, payload] | null}
  * `bss`        {samples}        → {dict, order, dec}
  * `grid`       {n, d}           → {num, exp, mult10}
  * `ffcp`       {m, offset, name, default:[id,size], ops:[["add",key,[id,size]]|["block"]], wire:[key…]|null}
                 → {raised:[index of every call that raises; it is skipped], state:{max,blocked,map:[[key,id,size]]},
                    good, enc:{name,offset,block,default,configs}, dec|null, dec_flag_first|null}
                 `FFCircuitProvider` bookkeeping (`Model/C15FF.lean`); payloads are (id, mode count)
  text formats (`Model/C15Text.lean`); a state is `[{"g": [[count, [[tag, value], …]], …], "p": plain}, …]`, a number
  the exact rational of the double as "num/den":
  * `txt` {kind: "state"|"num"|"bsd"|"bsc"|"bss"|"sv"|"svd", obj} → {wf, text, dec|null}   writer, and reader on that text
      obj: state | "num/den" | [[state, "num/den"], …] | [[state, n], …] | [state, …] | [[re, im, state], …] |
           [[[[re, im, state], …], "num/den"], …]
  * `dectxt` {kind, text} → {dec|null}                                                       reader on an arbitrary text
  A request the driver cannot parse is answered `{"err": …}`.
-/


/-! ## sub-drivers (post-selection text, containers, feed-forward tables / 32-bit floats) -/

/-!
  Line protocol for the PostSelect text format (model: `Model/C15PS.lean`).

  Expr JSON: `{"k":"cond","modes":[..],"c":"==","n":1}`, `{"k":"not","x":…}`,
             `{"k":"nary","op":"&","args":[…]}`; `null` = the empty PostSelect.
  ops
  * `ps`      {obj: expr|null, fixed: bool} → {text, dec: expr|null, ok, wf, nlf}
              `text = printTop fixed obj`, `dec/ok = parseTop text` (`ok=false`: the reader rejects),
              `wf` = `Expr.WF`, `nlf` = `Expr.NotLastFree` (both `true` for `null`)
  * `psparse` {text} → {ok, dec: expr|null, print_found, print_fixed}
  * `pswrite` {text[, one_digit]} → {ok, text|null}   (`_postselect_to_str` as written, Model/C15PSW.lean; ok=false = IndexError)
              `parseTop text` and the two writers applied to the result (`null` when rejected)
  * `pseval`  {obj: expr|null, states: [[n…]…]} → {vals: [bool…]}     `evalTop`
  A request the driver cannot parse is answered `{"err": …}`.
-/

section
open Lean PM.Proto PM.C15.PS

namespace C15PSD

/-- `Expr` alone is ambiguous with `Lean.Expr` once `Lean` is open -/
abbrev PExpr := PM.C15.PS.Expr

def txt (s : String) : Text := s.toList
def str (t : Text) : String := String.ofList t

def cmpOf : String → Except String Cmp
  | "==" => pure .eq | "!=" => pure .ne | "<" => pure .lt | "<=" => pure .le
  | ">" => pure .gt | ">=" => pure .ge
  | s => throw s!"bad comparator {s}"

def bopOf : String → Except String BOp
  | "&" => pure .and | "|" => pure .or | "^" => pure .xor
  | s => throw s!"bad operator {s}"

partial def exprOf (j : Json) : Except String PExpr := do
  match ← strOf j "k" with
  | "cond" => pure (.cond (← natList (← j.getObjVal? "modes")) (← cmpOf (← strOf j "c")) (← natOf j "n"))
  | "not" => pure (.not (← exprOf (← j.getObjVal? "x")))
  | "nary" =>
    let args ← (← arrOf j "args").toList.mapM exprOf
    pure (.nary (← bopOf (← strOf j "op")) (Args.ofList args))
  | k => throw s!"bad expression kind {k}"

def optExprOf (j : Json) : Except String (Option PExpr) :=
  if j.isNull then pure none else some <$> exprOf j

mutual
  partial def exprJ : PExpr → Json
    | .cond ms c n =>
      Json.mkObj [("k", "cond"), ("modes", Json.arr (ms.map (fun (m : Nat) => (m : Json))).toArray),
        ("c", str c.sym), ("n", n)]
    | .not x => Json.mkObj [("k", "not"), ("x", exprJ x)]
    | .nary o as => Json.mkObj [("k", "nary"), ("op", str [o.sym]), ("args", Json.arr (argsJ as).toArray)]
  partial def argsJ : Args → List Json
    | .nil => []
    | .cons x r => exprJ x :: argsJ r
end

def optExprJ : Option PExpr → Json
  | none => Json.null
  | some x => exprJ x

def handle (j : Json) : Except String Json := do
  let op ← strOf j "op"
  match op with
  | "ps" =>
    let x ← optExprOf (← j.getObjVal? "obj")
    let fixed ← boolOf j "fixed"
    let t := printTop fixed x
    let r := parseTop t
    let wf := match x with | none => true | some e => e.wfb
    let nlf := match x with | none => true | some e => e.nlfb
    pure (Json.mkObj [("text", str t), ("ok", r.isSome), ("dec", optExprJ (r.getD none)), ("wf", wf), ("nlf", nlf)])
  | "psparse" =>
    let t := txt (← strOf j "text")
    match parseTop t with
    | none => pure (Json.mkObj [("ok", false), ("dec", Json.null), ("print_found", Json.null), ("print_fixed", Json.null)])
    | some x =>
      pure (Json.mkObj [("ok", true), ("dec", optExprJ x), ("print_found", str (printTop false x)),
        ("print_fixed", str (printTop true x))])
  | "pswrite" =>
    -- `_postselect_to_str` as written (the regex pass) on a text; `one_digit`: the variant `\d` of the last token
    let t := txt (← strOf j "text")
    let one := (j.getObjValAs? Bool "one_digit").toOption.getD false
    match scan one 0 0 [] t with
    | none => pure (Json.mkObj [("ok", false), ("text", Json.null)])
    | some r => pure (Json.mkObj [("ok", true), ("text", str r)])
  | "pseval" =>
    let x ← optExprOf (← j.getObjVal? "obj")
    let sts ← (← arrOf j "states").toList.mapM natList
    pure (Json.mkObj [("vals", Json.arr (sts.map (fun st => (evalTop x st : Json))).toArray)])
  | _ => throw s!"unknown op {op}"

def handleJ (j : Json) : Json :=
  match handle j with
  | .ok r => r
  | .error e => errJson e

end C15PSD
end

/-!
  Line protocol for the container part of C15 (model: `Model/C15Tree.lean`).  Leaves cross as integer ids; their
  texts (what the real `serialize(leaf, compress=c)` returned) come in a table, so the leaf codec of the model is
  the table and its inverse.

  syntax
  * tree : `{"obj": id}` | `{"raw": R}` | `{"list": [tree…]}` | `{"dict": [[key, tree]…]}`,  key : `{"obj": id}` | `{"str": "…"}`
  * wire : `{"raw": R}` | `{"list": [wire…]}` | `{"dict": [["key text", wire]…]}`   (items in dict order)
  * R    : `null` | `true`/`false` | a JSON integer (Python `int`) | `{"num": "p/q"}` (Python `float`, exact) | a JSON string

  ops
  * `tree`    {tree, leaves: {"<id>": {"text": "…"}}} → {wire, dec: tree|null, wf, codec_ok, rt}
        `wire` = `encode`, `dec` = `decode` of that wire with the inverse table (first id whose text matches),
        `wf` = `Tree.WF`, `codec_ok` = the table satisfies `LeafCodec` (texts pairwise distinct, all start with
        `":PCVL:"`), `rt` = `dec` is the tree itself (what `roundtrip_tree` promises when `wf` and `codec_ok`)
  * `treedec` {wire, leaves: {"<text>": id}} → {dec: tree|null}
        `decode` with the table as `dec` (a prefixed text that is not in the table = the reader raises)
  A request the driver cannot parse is answered `{"err": …}`.
-/

section
open Lean PM.Proto PM.C15 PM.C15.Tree

namespace C15TreeD

abbrev T := PM.C15.Tree.Tree Nat

def txt (s : String) : Text := s.toList
def str (t : Text) : String := String.ofList t

def listJ (f : α → Json) (l : List α) : Json := Json.arr (l.map f).toArray

def rawOf (j : Json) : Except String Raw :=
  match j with
  | .null => pure .null
  | .bool b => pure (.bool b)
  | .str s => pure (.str (txt s))
  | .num n =>
    if n.exponent = 0 then pure (.int n.mantissa)
    else throw "non-integer json number (a float is sent as {\"num\": \"p/q\"})"
  | .obj _ => do
    match ← j.getObjVal? "num" with
    | .str s => pure (.num (← parseRat s))
    | _ => throw "bad float"
  | _ => throw "bad raw value"

def rawJ : Raw → Json
  | .null => Json.null
  | .bool b => b
  | .int i => Json.num (JsonNumber.fromInt i)
  | .num q => Json.mkObj [("num", ratToJson q)]
  | .str s => str s

def keyOf (j : Json) : Except String (Key Nat) := do
  if let .ok i := j.getObjVal? "obj" then return .obj (← i.getNat?)
  if let .ok s := j.getObjVal? "str" then return .str (txt (← s.getStr?))
  throw "bad key"

def keyJ : Key Nat → Json
  | .obj a => Json.mkObj [("obj", a)]
  | .str s => Json.mkObj [("str", str s)]

partial def treeOf (j : Json) : Except String T := do
  if let .ok i := j.getObjVal? "obj" then return .obj (← i.getNat?)
  if let .ok r := j.getObjVal? "raw" then return .raw (← rawOf r)
  if let .ok l := j.getObjVal? "list" then return .list (← (← l.getArr?).toList.mapM treeOf)
  if let .ok d := j.getObjVal? "dict" then
    let kvs ← (← d.getArr?).toList.mapM fun p => match p with
      | .arr #[k, v] => do pure (← keyOf k, ← treeOf v)
      | _ => throw "bad dict item"
    return .dict kvs
  throw "bad tree"

partial def treeJ : T → Json
  | .obj a => Json.mkObj [("obj", a)]
  | .raw r => Json.mkObj [("raw", rawJ r)]
  | .list l => Json.mkObj [("list", listJ treeJ l)]
  | .dict kvs => Json.mkObj [("dict", listJ (fun p => Json.arr #[keyJ p.1, treeJ p.2]) kvs)]

partial def wireOf (j : Json) : Except String Wire := do
  if let .ok r := j.getObjVal? "raw" then return .raw (← rawOf r)
  if let .ok l := j.getObjVal? "list" then return .list (← (← l.getArr?).toList.mapM wireOf)
  if let .ok d := j.getObjVal? "dict" then
    let kvs ← (← d.getArr?).toList.mapM fun p => match p with
      | .arr #[.str k, v] => do pure (txt k, ← wireOf v)
      | _ => throw "bad wire dict item"
    return .dict kvs
  throw "bad wire"

partial def wireJ : Wire → Json
  | .raw r => Json.mkObj [("raw", rawJ r)]
  | .list l => Json.mkObj [("list", listJ wireJ l)]
  | .dict kvs => Json.mkObj [("dict", listJ (fun p => Json.arr #[(str p.1 : Json), wireJ p.2]) kvs)]

/-- every leaf id the tree mentions -/
partial def ids : T → List Nat
  | .obj a => [a]
  | .raw _ => []
  | .list l => l.flatMap ids
  | .dict kvs => kvs.flatMap fun p => (match p.1 with | .obj a => [a] | .str _ => []) ++ ids p.2

/-- `{"<id>": {"text": …}}` -/
def encTable (j : Json) : Except String (List (Nat × Text)) := do
  let o ← j.getObj?
  o.toList.mapM fun (k, v) => do
    match k.toNat? with
    | some i => pure (i, txt (← strOf v "text"))
    | none => throw s!"bad leaf id {k}"

/-- `{"<text>": id}` -/
def decTable (j : Json) : Except String (List (Text × Nat)) := do
  let o ← j.getObj?
  o.toList.mapM fun (k, v) => do pure (txt k, ← v.getNat?)

def optJ (f : α → Json) : Option α → Json
  | none => Json.null
  | some a => f a

def handle (j : Json) : Except String Json := do
  let op ← strOf j "op"
  match op with
  | "tree" =>
    let t ← treeOf (← j.getObjVal? "tree")
    let tbl ← encTable (← j.getObjVal? "leaves")
    for i in ids t do
      if (tbl.lookup i).isNone then throw s!"leaf {i} has no text"
    let enc : Unit → Nat → Text := fun _ i => (tbl.lookup i).getD []
    let dec : Text → Option Nat := fun s => (tbl.find? (·.2 == s)).map (·.1)
    let w := encode enc () t
    let d := decode dec w
    let codecOk := nodupb (tbl.map (·.2)) && tbl.all (fun p => isPcvl p.2)
    let rt := match d with
      | some t' => (treeJ t').compress == (treeJ t).compress
      | none => false
    pure (Json.mkObj [("wire", wireJ w), ("dec", optJ treeJ d), ("wf", t.wfb), ("codec_ok", codecOk), ("rt", rt)])
  | "treedec" =>
    let w ← wireOf (← j.getObjVal? "wire")
    let tbl ← decTable (← j.getObjVal? "leaves")
    let dec : Text → Option Nat := fun s => tbl.lookup s
    pure (Json.mkObj [("dec", optJ treeJ (decode dec w))])
  | _ => throw s!"unknown op {op}"

def handleJ (j : Json) : Json :=
  match handle j with
  | .ok r => r
  | .error e => errJson e

end C15TreeD
end

/-!
  Line protocol for the feed-forward extension of C15 (models: `Model/C15FF.lean` namespaces `FF` and `FFC`,
  `Model/C15F32.lean`).  Stand-alone; to be merged into `Driver/C15.lean` (`C15FFVD.handle` is total:
  `Except String Json`).

  ops
  * `f32`   {v:"num/den"}            → {f32:"num/den"|null}            binary32 round-to-nearest-even; null = ±inf
  * `f32s`  {vs:["num/den"…]}        → {f32s:["num/den"|null…]}        the same for a batch
  * `ffc`   {m, offset, name, vars:[[name, value|null]…], default:[[name,value]…],
             ops:[["add",key,ksize,[[name,value]…]] | ["block"] | ["set",name,value|null]],
             wire: null | {default:[name…], configs:[[key,[name…]]…]}}
            → {new: null|error}                                       when the constructor raises, else
              {new:null, raised:[[i,error]…], state:{m,offset,name,linked,vars,default,configs,blocked},
               overflow:bool, enc:{name,offset,block,default,configs}|null, dec:{ok:state}|{err:error}|null,
               configure:[[key, null|error]…]}
            `FFConfigurator`: `vars` is the controlled circuit reduced to its variables at construction time,
            `set` is `Parameter.set_value` on a shared variable afterwards; a call that raises is skipped;
            `enc` has every value after `f32` (null when one overflows: outside the model); `dec` is what the
            reader does with that message; `configure` says for every mapped state whether `configure` raises.
            errors: "ValueError:count", "NameError:<n>", "KeyError:<n>", "ValueError:size", "codec"
  * `ffcp_any` {m, offset, name, default:[id,size], ops:[["add",key,[id,size]]|["block"]], wire:[key…]|null}
            → as `ffcp` of `Driver/C15.lean` plus {true_max, inv, dec_max, second_eq}: the true maximum of the
              sizes, whether `Inv` holds, the maximal size of the rebuilt provider, and whether a second trip
              returns the rebuilt provider.
-/

section
open Lean PM.Proto PM.C15

namespace C15FFVD

def optJ (j : Json) (f : Json → Except String α) : Except String (Option α) :=
  if j.isNull then pure none else some <$> f j

def optField (j : Json) (k : String) (f : Json → Except String α) : Except String (Option α) := do
  optJ (← j.getObjVal? k) f

def optToJ (f : α → Json) : Option α → Json
  | none => Json.null
  | some a => f a

def listJ (f : α → Json) (l : List α) : Json := Json.arr (l.map f).toArray

def listOf (j : Json) (f : Json → Except String α) : Except String (List α) := do
  (← j.getArr?).toList.mapM f

def intJ (i : Int) : Json := Json.num (Lean.JsonNumber.fromInt i)

/-! ### 32-bit floats -/

def f32J (v : Rat) : Json := optToJ ratToJson (F32.f32 v)

/-! ### `FFConfigurator` -/

abbrev Key := String × Nat
abbrev Ctrl := FFC.VarList Rat
abbrev Cf := FFC.Cfgr Key Ctrl Rat

def errS : FFC.Err → String
  | .count => "ValueError:count"
  | .name n => s!"NameError:{n}"
  | .key n => s!"KeyError:{n}"
  | .size => "ValueError:size"
  | .codec => "codec"

def tableOf (j : Json) : Except String (FFC.Table Rat) :=
  listOf j fun e => match e with
    | .arr #[.str n, v] => do pure (n, ← ratOfJson v)
    | _ => throw "bad table entry"

def tableJ (t : FFC.Table Rat) : Json := listJ (fun (e : String × Rat) => Json.arr #[(e.1 : String), ratToJson e.2]) t

def varsOf (j : Json) : Except String Ctrl :=
  listOf j fun e => match e with
    | .arr #[.str n, v] => do pure (n, ← optJ v ratOfJson)
    | _ => throw "bad variable"

def varsJ (c : Ctrl) : Json :=
  listJ (fun (e : String × Option Rat) => Json.arr #[(e.1 : String), optToJ ratToJson e.2]) c

inductive COp where
  | op (o : FFC.Op Key Rat)
  | set (n : String) (v : Option Rat)

def copOf (j : Json) : Except String COp :=
  match j with
  | .arr #[.str "block"] => pure (.op .block)
  | .arr #[.str "add", .str k, sz, t] => do pure (.op (.add (k, ← sz.getNat?) (← tableOf t)))
  | .arr #[.str "set", .str n, v] => do pure (.set n (← optJ v ratOfJson))
  | _ => throw "bad configurator call"

/-- a history in which a call that raises is caught and skipped -/
def runSkipC (x : Cf) : List COp → Nat → List (Nat × FFC.Err) → Cf × List (Nat × FFC.Err)
  | [], _, bad => (x, bad.reverse)
  | .set n v :: t, i, bad => runSkipC { x with ctrl := FFC.setValue n v x.ctrl } t (i + 1) bad
  | .op o :: t, i, bad =>
    match FFC.step Prod.snd x o with
    | .ok x' => runSkipC x' t (i + 1) bad
    | .error e => runSkipC x t (i + 1) ((i, e) :: bad)

def cfJ (x : Cf) : Json :=
  Json.mkObj [("m", x.m), ("offset", intJ x.offset), ("name", x.name),
    ("linked", listJ (fun (s : String) => (s : Json)) x.linked), ("vars", varsJ x.ctrl),
    ("default", tableJ x.defaultConfig),
    ("configs", listJ (fun (e : Key × FFC.Table Rat) => Json.arr #[(e.1.1 : String), tableJ e.2]) x.configs),
    ("blocked", x.blocked)]

/-- the table `t` with its entries in the order `ns` of names -/
def orderTable (t : FFC.Table Rat) (ns : List String) : Except String (FFC.Table Rat) :=
  if ns.length != t.length then throw "wire order is not a permutation of the names" else
  ns.mapM fun n => match t.find? (·.1 == n) with
    | some e => pure e
    | none => throw "wire order names an unknown variable"

def tableOverflows (t : FFC.Table Rat) : Bool := t.any fun e => (F32.f32 e.2).isNone


/-! ### constructor layer of `Detector` (`Model/C15Det.lean`) -/

def dstateJ (s : DetC.DState) : Json := Json.arr #[optToJ intJ s.wires, optToJ intJ s.max]

def dtypeJ : DetC.DType → Json
  | .threshold => "Threshold" | .pnr => "PNR" | .ppnr => "PPNR"

def pairOptInt (j : Json) : Except String (Option Int × Option Int) := do
  match (← j.getArr?).toList with
  | [a, b] => pure (← optJ a (·.getInt?), ← optJ b (·.getInt?))
  | _ => throw "expected [n_wires|null, max_detections|null]"

def pairInt (j : Json) : Except String (Int × Int) := do
  match (← j.getArr?).toList with
  | [a, b] => pure (← a.getInt?, ← b.getInt?)
  | _ => throw "expected [n_wires, max_detections]"

/-- one `Detector(nw, md)`: constructor, type, message fields, what the reader rebuilds -/
def detCtorJ (a : Option Int × Option Int) : Json :=
  match DetC.ctor a.1 a.2 with
  | none => Json.mkObj [("ctor", Json.null)]
  | some s =>
    let e := DetC.enc s
    Json.mkObj [("ctor", dstateJ s), ("type", dtypeJ (DetC.dtype s)),
      ("enc", optToJ (fun (f : Int × Int) => Json.arr #[intJ f.1, intJ f.2]) e),
      ("dec", match e with
        | none => Json.null
        | some f => optToJ (fun t => Json.arr #[dstateJ t, dtypeJ (DetC.dtype t)]) (DetC.dec f)),
      ("expected", dstateJ (DetC.expected s))]

def handle (j : Json) : Except String Json := do
  let op ← strOf j "op"
  match op with
  | "detctors" =>
    let as ← listOf (← j.getObjVal? "args") pairOptInt
    pure (Json.mkObj [("res", listJ detCtorJ as)])
  | "detdecs" =>
    let fs ← listOf (← j.getObjVal? "fs") pairInt
    pure (Json.mkObj [("res", listJ (fun f => optToJ (fun t => Json.arr #[dstateJ t, dtypeJ (DetC.dtype t)]) (DetC.dec f)) fs)])
  | "f32" => pure (Json.mkObj [("f32", f32J (← ratOfJson (← j.getObjVal? "v")))])
  | "f32s" =>
    let vs ← listOf (← j.getObjVal? "vs") ratOfJson
    pure (Json.mkObj [("f32s", listJ f32J vs)])
  | "ffc" =>
    let c0 ← varsOf (← j.getObjVal? "vars")
    let d ← tableOf (← j.getObjVal? "default")
    let ops ← listOf (← j.getObjVal? "ops") copOf
    match FFC.Cfgr.new (κ := Key) FFC.varCtl (← natOf j "m") (← intOf j "offset") (← strOf j "name") c0 d with
    | .error e => pure (Json.mkObj [("new", errS e)])
    | .ok x0 =>
      let (x, bad) := runSkipC x0 ops 0 []
      let wireJ ← j.getObjVal? "wire"
      let (wd, wc) ← if wireJ.isNull then pure (x.defaultConfig, x.configs) else do
        let wd ← orderTable x.defaultConfig (← listOf (← wireJ.getObjVal? "default") (·.getStr?))
        let wks ← listOf (← wireJ.getObjVal? "configs") fun e => match e with
          | .arr #[.str k, ns] => do pure (k, ← listOf ns (·.getStr?))
          | _ => throw "bad wire entry"
        if wks.length != x.configs.length then throw "wire order is not a permutation of the keys"
        let wc ← wks.mapM fun (k, ns) => match x.configs.find? (·.1.1 == k) with
          | some e => do pure (e.1, ← orderTable e.2 ns)
          | none => throw "wire order names an unknown key"
        pure (wd, wc)
      let overflow := tableOverflows x.defaultConfig || x.configs.any (fun e => tableOverflows e.2)
      let w := FFC.encCfgr (δ := Ctrl) id F32.f32D x wd wc
      let encJ := Json.mkObj [("name", w.name), ("offset", intJ w.offset), ("block", w.block),
        ("default", tableJ w.defaultConfig),
        ("configs", listJ (fun (e : Key × FFC.Table Rat) => Json.arr #[(e.1.1 : String), tableJ e.2]) w.configs)]
      let decJ := match FFC.decCfgr FFC.varCtl some Prod.snd x.m w with
        | .ok y => Json.mkObj [("ok", cfJ y)]
        | .error e => Json.mkObj [("err", errS e)]
      let confJ := listJ (fun (e : Key × FFC.Table Rat) =>
        Json.arr #[(e.1.1 : String), match FFC.configureOk FFC.varCtl x e.1 with
          | .ok _ => Json.null
          | .error e => (errS e : Json)]) x.configs
      pure (Json.mkObj [("new", Json.null),
        ("raised", listJ (fun (e : Nat × FFC.Err) => Json.arr #[(e.1 : Nat), (errS e.2 : String)]) bad),
        ("state", cfJ x), ("overflow", overflow),
        ("enc", if overflow then Json.null else encJ), ("dec", if overflow then Json.null else decJ),
        ("configure", confJ)])
  | "ffcp_any" =>
    let payOf (j : Json) : Except String (Nat × Nat) :=
      match j with
      | .arr #[a, b] => do pure (← a.getNat?, ← b.getNat?)
      | _ => throw "bad payload"
    let payJ (c : Nat × Nat) : Json := .arr #[(c.1 : Nat), (c.2 : Nat)]
    let entJ (e : String × (Nat × Nat)) : Json := Json.arr #[(e.1 : String), (e.2.1 : Nat), (e.2.2 : Nat)]
    let provJ (p : FF.Prov String (Nat × Nat)) : Json :=
      Json.mkObj [("m", p.m), ("offset", intJ p.offset), ("name", p.name), ("default", payJ p.default),
        ("max", p.maxSize), ("blocked", p.blocked), ("map", listJ entJ p.map)]
    let d ← payOf (← j.getObjVal? "default")
    let ops ← listOf (← j.getObjVal? "ops") fun o => match o with
      | .arr #[.str "block"] => pure (FF.Op.block : FF.Op String (Nat × Nat))
      | .arr #[.str "add", .str k, c] => do pure (.add k (← payOf c))
      | _ => throw "bad provider call"
    let p0 : FF.Prov String (Nat × Nat) :=
      FF.Prov.new Prod.snd (← natOf j "m") (← intOf j "offset") (← strOf j "name") d
    -- a call that raises is skipped
    let rec go (p : FF.Prov String (Nat × Nat)) (l : List (FF.Op String (Nat × Nat))) (i : Nat) (bad : List Nat) :
        FF.Prov String (Nat × Nat) × List Nat :=
      match l with
      | [] => (p, bad.reverse)
      | o :: t => match FF.step Prod.snd p o with
        | some p' => go p' t (i + 1) bad
        | none => go p t (i + 1) (i :: bad)
    let (p, bad) := go p0 ops 0 []
    let wireKeys ← optField j "wire" (fun w => listOf w (·.getStr?))
    let wire ← match wireKeys with
      | none => pure p.map
      | some ks =>
        if ks.length != p.map.length then throw "wire order is not a permutation of the keys" else
        ks.mapM fun k => match p.map.find? (·.1 == k) with
          | some e => pure e
          | none => throw "wire order names an unknown key"
    let w := FF.encProv id p wire
    let encJ := Json.mkObj [("name", w.name), ("offset", intJ w.offset), ("block", w.block),
      ("default", payJ w.default), ("configs", listJ entJ w.configs)]
    let tm := FF.trueMax Prod.snd p.default p.map
    let inv : Bool := decide (p.default.2 ≤ p.maxSize) && p.map.all (fun e => decide (e.2.2 ≤ p.maxSize)) &&
      (FF.keys p.map).eraseDups.length == p.map.length
    let dec := FF.decProv some Prod.snd false p.m w
    let second : Option Bool := dec.map fun q =>
      match FF.decProv some Prod.snd false q.m (FF.encProv id q q.map) with
      | some r => r.m == q.m && r.offset == q.offset && r.name == q.name && r.default == q.default &&
          r.maxSize == q.maxSize && r.blocked == q.blocked && r.map == q.map
      | none => false
    pure (Json.mkObj [("raised", listJ (fun (n : Nat) => (n : Json)) bad), ("state", provJ p), ("true_max", tm),
      ("inv", inv), ("enc", encJ), ("dec", optToJ provJ dec), ("dec_max", optToJ (fun q => (q.maxSize : Json)) dec),
      ("second_eq", optToJ (fun (b : Bool) => (b : Json)) second),
      ("dec_flag_first", optToJ provJ (FF.decProv some Prod.snd true p.m w))])
  | _ => throw s!"unknown op {op}"

def handleJ (j : Json) : Json :=
  match handle j with
  | .ok r => r
  | .error e => errJson e

end C15FFVD
end

open Lean PM.Proto PM.C15

namespace C15D

def txt (s : String) : Text := s.toList
def str (t : Text) : String := String.ofList t

def optJ (j : Json) (f : Json → Except String α) : Except String (Option α) :=
  if j.isNull then pure none else some <$> f j

def optField (j : Json) (k : String) (f : Json → Except String α) : Except String (Option α) := do
  optJ (← j.getObjVal? k) f

def optToJ (f : α → Json) : Option α → Json
  | none => Json.null
  | some a => f a

def listJ (f : α → Json) (l : List α) : Json := Json.arr (l.map f).toArray

def listOf (j : Json) (f : Json → Except String α) : Except String (List α) := do
  (← j.getArr?).toList.mapM f

def cfgOf (j : Json) : Except String Cfg := do
  match ← j.getObjVal? "cfg" with
  | .arr #[a, b, c, d] => pure ⟨← a.getBool?, ← b.getBool?, ← c.getBool?, ← d.getBool?⟩
  | _ => throw "bad cfg"

def cxOf (j : Json) : Except String Cx :=
  match j with
  | .arr #[a, b] => do pure (← ratOfJson a, ← ratOfJson b)
  | _ => throw "bad complex"

def cxJ (z : Cx) : Json := .arr #[ratToJson z.1, ratToJson z.2]

/-! ### parameters -/

def subOf (j : Json) : Except String Sub := do
  pure ⟨← strOf j "n", ← boolOf j "fixed", ← optField j "v" ratOfJson⟩

def subJ (s : Sub) : Json :=
  Json.mkObj [("n", s.name), ("fixed", s.fixed), ("v", optToJ ratToJson s.val)]

def paramOf (j : Json) : Except String Param := do
  match ← strOf j "k" with
  | "fixed" => pure (.fixed (← ratOfJson (← j.getObjVal? "v")))
  | "var" => pure (.var (← strOf j "n") (← optField j "v" ratOfJson))
  | "expr" => pure (.expr (← strOf j "e") (← listOf (← j.getObjVal? "subs") subOf))
  | k => throw s!"bad parameter kind {k}"

def paramJ : Param → Json
  | .fixed v => Json.mkObj [("k", "fixed"), ("v", ratToJson v)]
  | .var n v => Json.mkObj [("k", "var"), ("n", n), ("v", optToJ ratToJson v)]
  | .expr e s => Json.mkObj [("k", "expr"), ("e", e), ("subs", listJ subJ s)]

def ptypeOf (j : Json) : Except String PType :=
  match j with
  | .arr #[.str "unset"] => pure .unset
  | .arr #[.str "real", v] => do pure (.real (← ratOfJson v))
  | .arr #[.str "symbol", .str s] => pure (.symbol s)
  | .arr #[.str "expression", .str s] => pure (.expression s)
  | _ => throw "bad parameter oneof"

def ptypeJ : PType → Json
  | .unset => .arr #["unset"]
  | .real v => .arr #["real", ratToJson v]
  | .symbol s => .arr #["symbol", s]
  | .expression s => .arr #["expression", s]

def pbLeafOf (j : Json) : Except String PbLeaf := do
  pure ⟨← ptypeOf (← j.getObjVal? "type"), ← strOf j "name"⟩

def pbLeafJ (w : PbLeaf) : Json := Json.mkObj [("type", ptypeJ w.type), ("name", w.name)]

def pbParamOf (j : Json) : Except String PbParam := do
  pure ⟨← ptypeOf (← j.getObjVal? "type"), ← strOf j "name", ← listOf (← j.getObjVal? "subs") pbLeafOf⟩

def pbParamJ (w : PbParam) : Json :=
  Json.mkObj [("type", ptypeJ w.type), ("name", w.name), ("subs", listJ pbLeafJ w.subs)]

/-! ### matrices -/

def matOf (j : Json) : Except String Mat := do
  if let .ok r := j.getObjVal? "num" then
    return .num (← listOf r fun row => listOf row cxOf)
  if let .ok r := j.getObjVal? "sym" then
    return .sym (← listOf r fun row => listOf row (·.getStr?))
  throw "bad matrix"

def matJ : Mat → Json
  | .num rows => Json.mkObj [("num", listJ (listJ cxJ) rows)]
  | .sym rows => Json.mkObj [("sym", listJ (listJ (fun (s : String) => (s : Json))) rows)]

def pbMatOf (j : Json) : Except String PbMat := do
  let data ← match ← j.getObjVal? "data" with
    | .arr #[.str "unset"] => pure MatData.unset
    | .arr #[.str "numeric", d] => do pure (MatData.numeric (← listOf d cxOf))
    | .arr #[.str "symbolic", d] => do pure (MatData.symbolic (← listOf d (·.getStr?)))
    | _ => throw "bad matrix data"
  pure ⟨← natOf j "rows", ← natOf j "cols", data⟩

def pbMatJ (w : PbMat) : Json :=
  let data : Json := match w.data with
    | .unset => .arr #["unset"]
    | .numeric d => .arr #["numeric", listJ cxJ d]
    | .symbolic d => .arr #["symbolic", listJ (fun (s : String) => (s : Json)) d]
  Json.mkObj [("rows", w.rows), ("cols", w.cols), ("data", data)]

/-! ### components -/

def kindOf : String → Except String Kind
  | "bs_rx" => pure (.bs .rx) | "bs_ry" => pure (.bs .ry) | "bs_h" => pure (.bs .h)
  | "ps" => pure .ps | "wp" => pure .wp | "hwp" => pure .hwp | "qwp" => pure .qwp
  | "pr" => pure .pr | "td" => pure .td | "lc" => pure .lc
  | k => throw s!"bad kind {k}"

def kindS : Kind → String
  | .bs .rx => "bs_rx" | .bs .ry => "bs_ry" | .bs .h => "bs_h"
  | .ps => "ps" | .wp => "wp" | .hwp => "hwp" | .qwp => "qwp" | .pr => "pr" | .td => "td" | .lc => "lc"

def wkOf : String → Except String WKind
  | "beam_splitter" => pure .beamSplitter | "phase_shifter" => pure .phaseShifter
  | "wave_plate" => pure .wavePlate | "half_wave_plate" => pure .halfWavePlate
  | "quarter_wave_plate" => pure .quarterWavePlate | "polarization_rotator" => pure .polarizationRotator
  | "time_delay" => pure .timeDelay | "loss_channel" => pure .lossChannel
  | k => throw s!"bad oneof member {k}"

def wkS : WKind → String
  | .beamSplitter => "beam_splitter" | .phaseShifter => "phase_shifter" | .wavePlate => "wave_plate"
  | .halfWavePlate => "half_wave_plate" | .quarterWavePlate => "quarter_wave_plate"
  | .polarizationRotator => "polarization_rotator" | .timeDelay => "time_delay"
  | .lossChannel => "loss_channel"

def mkItems (l : List (Nat × Comp)) : Items := l.foldr (fun p r => .cons p.1 p.2 r) .nil

partial def compOf (j : Json) : Except String Comp := do
  match ← strOf j "t" with
  | "leaf" => pure (.leaf (← kindOf (← strOf j "kind")) (← listOf (← j.getObjVal? "ps") paramOf))
  | "perm" => pure (.perm (← natList (← j.getObjVal? "p")))
  | "unitary" => pure (.unitary (← matOf (← j.getObjVal? "mat")) (← strOf j "name") (← boolOf j "pol"))
  | "pbs" => pure .pbs
  | "barrier" => pure (.barrier (← natOf j "m") (← boolOf j "visible"))
  | "circ" =>
    let items ← listOf (← j.getObjVal? "items") fun it => do
      pure (← natOf it "off", ← compOf (← it.getObjVal? "c"))
    pure (.circ (← natOf j "m") (← strOf j "name") (mkItems items))
  | t => throw s!"bad component {t}"

def itemsOf (j : Json) : Except String Items := do
  let items ← listOf j fun it => do pure (← natOf it "off", ← compOf (← it.getObjVal? "c"))
  pure (mkItems items)

mutual
  partial def compJ : Comp → Json
    | .leaf k ps => Json.mkObj [("t", "leaf"), ("kind", kindS k), ("ps", listJ paramJ ps)]
    | .perm p => Json.mkObj [("t", "perm"), ("p", listJ (fun (n : Nat) => (n : Json)) p)]
    | .unitary mat name up => Json.mkObj [("t", "unitary"), ("mat", matJ mat), ("name", name), ("pol", up)]
    | .pbs => Json.mkObj [("t", "pbs")]
    | .barrier m v => Json.mkObj [("t", "barrier"), ("m", m), ("visible", v)]
    | .circ m name items => Json.mkObj [("t", "circ"), ("m", m), ("name", name), ("items", Json.arr (itemsJ items).toArray)]
  partial def itemsJ : Items → List Json
    | .nil => []
    | .cons off c rest => Json.mkObj [("off", off), ("c", compJ c)] :: itemsJ rest
end

def mkPbComps (l : List (Nat × Nat × PbType)) : PbComps := l.foldr (fun p r => .cons p.1 p.2.1 p.2.2 r) .nil

mutual
  partial def pbTypeOf (j : Json) : Except String PbType := do
    if let .ok _ := j.getObjVal? "unset" then return .unset
    if let .ok c := j.getObjVal? "circuit" then
      return .circuit (← strOf c "name") (← natOf c "n_mode") (← pbCompsOf (← c.getObjVal? "comps"))
    if let .ok wk := j.getObjVal? "leaf" then
      let slots ← listOf (← j.getObjVal? "slots") fun s => optJ s pbParamOf
      return .leaf (← wkOf (← wk.getStr?)) (← natOf j "conv") slots
    if let .ok p := j.getObjVal? "perm" then return .permutation (← natList p)
    if let .ok u := j.getObjVal? "unitary" then
      return .unitary (← optField u "mat" pbMatOf) (← strOf u "name") (← boolOf u "pol")
    if let .ok _ := j.getObjVal? "pbs" then return .pbs
    if let .ok v := j.getObjVal? "barrier" then return .barrier (← v.getBool?)
    throw "bad component message"
  partial def pbCompsOf (j : Json) : Except String PbComps := do
    let l ← listOf j fun c => do
      pure (← natOf c "start", ← natOf c "n", ← pbTypeOf (← c.getObjVal? "t"))
    pure (mkPbComps l)
end

mutual
  partial def pbTypeJ : PbType → Json
    | .unset => Json.mkObj [("unset", true)]
    | .circuit name n comps =>
      Json.mkObj [("circuit", Json.mkObj [("name", name), ("n_mode", n), ("comps", Json.arr (pbCompsJ comps).toArray)])]
    | .leaf wk conv slots =>
      Json.mkObj [("leaf", wkS wk), ("conv", conv), ("slots", listJ (optToJ pbParamJ) slots)]
    | .permutation l => Json.mkObj [("perm", listJ (fun (n : Nat) => (n : Json)) l)]
    | .unitary mat name up =>
      Json.mkObj [("unitary", Json.mkObj [("mat", optToJ pbMatJ mat), ("name", name), ("pol", up)])]
    | .pbs => Json.mkObj [("pbs", true)]
    | .barrier v => Json.mkObj [("barrier", v)]
  partial def pbCompsJ : PbComps → List Json
    | .nil => []
    | .cons s n t rest => Json.mkObj [("start", s), ("n", n), ("t", pbTypeJ t)] :: pbCompsJ rest
end

/-! ### detectors, ports, noise -/

def detOf (j : Json) : Except String Det := do
  if let .ok (.arr #[n, w, m]) := j.getObjVal? "det" then
    return .det (← n.getStr?) (← optJ w (·.getNat?)) (← optJ m (·.getNat?))
  if let .ok (.arr #[n, l, r]) := j.getObjVal? "ppnr" then
    return .ppnr (← n.getStr?) (← l.getNat?) (← ratOfJson r)
  throw "bad detector"

def detJ : Det → Json
  | .det n w m => Json.mkObj [("det", .arr #[n, optToJ (fun (k : Nat) => (k : Json)) w, optToJ (fun (k : Nat) => (k : Json)) m])]
  | .ppnr n l r => Json.mkObj [("ppnr", .arr #[n, l, ratToJson r])]

def pbDetOf (j : Json) : Except String PbDet :=
  match j with
  | .arr #[.str "unset"] => pure .unset
  | .arr #[.str "detector", n, w, m] => do pure (.detector (← n.getStr?) (← w.getNat?) (← m.getNat?))
  | .arr #[.str "ppnr", n, l, r] => do pure (.ppnr (← n.getStr?) (← l.getNat?) (← ratOfJson r))
  | _ => throw "bad detector message"

def pbDetJ : PbDet → Json
  | .unset => .arr #["unset"]
  | .detector n w m => .arr #["detector", n, w, m]
  | .ppnr n l r => .arr #["ppnr", n, l, ratToJson r]

def portOf (j : Json) : Except String APort := do
  if let .ok (.arr #[n, e]) := j.getObjVal? "port" then return .port (← n.getStr?) (← e.getNat?)
  if let .ok (.arr #[v, u]) := j.getObjVal? "herald" then return .herald (← v.getNat?) (← optJ u (·.getStr?))
  throw "bad port"

def portJ : APort → Json
  | .port n e => Json.mkObj [("port", .arr #[n, e])]
  | .herald v u => Json.mkObj [("herald", .arr #[v, optToJ (fun (s : String) => (s : Json)) u])]

def pbPortOf (j : Json) : Except String PbPort :=
  match j with
  | .arr #[.str "unset"] => pure .unset
  | .arr #[.str "port", n, e] => do pure (.port (← n.getStr?) (← e.getNat?))
  | .arr #[.str "herald", a, n, v] => do pure (.herald (← a.getBool?) (← n.getStr?) (← v.getNat?))
  | _ => throw "bad port message"

def pbPortJ : PbPort → Json
  | .unset => .arr #["unset"]
  | .port n e => .arr #["port", n, e]
  | .herald a n v => .arr #["herald", a, n, v]

def jvalOf (j : Json) : Except String JVal :=
  match j with
  | .bool b => pure (.bool b)
  | _ => do pure (.num (← ratOfJson j))

def jvalJ : JVal → Json
  | .num v => ratToJson v
  | .bool b => b

def kvsOf (j : Json) : Except String (List (String × JVal)) :=
  listOf j fun p => match p with
    | .arr #[.str k, v] => do pure (k, ← jvalOf v)
    | _ => throw "bad key/value"

def kvsJ (l : List (String × JVal)) : Json := listJ (fun p => Json.arr #[(p.1 : Json), jvalJ p.2]) l

def noiseOf (j : Json) : Except String Noise := do
  let kvs ← kvsOf j
  let num (k : String) : Except String (Option Dbl) :=
    match kvs.lookup k with
    | none => pure none
    | some (.num v) => pure (some v)
    | some (.bool _) => throw "noise field: number expected"
  let g2d ← match kvs.lookup "g2_distinguishable" with
    | none => pure none
    | some (.bool b) => pure (some b)
    | some (.num _) => throw "noise field: bool expected"
  if !kvs.all (fun kv => noiseKeys.contains kv.1) then throw "unknown noise field"
  pure ⟨← num "brightness", ← num "indistinguishability", ← num "g2", g2d, ← num "transmittance",
        ← num "phase_imprecision", ← num "phase_error"⟩

def noiseJ (n : Noise) : Json := kvsJ (encNoise n)

/-! ### experiments -/

def tpOf (j : Json) : Except String (Text × Text) :=
  match j with
  | .arr #[.str a, .str b] => pure (txt a, txt b)
  | _ => throw "bad tagged payload"

def tpJ (p : Text × Text) : Json := .arr #[(str p.1 : Json), (str p.2 : Json)]

def assocOf (j : Json) (f : Json → Except String α) : Except String (List (Nat × α)) :=
  listOf j fun p => match p with
    | .arr #[k, v] => do pure (← k.getNat?, ← f v)
    | _ => throw "bad map entry"

def assocJ (f : α → Json) (l : List (Nat × α)) : Json := listJ (fun p => Json.arr #[(p.1 : Json), f p.2]) l

def expOf (j : Json) : Except String Experiment := do
  pure { name := ← optField j "name" (·.getStr?)
         nMode := ← natOf j "m"
         input := ← optField j "input" tpOf
         noise := ← optField j "noise" tpOf
         postSelect := ← optField j "ps" tpOf
         filter := ← optField j "filter" (·.getNat?)
         inPorts := ← assocOf (← j.getObjVal? "in") portOf
         outPorts := ← assocOf (← j.getObjVal? "out") portOf
         detectors := ← assocOf (← j.getObjVal? "dets") detOf
         comps := ← itemsOf (← j.getObjVal? "comps") }

def expJ (x : Experiment) : Json :=
  Json.mkObj [("name", optToJ (fun (s : String) => (s : Json)) x.name), ("m", x.nMode),
    ("input", optToJ tpJ x.input), ("noise", optToJ tpJ x.noise), ("ps", optToJ tpJ x.postSelect),
    ("filter", optToJ (fun (k : Nat) => (k : Json)) x.filter), ("in", assocJ portJ x.inPorts),
    ("out", assocJ portJ x.outPorts), ("dets", assocJ detJ x.detectors),
    ("comps", Json.arr (itemsJ x.comps).toArray)]

def pbExpOf (j : Json) : Except String PbExperiment := do
  pure { inputState := txt (← strOf j "input_state")
         name := ← strOf j "name"
         noiseModel := txt (← strOf j "noise_model")
         postSelect := txt (← strOf j "post_select")
         inputPorts := ← assocOf (← j.getObjVal? "in") pbPortOf
         outputPorts := ← assocOf (← j.getObjVal? "out") pbPortOf
         detectors := ← assocOf (← j.getObjVal? "dets") pbDetOf
         nMode := ← natOf j "n_mode"
         components := ← pbCompsOf (← j.getObjVal? "comps")
         minPhotonsFilter := ← natOf j "filter" }

def pbExpJ (w : PbExperiment) : Json :=
  Json.mkObj [("input_state", str w.inputState), ("name", w.name), ("noise_model", str w.noiseModel),
    ("post_select", str w.postSelect), ("in", assocJ pbPortJ w.inputPorts),
    ("out", assocJ pbPortJ w.outputPorts), ("dets", assocJ pbDetJ w.detectors), ("n_mode", w.nMode),
    ("comps", Json.arr (pbCompsJ w.components).toArray), ("filter", w.minPhotonsFilter)]

/-! ### requests -/

/-- `float(expression)` table sent by the harness; an expression that needs a value and has
    none makes the request fail (checked before the model runs) -/
def evsOf (j : Json) : Except String (List (String × Dbl)) :=
  match j.getObjVal? "evs" with
  | .ok a => listOf a fun p => match p with
    | .arr #[.str k, v] => do pure (k, ← ratOfJson v)
    | _ => throw "bad evs entry"
  | .error _ => pure []

def evFn (tbl : List (String × Dbl)) : String → List Sub → Dbl := fun e _ => (tbl.lookup e).getD 0

def paramNeeds (tbl : List (String × Dbl)) : Param → Bool
  | .expr e subs => subs.all (·.val.isSome) && (tbl.lookup e).isNone
  | _ => false

mutual
  partial def compNeeds (tbl : List (String × Dbl)) : Comp → Bool
    | .leaf _ ps => ps.any (paramNeeds tbl)
    | .circ _ _ items => itemsNeeds tbl items
    | _ => false
  partial def itemsNeeds (tbl : List (String × Dbl)) : Items → Bool
    | .nil => false
    | .cons _ c rest => compNeeds tbl c || itemsNeeds tbl rest
end

def decResJ (f : α → Json) : Option (α × St) → List (String × Json)
  | none => [("dec", Json.null)]
  | some (a, st) => [("dec", f a), ("allocs", listJ (fun (s : String) => (s : Json)) st.allocs)]

def idCodec : Codec := ⟨id, some, fun _ => rfl⟩

/-! ### feed-forward circuit providers -/

abbrev FPay := Nat × Nat
abbrev FProv := FF.Prov String FPay

def payOf (j : Json) : Except String FPay :=
  match j with
  | .arr #[a, b] => do pure (← a.getNat?, ← b.getNat?)
  | _ => throw "bad payload"

def payJ (c : FPay) : Json := .arr #[(c.1 : Nat), (c.2 : Nat)]

def ffOpOf (j : Json) : Except String (FF.Op String FPay) :=
  match j with
  | .arr #[.str "block"] => pure .block
  | .arr #[.str "add", .str k, c] => do pure (.add k (← payOf c))
  | _ => throw "bad provider call"

/-- a history in which a call that raises is caught and skipped (what the harness' builder does) -/
def runSkip (p : FProv) : List (FF.Op String FPay) → Nat → List Nat → FProv × List Nat
  | [], _, bad => (p, bad.reverse)
  | o :: t, i, bad =>
    match FF.step Prod.snd p o with
    | some p' => runSkip p' t (i + 1) bad
    | none => runSkip p t (i + 1) (i :: bad)

def provJ (p : FProv) : Json :=
  Json.mkObj [("m", p.m), ("offset", Json.num (Lean.JsonNumber.fromInt p.offset)), ("name", p.name),
    ("default", payJ p.default), ("max", p.maxSize), ("blocked", p.blocked),
    ("map", listJ (fun (e : String × FPay) => Json.arr #[(e.1 : String), (e.2.1 : Nat), (e.2.2 : Nat)]) p.map)]

def isGood (p : FProv) : Bool :=
  let sizes := p.default.2 :: p.map.map (·.2.2)
  sizes.all (· ≤ p.maxSize) && sizes.any (· == p.maxSize) && (FF.keys p.map).eraseDups.length == p.map.length

/-! ### text formats -/

open PM.C15.Txt in
def annotOf (j : Json) : Except String Annot := do
  listOf j fun p => match p with
    | .arr #[t, v] => do pure (txt (← t.getStr?), txt (← v.getStr?))
    | _ => throw "bad annotation entry"

open PM.C15.Txt in
def modeOf (j : Json) : Except String Txt.Mode := do
  let gs ← listOf (← j.getObjVal? "g") fun g => match g with
    | .arr #[n, a] => do pure (⟨← n.getNat?, ← annotOf a⟩ : Txt.Group)
    | _ => throw "bad group"
  pure ⟨gs, ← natOf j "p"⟩

def stateOf (j : Json) : Except String Txt.FState := listOf j modeOf

def stateJ (s : Txt.FState) : Json :=
  listJ (fun (m : Txt.Mode) => Json.mkObj [
    ("g", listJ (fun (g : Txt.Group) => Json.arr #[(g.count : Nat),
      listJ (fun (tv : Text × Text) => Json.arr #[(str tv.1 : String), (str tv.2 : String)]) g.annot]) m.groups),
    ("p", m.plain)]) s

def termOf (j : Json) : Except String Txt.Term :=
  match j with
  | .arr #[a, b, s] => do pure (← ratOfJson a, ← ratOfJson b, ← stateOf s)
  | _ => throw "bad term"

def termJ (t : Txt.Term) : Json := Json.arr #[ratToJson t.1, ratToJson t.2.1, stateJ t.2.2]

def pairOf {α β : Type} (f : Json → Except String α) (g : Json → Except String β) (j : Json) : Except String (α × β) :=
  match j with
  | .arr #[a, b] => do pure (← f a, ← g b)
  | _ => throw "bad pair"

def pairJ {α β : Type} (f : α → Json) (g : β → Json) (p : α × β) : Json := Json.arr #[f p.1, g p.2]

def natJ (n : Nat) : Json := n

def nodupB [DecidableEq α] (l : List α) : Bool := l.eraseDups.length == l.length

def txtOp (kind : String) (obj : Json) : Except String Json := do
  let out (wf : Bool) (t : Text) (dec : Json) : Json := Json.mkObj [("wf", wf), ("text", str t), ("dec", dec)]
  match kind with
  | "state" =>
    let s ← stateOf obj
    let t := Txt.encodeState s
    pure (out (Txt.FState.WF s) t (optToJ stateJ (Txt.decodeState t)))
  | "num" =>
    let v ← ratOfJson obj
    let t := Txt.renderNum (Txt.gnumOf v)
    pure (out true t (optToJ ratToJson (Txt.parseNum t)))
  | "bsd" =>
    let d ← listOf obj (pairOf stateOf ratOfJson)
    let t := Txt.encodeBSD d
    pure (out (d.all (fun e => Txt.FState.WF e.1) && nodupB (d.map Prod.fst) && Txt.uniform (d.map (·.1.length))) t
      (optToJ (listJ (pairJ stateJ ratToJson)) (Txt.decodeBSD t)))
  | "bsc" =>
    let d ← listOf obj (pairOf stateOf (·.getNat?))
    let t := Txt.encodeBSC d
    pure (out (d.all (fun e => Txt.FState.WF e.1) && nodupB (d.map Prod.fst)) t
      (optToJ (listJ (pairJ stateJ natJ)) (Txt.decodeBSC t)))
  | "bss" =>
    let l ← listOf obj stateOf
    let t := Txt.encodeBSS l
    pure (out (l.all Txt.FState.WF) t (optToJ (listJ stateJ) (Txt.decodeBSS t)))
  | "sv" =>
    let sv ← listOf obj termOf
    let t := Txt.encodeSV sv
    pure (out (!sv.isEmpty && sv.all (fun t => Txt.FState.WF t.2.2) && Txt.uniform (sv.map (·.2.2.length))) t
      (optToJ (listJ termJ) (Txt.decodeSV t)))
  | "svd" =>
    let d ← listOf obj (pairOf (fun j => listOf j termOf) ratOfJson)
    let t := Txt.encodeSVD d
    pure (out (d.all (fun e => !e.1.isEmpty && e.1.all (fun t => Txt.FState.WF t.2.2)
          && Txt.uniform (e.1.map (·.2.2.length)))
        && Txt.uniform (d.map (Txt.svModes ·.1)) && nodupB (d.map fun e => e.1.map Txt.roundTerm)) t
      (optToJ (listJ (pairJ (listJ termJ) ratToJson)) (Txt.decodeSVD t)))
  | k => throw s!"unknown text kind {k}"

def decTxtOp (kind : String) (t : Text) : Except String Json := do
  let out (dec : Json) : Json := Json.mkObj [("dec", dec)]
  match kind with
  | "state" => pure (out (optToJ stateJ (Txt.decodeState t)))
  | "num" => pure (out (optToJ ratToJson (Txt.parseNum t)))
  | "bsd" => pure (out (optToJ (listJ (pairJ stateJ ratToJson)) (Txt.decodeBSD t)))
  | "bsc" => pure (out (optToJ (listJ (pairJ stateJ natJ)) (Txt.decodeBSC t)))
  | "bss" => pure (out (optToJ (listJ stateJ) (Txt.decodeBSS t)))
  | "sv" => pure (out (optToJ (listJ termJ) (Txt.decodeSV t)))
  | "svd" => pure (out (optToJ (listJ (pairJ (listJ termJ) ratToJson)) (Txt.decodeSVD t)))
  | k => throw s!"unknown text kind {k}"

def handleE (j : Json) : Except String Json := do
  let op ← strOf j "op"
  match op with
  | "txt" => txtOp (← strOf j "kind") (← j.getObjVal? "obj")
  | "dectxt" => decTxtOp (← strOf j "kind") (txt (← strOf j "text"))
  | "circuit" =>
    let cfg ← cfgOf j
    let tbl ← evsOf j
    let c ← compOf (← j.getObjVal? "obj")
    if compNeeds tbl c then throw "missing expression value"
    let w := encodeCircuit cfg (evFn tbl) c
    let r := decodeCircuit cfg w
    let eq := match r with
      | some (c', _) => (compJ c').compress == (compJ (wrap c).norm).compress
      | none => false
    pure (Json.mkObj ([("enc", pbTypeJ w), ("eq", eq), ("norm", compJ (wrap c).norm)] ++ decResJ compJ r))
  | "component" =>
    let cfg ← cfgOf j
    let tbl ← evsOf j
    let c ← compOf (← j.getObjVal? "obj")
    if compNeeds tbl c then throw "missing expression value"
    let w := encType cfg (evFn tbl) c
    let r := decType cfg c.size w {}
    pure (Json.mkObj ([("enc", Json.mkObj [("start", (0 : Nat)), ("n", c.size), ("t", pbTypeJ w)])] ++ decResJ compJ r))
  | "decpb" =>
    let cfg ← cfgOf j
    let w ← pbTypeOf (← j.getObjVal? "pb")
    let top ← boolOf j "top"
    let n ← natOf j "n"
    let r := if top then decodeCircuit cfg w else decType cfg n w {}
    pure (Json.mkObj (decResJ compJ r))
  | "experiment" =>
    let cfg ← cfgOf j
    let tbl ← evsOf j
    let x ← expOf (← j.getObjVal? "obj")
    if itemsNeeds tbl x.comps then throw "missing expression value"
    let w := encExperiment cfg (evFn tbl) x
    let r := decExperiment cfg w
    pure (Json.mkObj ([("enc", pbExpJ w), ("norm", expJ x.norm)] ++ decResJ expJ r))
  | "decexp" =>
    let cfg ← cfgOf j
    let w ← pbExpOf (← j.getObjVal? "pb")
    pure (Json.mkObj (decResJ expJ (decExperiment cfg w)))
  | "det" =>
    let d ← detOf (← j.getObjVal? "obj")
    pure (Json.mkObj [("enc", pbDetJ (encDet d)), ("dec", optToJ detJ (decDet (encDet d)))])
  | "decdet" => pure (Json.mkObj [("dec", optToJ detJ (decDet (← pbDetOf (← j.getObjVal? "pb"))))])
  | "port" =>
    let p ← portOf (← j.getObjVal? "obj")
    pure (Json.mkObj [("enc", pbPortJ (encPort p)), ("dec", optToJ portJ (decPort (encPort p)))])
  | "decport" => pure (Json.mkObj [("dec", optToJ portJ (decPort (← pbPortOf (← j.getObjVal? "pb"))))])
  | "noise" =>
    let n ← noiseOf (← j.getObjVal? "obj")
    pure (Json.mkObj [("enc", kvsJ (encNoise n)), ("dec", optToJ noiseJ (decNoise (encNoise n)))])
  | "noisehist" =>
    -- `NoiseModel(**args)` then `set_value` calls (`Model/C15Noise.lean`); a raising call is skipped
    let a ← noiseOf (← j.getObjVal? "args")
    let errJ : NoiseC.Err → Json := fun e => match e with | .type => "TypeError" | .value => "ValueError" | .key => "KeyError"
    match NoiseC.ctor a with
    | .error e => pure (Json.mkObj [("ctor", errJ e)])
    | .ok n0 =>
      let ops ← listOf (← j.getObjVal? "ops") fun o => match o with
        | .arr #[.str "num", .str name, v] => do pure (NoiseC.Op.num name (← ratOfJson v))
        | .arr #[.str "bool", .bool b] => pure (NoiseC.Op.bool b)
        | _ => throw "bad set_value call"
      let (n, raised, _) := ops.foldl (fun (acc : Noise × List Json × Nat) o =>
        match NoiseC.step acc.1 o with
        | .ok n' => (n', acc.2.1, acc.2.2 + 1)
        | .error e => (acc.1, acc.2.1 ++ [Json.arr #[(acc.2.2 : Nat), errJ e]], acc.2.2 + 1)) (n0, [], 0)
      pure (Json.mkObj [("ctor", "ok"), ("raised", Json.arr raised.toArray), ("state", noiseJ n),
        ("same", decide (n = NoiseC.runOps n0 ops)),
        ("enc", kvsJ (encNoise n)),
        ("dec", match NoiseC.decV (encNoise n) with | .ok m => noiseJ m | .error e => errJ e)])
  | "decnoisev" =>
    pure (Json.mkObj [("dec", match NoiseC.decV (← kvsOf (← j.getObjVal? "pb")) with
      | .ok m => noiseJ m | .error e => Json.mkObj [("raises", (match e with | .type => "TypeError" | .value => "ValueError" | .key => "KeyError" : String))])])
  | "decnoise" => pure (Json.mkObj [("dec", optToJ noiseJ (decNoise (← kvsOf (← j.getObjVal? "pb"))))])
  | "mat" =>
    let m ← matOf (← j.getObjVal? "obj")
    let asFound := (j.getObjVal? "asfound").toOption.bind (·.getBool?.toOption) |>.getD false
    let w := if asFound then encMatAsFound m else encMat m
    pure (Json.mkObj [("enc", pbMatJ w), ("dec", optToJ matJ (decMat w))])
  | "kw" =>
    let tag := txt (← strOf j "tag")
    pure (Json.mkObj [("accepted", kwAccepted false tag), ("accepted_as_found", kwAccepted true tag),
      ("known", decide (tag ∈ knownTags))])
  | "decmat" => pure (Json.mkObj [("dec", optToJ matJ (decMat (← pbMatOf (← j.getObjVal? "pb"))))])
  | "envelope" =>
    let t := handleCompression idCodec (mkEnv (txt (← strOf j "tag")) (txt (← strOf j "payload"))) (← boolOf j "compress")
    pure (Json.mkObj [("text", str t), ("open", optToJ tpJ (openEnvelope idCodec t))])
  | "open" => pure (Json.mkObj [("open", optToJ tpJ (openEnvelope idCodec (txt (← strOf j "text"))))])
  | "bss" =>
    let l ← listOf (← j.getObjVal? "samples") (·.getStr?)
    let w := bssEncode l
    pure (Json.mkObj [("dict", listJ (fun (s : String) => (s : Json)) w.1), ("order", listJ (fun (n : Nat) => (n : Json)) w.2),
      ("dec", optToJ (listJ (fun (s : String) => (s : Json))) (bssDecode w))])
  | "grid" =>
    let n ← natOf j "n"
    let d ← natOf j "d"
    if d = 0 then throw "zero denominator"
    pure (Json.mkObj [("num", gridNum n d), ("exp", gridExp n d), ("mult10", mult10 n d)])
  | "ffcp" =>
    let d ← payOf (← j.getObjVal? "default")
    let ops ← listOf (← j.getObjVal? "ops") ffOpOf
    let p0 : FProv := FF.Prov.new Prod.snd (← natOf j "m") (← intOf j "offset") (← strOf j "name") d
    let (p, bad) := runSkip p0 ops 0 []
    let wireKeys ← optField j "wire" (fun w => listOf w (·.getStr?))
    let wire ← match wireKeys with
      | none => pure p.map
      | some ks =>
        if ks.length != p.map.length then throw "wire order is not a permutation of the keys" else
        ks.mapM fun k => match p.map.find? (·.1 == k) with
          | some e => pure e
          | none => throw "wire order names an unknown key"
    let w := FF.encProv id p wire
    let encJ := Json.mkObj [("name", w.name), ("offset", Json.num (Lean.JsonNumber.fromInt w.offset)), ("block", w.block),
      ("default", payJ w.default),
      ("configs", listJ (fun (e : String × FPay) => Json.arr #[(e.1 : String), (e.2.1 : Nat), (e.2.2 : Nat)]) w.configs)]
    pure (Json.mkObj [("raised", listJ (fun (n : Nat) => (n : Json)) bad), ("state", provJ p), ("good", isGood p),
      ("enc", encJ), ("dec", optToJ provJ (FF.decProv some Prod.snd false p.m w)),
      ("dec_flag_first", optToJ provJ (FF.decProv some Prod.snd true p.m w))])
  | "ps" | "psparse" | "pseval" | "pswrite" => C15PSD.handle j
  | "tree" | "treedec" => C15TreeD.handle j
  | "f32" | "f32s" | "ffc" | "ffcp_any" | "detctors" | "detdecs" => C15FFVD.handle j
  | _ => throw s!"unknown op {op}"

def handle (j : Json) : Json :=
  match handleE j with
  | .ok r => r
  | .error e => errJson e

end C15D

def main : IO Unit := run C15D.handle
