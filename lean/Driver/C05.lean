import PercevalModel.Proto
import PercevalModel.Model.C05

/-
  C05 driver.  One request = one history of one long-lived object:
    {"fam": "backend", "kind": "naive|slap|slos|mps", "fixed": b, "ops": [op, …]}
    {"fam": "stepper" | "simulator", "fixed": b, "ops": [op, …]}
    {"fam": "processor", "persist": b, "ops": [op, …]}   (persist = true: the code as it is)
  reply {"outs": [out, …], "abs": [abstraction of the caches after each step, …]}.
  backend op   = ["circ", m, uid] | ["in", [n…]] | ["mask", sid, len, n|null] | ["clear"] | ["cutoff", k]
               | ["q", "dist"|"allprob"|"evolve"|"amp"]
  stepper op   = ["circ", c] | ["params", pv] | ["filter", k] | ["evolve", inp]
  simulator op = ["circ", c] | ["heralds", h, n] | ["clear_heralds"] | ["other", o]
               | ["probs_svd", pnr, generic, [[st, nExt, nOwn], …]] | ["evolve", [[st, nExt, nOwn], …]]
               | ["evolve_svd", [[passes_filter, [[st, nExt, nOwn], …]], …]] | ["probs", [st, …]] | ["direct", [st, …]]
                 (keys in the order `_evolve_cache_with_n` walks them: sorted by n)
  processor op = ["comps", c] | ["add", c] | ["det", d] | ["herald", h, n] | ["ps", p] | ["clear_ps"]
               | ["noise", id, perfect] | ["mutate", id, perfect] | ["input", "bs"|"svd", i, n] | ["filter", k]
               | ["probs", prec|null] | ["samples"]
  out          = "ok" | "exc:<class>" | "stale" | {"res": …}
-/
open Lean PM PM.Proto PM.C05

def tag (j : Json) : Except String (String × Array Json) := do
  let a ← j.getArr?
  if h : 0 < a.size then
    return (← a[0].getStr?, a)
  else throw "empty tuple"

def arg (a : Array Json) (i : Nat) : Except String Json :=
  match a[i]? with
  | some v => pure v
  | none => throw "missing argument"

def argNat (a : Array Json) (i : Nat) : Except String Nat := do (← arg a i).getNat?
def argBool (a : Array Json) (i : Nat) : Except String Bool := do (← arg a i).getBool?
def argOptNat (a : Array Json) (i : Nat) : Except String (Option Nat) := do
  match ← arg a i with
  | .null => return none
  | v => return some (← v.getNat?)

def optNat : Option Nat → Json
  | none => .null
  | some k => (k : Nat)

def natsJ (l : List Nat) : Json := .arr (l.map fun (k : Nat) => (k : Json)).toArray

def sortNat (l : List Nat) : List Nat := (l.toArray.qsort (· < ·)).toList

def lexLt : List Nat → List Nat → Bool
  | [], [] => false
  | [], _ => true
  | _, [] => false
  | a :: r, b :: t => a < b || (a == b && lexLt r t)

def sortLists (l : List (List Nat)) : List (List Nat) := (l.toArray.qsort lexLt).toList

/-! backend -/

def parseKind : String → Except String Kind
  | "naive" => pure .naive | "slap" => pure .slap | "slos" => pure .slos | "mps" => pure .mps
  | k => throw s!"bad kind {k}"

def parseQ : String → Except String Q
  | "dist" => pure .dist | "allprob" => pure .allprob | "evolve" => pure .evolve | "amp" => pure .amp
  | "amp_other" => pure .ampOther
  | q => throw s!"bad query {q}"

def parseOpB (j : Json) : Except String Op := do
  let (t, a) ← tag j
  match t with
  | "circ" => return .setCircuit ⟨← argNat a 1, ← argNat a 2⟩
  | "in" => return .setInput (← natList (← arg a 1))
  | "mask" => return .setMask (← argNat a 1) (← argNat a 2) (← argOptNat a 3)
  | "clear" => return .clearMask
  | "cutoff" => return .setCutoff (← argNat a 1)
  | "q" => return .query (← parseQ (← (← arg a 1).getStr?))
  | _ => throw s!"bad backend op {t}"

def minstJ : MInst → Json
  | none => .null
  | some (sid, n) => .arr #[(sid : Nat), (n : Nat)]

def outJ : Out → Json
  | .ok => "ok"
  | .exc e => .str s!"exc:{e}"
  | .stale => "stale"
  | .res uid inp t cut => Json.mkObj [("res", .arr #[(uid : Nat), natsJ inp, (t.1 : Nat), minstJ t.2, optNat cut])]

def absB (s : B) : Json :=
  Json.mkObj [
    ("iter", natsJ (sortNat (s.iter.map (·.1)))),
    ("masks", .bool s.mask.isSome),
    ("mask_n", match s.mask with | some mc => optNat mc.n | none => .null),
    ("has_mask", .bool s.minst.isSome),
    ("layers", (s.layers.length : Nat)),
    ("fsas", natsJ (sortNat (s.fsas.map (·.1)))),
    ("inputs", .arr ((sortLists (s.paths.map (·.1))).map natsJ).toArray),
    ("npaths", (s.paths.length : Nat)),
    ("fock", match s.fock with | some (m, n) => .arr #[(m : Nat), (n : Nat)] | none => .null),
    ("cut_req", optNat s.cutReq),
    ("inst_n", optNat s.instN)]

def runB (fixed : Bool) (k : Kind) (ops : Array Json) : Except String Json := do
  let mut s := initB k
  let mut outs : Array Json := #[]
  let mut abs : Array Json := #[]
  for j in ops do
    let op ← parseOpB j
    let (s', o) := stepB fixed s op
    s := s'
    outs := outs.push (outJ o)
    abs := abs.push (absB s)
  return Json.mkObj [("outs", .arr outs), ("abs", .arr abs)]

/-! stepper -/

def parseOpSt (j : Json) : Except String StOp := do
  let (t, a) ← tag j
  match t with
  | "circ" => return .setCircuit (← argNat a 1)
  | "params" => return .setParams (← argNat a 1)
  | "filter" => return .setFilter (← argNat a 1)
  | "evolve" => return .evolve (← argNat a 1)
  | _ => throw s!"bad stepper op {t}"

def outStJ : StOut → Json
  | .ok => "ok"
  | .exc e => .str s!"exc:{e}"
  | .res c pv i f => Json.mkObj [("res", .arr #[(c : Nat), (pv : Nat), (i : Nat), (f : Nat)])]

def runSt (fixed : Bool) (ops : Array Json) : Except String Json := do
  let mut s := initSt
  let mut outs : Array Json := #[]
  let mut abs : Array Json := #[]
  for j in ops do
    let op ← parseOpSt j
    let (s', o) := stepSt fixed s op
    s := s'
    outs := outs.push (outStJ o)
    abs := abs.push (Json.mkObj [("compiled", .bool s.compiled.isSome)])
  return Json.mkObj [("outs", .arr outs), ("abs", .arr abs)]

/-! simulator -/

def parseKeys (j : Json) : Except String (List SiKey) := do
  (← j.getArr?).toList.mapM fun k => do
    match ← natList k with
    | [a, b, c] => return (a, b, c)
    | _ => throw "bad key"

def parseGroups (j : Json) : Except String (List (Bool × List SiKey)) := do
  (← j.getArr?).toList.mapM fun g => do
    let a ← g.getArr?
    return (← argBool a 0, ← parseKeys (← arg a 1))

def parseOpSi (j : Json) : Except String SiOp := do
  let (t, a) ← tag j
  match t with
  | "circ" => return .setCircuit (← argNat a 1)
  | "heralds" => return .setHeralds (← argNat a 1) (← argNat a 2)
  | "clear_heralds" => return .clearHeralds
  | "other" => return .setOther (← argNat a 1)
  | "probs_svd" => return .probsSvd (← argBool a 1) (← argBool a 2) (← parseKeys (← arg a 3))
  | "evolve" => return .evolve (← parseKeys (← arg a 1))
  | "evolve_svd" => return .evolveSvd (← parseGroups (← arg a 1))
  | "probs" => return .probs (← natList (← arg a 1))
  | "direct" => return .direct (← natList (← arg a 1))
  | _ => throw s!"bad simulator op {t}"

def partsJ (parts : List (Nat × Nat)) : Json := .arr (parts.map fun p => natsJ [p.1, p.2]).toArray

def outSiJ : SiOut → Json
  | .ok => "ok"
  | .exc e => .str s!"exc:{e}"
  | .stale => "stale"
  | .res parts h o => Json.mkObj [("res", .arr #[partsJ parts, (h : Nat), (o : Nat)])]
  | .raw parts => Json.mkObj [("res", .arr #[partsJ parts]), ("raw", .bool true)]

def absSi (s : Si) : Json :=
  Json.mkObj [
    ("evolve", .arr ((sortLists (s.evolve.map fun e => [e.1.1, e.1.2])).map natsJ).toArray),
    ("bare", natsJ (sortNat (s.bare.map (·.1)))),
    ("can_mask", .bool s.canMask),
    ("bmask", match s.bmask with | some (_, n) => (n : Nat) | none => .null)]

def runSi (fixed : Bool) (ops : Array Json) : Except String Json := do
  let mut s := initSi
  let mut outs : Array Json := #[]
  let mut abs : Array Json := #[]
  for j in ops do
    let op ← parseOpSi j
    let (s', o) := stepSi fixed s op
    s := s'
    outs := outs.push (outSiJ o)
    abs := abs.push (absSi s)
  return Json.mkObj [("outs", .arr outs), ("abs", .arr abs)]

/-! processor -/

def parseKindIn : String → Except String InKind
  | "bs" => pure .bs | "svd" => pure .svd
  | k => throw s!"bad input kind {k}"

def parseOpPr (j : Json) : Except String PrOp := do
  let (t, a) ← tag j
  match t with
  | "comps" => return .setComps (← argNat a 1)
  | "add" => return .addComp (← argNat a 1)
  | "det" => return .addDet (← argNat a 1)
  | "herald" => return .addHerald (← argNat a 1) (← argNat a 2)
  | "ps" => return .setPs (← argNat a 1)
  | "clear_ps" => return .clearPs
  | "noise" => return .setNoise (← argNat a 1, ← argBool a 2)
  | "mutate" => return .mutateNoise (← argNat a 1, ← argBool a 2)
  | "input" => return .withInput (← parseKindIn (← (← arg a 1).getStr?)) (← argNat a 2) (← argNat a 3)
  | "filter" => return .setFilter (← argNat a 1)
  | "probs" => return .probs (← argOptNat a 1)
  | "samples" => return .samples
  | _ => throw s!"bad processor op {t}"

def ansPrJ (r : PrAns) : Json :=
  Json.mkObj [
      ("comps", (r.comps : Nat)), ("her", (r.her : Nat)), ("ps", (r.ps : Nat)), ("det", (r.det : Nat)),
      ("phase", (r.phase : Nat)), ("src", optNat r.src),
      ("kind", match r.kind with | .bs => "bs" | .svd => "svd"),
      ("inp", (r.inp : Nat)), ("her_in", (r.herIn : Nat)), ("filt", (r.filt : Nat)), ("prec", optNat r.prec)]

def outPrJ : PrOut → Json
  | .ok => "ok"
  | .exc e => .str s!"exc:{e}"
  | .res r => Json.mkObj [("res", ansPrJ r), ("q", "probs")]
  | .smp r => Json.mkObj [("res", ansPrJ r), ("q", "samples")]

def absPr (s : Pr) : Json :=
  Json.mkObj [("sim", .bool s.sim.isSome), ("inputs_map", .bool s.inputsMap.isSome), ("filt", optNat s.filt),
    ("prec_set", .bool s.precSet), ("dirty", .bool (s.held != s.noise)), ("auto", .bool s.auto)]

def runPr (persist : Bool) (ops : Array Json) : Except String Json := do
  let mut s := initPr
  let mut outs : Array Json := #[]
  let mut abs : Array Json := #[]
  for j in ops do
    let op ← parseOpPr j
    let (s', o) := stepPr persist s op
    s := s'
    outs := outs.push (outPrJ o)
    abs := abs.push (absPr s)
  return Json.mkObj [("outs", .arr outs), ("abs", .arr abs)]

def handleE (j : Json) : Except String Json := do
  let fam ← strOf j "fam"
  let ops ← arrOf j "ops"
  match fam with
  | "backend" => runB (← boolOf j "fixed") (← parseKind (← strOf j "kind")) ops
  | "stepper" => runSt (← boolOf j "fixed") ops
  | "simulator" => runSi (← boolOf j "fixed") ops
  | "processor" => runPr (← boolOf j "persist") ops
  | f => throw s!"bad family {f}"

def handle (j : Json) : Json :=
  match handleE j with
  | .ok r => r
  | .error e => errJson e

def main : IO Unit := run handle
