import PercevalModel.Proto
import PercevalModel.Model.C12
import PercevalModel.Model.C12Solve
import PercevalModel.Model.C12Block
import PercevalModel.Model.C12Glue
import PercevalModel.Model.C12Other
import PercevalModel.Model.C12Inst

/-!
  C12 driver.  Requests (one JSON object per line):

  * `{"op":"prod","m":N,"leaves":[{"off":o,"U":rows},…]}` → `{"M":rows}`: exact product of the embedded
    leaves (the first leaf is applied first).
  * `{"op":"fold","m":N,"U":rows,"prec":"p/q","ignore":b,"perm":b,"v":b,"h":b,
      "items":[{"k":"block","off":n,"leaves":[{"off":0|1,"U":rows},…]} | {"k":"perm","off":n,"p":[…]}],
      "phase_idx":[…], "pattern":[[o,w],…]}`
    `items` is the returned circuit without its phase layer, in the order `decompose_triangle` listed it;
    leaf matrices are the ones observed in the returned circuit (after `C.inverse(v,h)` when requested):
    the driver undoes the inversion exactly (`vflip`, exact inverse), replays the bookkeeping of
    `decompose_triangle` on `U` with those blocks as solver results and reports the predicted component list,
    the final `u` (diagonal, largest off-diagonal modulus²), the ghost error term and the flat structure
    the model of `Circuit.inverse` predicts for the returned circuit.  The solver results handed to the model are
    `(B, Binv)` with `Binv` the exact inverse over ℚ[i]; `inv_holds` reports the (exact) evaluation of the
    invariant `circMat comps · u + err = U` of `triangle_reconstruct_with_error` on the result.
  * `{"op":"solve","a":[q…],"b":q,"x0":[q…],"cs":[q|null,…],"prec":q,"allow":b,"opt":[q…]}` →
    `{"res":[q…]}` or `{"none":true}`: the model of `solve.py: solve` (`Model/C12Solve.lean`) on the function
    `f(x) = |b + Σ aᵢ·xᵢ|` over ℚ (exact), the numerical minimiser being the oracle that returns `opt` (the point the
    real minimiser was observed to return; it is not consulted when every parameter is imposed).  Exact replies.
  * `{"op":"inst","cells":[{"free":b,"val":q|null,"lo":q|null,"hi":q|null,"per":b},…],"res":[q…]}` →
    `{"bounds":[null|[lo|null,hi|null],…],"out":null|[{"free":b,"val":q|null},…]}`: the parameter table of a block
    template (`get_parameters(all_params=True)` order), the `bounds` list `decompose_triangle` builds from it and the
    table after `for i, r in enumerate(res): get_parameters()[0].fix_value(res[i])` (`Model/C12Inst.lean`; `null` =
    the loop raises).  A periodic cell with `hi ≤ lo` is rejected (outside the model).
  * `{"op":"optargs","x0":[q…],"bs":[n…],"cs":[q|null,…]}` → `{"x0":[q…],"bs":[n…]}`: what the recursion of `solve`
    has made of `x0` and of `bounds` (given as labels) when it reaches the minimiser.
  * `{"op":"matclass","cls":"numeric"|"symdef"|"symfree","repaired":b}` → `{"passes":b,"readable":b}`: does the object
    pass the "non symbolic" test of `Circuit.decomposition`, and can `add_phases` read the matrix the elimination runs on.
  * `{"op":"leave","m":N,"U":rows,"prec":"p/q","ignore":b}` → `{"zeroed":[[n,j],…],"other":[…]}`: the entries of the
    array shared by all attempts of the retry loop that one attempt of the PINNED code started on `U` changed
    (`inPlace`: `u[n,j] = 0` of the leading identity skips; every other entry is left as it is).  The main model
    (repaired code, `decompositionRetry`) leaves the array untouched; this op names the shape on which the pinned code
    wrote into its caller's matrix and recognises that behaviour when a tree still has it.
  * `fold` also reports the ghost recording `trace` of the replayed run (`Model/C12Block.lean`): `"cells"` = one entry
    `[j, n, solved, a, b, |z|²]` per cell (`a = u[n,j]`, `b = u[n+1,j]` on entry, `z` the value `u[n,j] = 0`
    overwrites), `"lower"` = the final `u` is exactly lower triangular (`final_u_lower_triangular`), `"resid2"` =
    `‖U − circMat comps · u‖_F²` and `"offF2"` = the squared Frobenius norm of the off-diagonal part of the final `u`
    (the quantities of `residue_bound` / `decomposition_error_bound`).
  * `{"op":"blockmat","block":"bs_ps","c":q,"s":q,"p":[re,im],"a":z,"b":z}` /
    `{"op":"blockmat","block":"mzi_last","ea":[re,im],"eb":[re,im],"a":z,"b":z}` → the block's matrix `M`
    (`bsPs` as built / `mziMat`), the matrix `Minv` the equation is built from (`bsPsInv` / `mziInv`), the value `eq` of
    `cU_inv[0,0]·a + cU_inv[0,1]·b` and whether `Minv · M = 1` — exact, at rational points of the unit circle
    (`c² + s² = 1`, `|p| = |ea| = |eb| = 1`, rejected otherwise).  Also `"block":"bs"` (`c`, `s`: `BS(theta)` alone) and
    `"block":"mzi_first"` (`ea`, `eb`: `catalog['mzi phase first']`), `Model/C12Other.lean`; their replies carry
    `"nullable"`: whether SOME parameter value nulls the equation for this `(a, b)`, decided exactly by the criterion of
    `bs_alone_nullable_iff` (`Re(a·conj b) = 0`) / `mzi_phase_first_nullable_iff` (`Im(a·conj b) = 0`).
  * `{"op":"glue","shape":{"str":"triangle"|"rectangle"|null} | {"obj":"triangle"|"rectangle"|"foreign"},
      "unitary":b,"symbolic":b,"constraints":null|"notlist"|[len|-1,…],"nparams":k,"max_try":n,"attempts":[b,…]}` →
    `{"outcome":"ValueError"|"AssertionError"|"NotImplementedError"|"None"|"circuit","k":attempt}`: the control flow of
    `Circuit.decomposition` (`Model/C12Glue.lean`); `attempts[k]` = attempt `k` of `decompose_triangle` returned a list
    (false beyond the end of the array); an entry of `constraints` is the length of a list/tuple or -1 for another object.
  Numbers in replies of `prod`/`fold` are rounded down to multiples of 2⁻¹⁰⁰ (the harness compares with 1e-9).
-/

open Lean PM PM.Proto PM.C12

def matOfRows (k : ℕ) (rows : Array (Array GQ)) : Matrix (Fin k) (Fin k) GQ :=
  fun i j => (rows.getD i.val #[]).getD j.val 0

def readMat (j : Json) : Except String (Σ k, Matrix (Fin k) (Fin k) GQ) := do
  let rows ← gqRows j
  let k := rows.size
  if rows.any (·.size ≠ k) then throw "bad matrix"
  return ⟨k, matOfRows k rows⟩

def readMatN (n : ℕ) (j : Json) : Except String (Matrix (Fin n) (Fin n) GQ) := do
  let rows ← gqRows j
  if rows.size ≠ n ∨ rows.any (·.size ≠ n) then throw "bad matrix size"
  return matOfRows n rows

def approxQ (q : ℚ) : ℚ := mkRat (Rat.floor (q * (2 : ℚ) ^ 100)) (2 ^ 100)
def approxG (z : GQ) : GQ := ⟨approxQ z.re, approxQ z.im⟩

def rowsOfV {n : ℕ} (v : MatV GQ n n) : Json :=
  rowsToJson (v.toArray.map fun r => r.toArray.map approxG)

def gqInv (z : GQ) : Except String GQ :=
  let d := GQ.normSq z
  if d = 0 then throw "singular" else pure ⟨z.re / d, -z.im / d⟩

/-- exact inverse of a 1×1 or 2×2 matrix -/
def smallInv : (k : ℕ) → Matrix (Fin k) (Fin k) GQ → Except String (Matrix (Fin k) (Fin k) GQ)
  | 1, B => do
    let w ← gqInv (B 0 0)
    return fun _ _ => w
  | 2, B => do
    let a := B 0 0; let b := B 0 1; let c := B 1 0; let d := B 1 1
    let w ← gqInv (a * d - b * c)
    let r : Array (Array GQ) := #[#[d * w, -b * w], #[-c * w, a * w]]
    return matOfRows 2 r
  | _, _ => throw "inverse of a leaf wider than 2 modes not supported"

def materialise {k : ℕ} (B : Matrix (Fin k) (Fin k) GQ) : Matrix (Fin k) (Fin k) GQ :=
  (MatV.ofMatrix B).toMatrix

/-- undo `component.inverse(v, h)` on an observed leaf matrix -/
def unInvert (v h : Bool) (k : ℕ) (B : Matrix (Fin k) (Fin k) GQ) :
    Except String (Matrix (Fin k) (Fin k) GQ) := do
  let B1 := materialise (vflipIf v B)
  if h then smallInv k B1 else pure B1

def readLeaves (j : Json) : Except String (List (Leaf GQ)) := do
  let arr ← j.getArr?
  arr.toList.mapM fun l => do
    let off ← natOf l "off"
    let ⟨k, B⟩ ← readMat (← l.getObjVal? "U")
    return (off, ⟨k, materialise B⟩)

inductive Item where
  | block (n : ℕ) (B Binv : Matrix (Fin 2) (Fin 2) GQ)
  | perm (n : ℕ) (p : List ℕ)

def readItem (v h : Bool) (j : Json) : Except String Item := do
  let kind ← strOf j "k"
  let n ← natOf j "off"
  if kind == "perm" then
    return .perm n (← natList (← j.getObjVal? "p"))
  else if kind == "block" then
    let ls ← readLeaves (← j.getObjVal? "leaves")
    let ls' ← ls.mapM fun (l : Leaf GQ) => do
      if l.1 + l.2.1 > 2 then throw "leaf outside the block"
      let B ← unInvert v h l.2.1 l.2.2
      return ((l.1, ⟨l.2.1, B⟩) : Leaf GQ)
    let B := (prodLeavesV 2 ls').toMatrix
    -- the exact inverse over ℚ[i]: `B · Binv = 1` holds exactly (hypothesis of `triangle_reconstruct`); the
    -- invariant `circMat comps · u + err = U` is nevertheless re-checked on the result (`inv_holds` in the reply)
    let Binv0 ← smallInv 2 B
    let Binv := materialise Binv0
    return .block n B Binv
  else throw "bad item kind"

def maxNorm2 {n : ℕ} (M : Matrix (Fin n) (Fin n) GQ) (p : Fin n → Fin n → Bool) : ℚ :=
  (List.finRange n).foldl (fun acc i =>
    (List.finRange n).foldl (fun acc j =>
      if p i j then max acc (GQ.normSq (M i j)) else acc) acc) 0

def sumNorm2 {n : ℕ} (M : Matrix (Fin n) (Fin n) GQ) (p : Fin n → Fin n → Bool) : ℚ :=
  (List.finRange n).foldl (fun acc i =>
    (List.finRange n).foldl (fun acc j =>
      if p i j then acc + GQ.normSq (M i j) else acc) acc) 0

def cellJson (r : CellRec GQ) : Json :=
  Json.arr #[toJson r.j, toJson r.n, toJson r.solved, gqToJson (approxG r.a), gqToJson (approxG r.b),
    ratToJson (approxQ (GQ.normSq r.z))]

def compJson : Comp GQ → Json
  | .block n _ => Json.arr #["block", toJson n]
  | .perm n d => Json.arr #["perm", toJson n, toJson (permList d)]
  | .ps i _ => Json.arr #["ps", toJson i]

def itemJson : Item → Json
  | .block n _ _ => Json.arr #["block", toJson n]
  | .perm n p => Json.arr #["perm", toJson n, toJson p]

/-- flat `(first port, width)` structure of the un-inverted circuit -/
def flatOf (phaseIdx : List ℕ) (pattern : List (ℕ × ℕ)) (comps : List (Comp GQ)) : List (Leaf GQ) :=
  let dummy (o k : ℕ) : Leaf GQ := (o, ⟨k, 1⟩)
  phaseIdx.map (fun i => dummy i 1) ++
    comps.flatMap fun c => match c with
      | .block n _ => pattern.map fun (o, w) => dummy (n + o) w
      | .perm n d => [dummy n (d + 1)]
      | .ps i _ => [dummy i 1]

def handleFold (j : Json) : Except String Json := do
  let m ← natOf j "m"
  let U ← readMatN m (← j.getObjVal? "U")
  let prec ← ratOfJson (← j.getObjVal? "prec")
  let ignore ← boolOf j "ignore"
  let perm ← boolOf j "perm"
  let v ← boolOf j "v"
  let h ← boolOf j "h"
  let items ← (← arrOf j "items").toList.mapM (readItem v h)
  let phaseIdx ← natList (← j.getObjVal? "phase_idx")
  let pattern ← (← arrOf j "pattern").toList.mapM fun p => do
    match ← natList p with
    | [o, w] => pure (o, w)
    | _ => throw "bad pattern"
  let cfg : Cfg GQ := { small := fun z => decide (GQ.normSq z ≤ prec * prec), ignoreId := ignore, usePerm := perm }
  -- solver results in the order the loop consumed them: the list is prepended, so reverse
  let sols : List (Sol GQ) := items.reverse.filterMap fun it => match it with
    | .block _ B Binv => some (B, Binv)
    | .perm _ _ => none
  match decomposeTriangle cfg (materialise U) sols with
  | none => return Json.mkObj [("none", toJson true), ("observed", Json.arr (items.map itemJson).toArray)]
  | some st =>
    let u := st.u.toMatrix
    let D := (List.finRange m).map fun i => gqToJson (approxG (u i i))
    let off2 := maxNorm2 u fun i j => i != j
    let err2 := maxNorm2 st.err.toMatrix fun _ _ => true
    let resid := (circMatV m st.comps).toMatrix * u + st.err.toMatrix - materialise U
    let inv2 := maxNorm2 resid fun _ _ => true
    let flat := inverseCircuit v h m (fun _ B => B) (flatOf phaseIdx pattern st.comps)
    let tr := trace cfg (initSt (materialise U) sols) (cells m)
    let lower := (List.finRange m).all fun a => (List.finRange m).all fun b => !(a.val < b.val) || decide (u a b = 0)
    return Json.mkObj [
      ("cells", Json.arr (tr.map cellJson).toArray),
      ("lower", toJson lower),
      ("resid2", ratToJson (approxQ (sumNorm2
        (materialise (materialise U - materialise ((circMatV m st.comps).toMatrix * u))) fun _ _ => true))),
      ("offF2", ratToJson (approxQ (sumNorm2 u fun i j => i != j))),
      ("comps", Json.arr (st.comps.map compJson).toArray),
      ("observed", Json.arr (items.map itemJson).toArray),
      ("left", toJson st.rest.length),
      ("nskip", toJson st.nskip),
      ("D", Json.arr D.toArray),
      ("off2", ratToJson (approxQ off2)),
      ("err2", ratToJson (approxQ err2)),
      ("inv_holds", toJson (decide (inv2 = 0))),
      ("flat", Json.arr (flat.map fun l => Json.arr #[toJson l.1, toJson l.2.1]).toArray)]

def handleProd (j : Json) : Except String Json := do
  let m ← natOf j "m"
  let ls ← readLeaves (← j.getObjVal? "leaves")
  if ls.any fun l => l.1 + l.2.1 > m then throw "leaf outside the circuit"
  return Json.mkObj [("M", rowsOfV (prodLeavesV m ls))]

def handleLeave (j : Json) : Except String Json := do
  let m ← natOf j "m"
  let U ← readMatN m (← j.getObjVal? "U")
  let prec ← ratOfJson (← j.getObjVal? "prec")
  let ignore ← boolOf j "ignore"
  let cfg : Cfg GQ := { small := fun z => decide (GQ.normSq z ≤ prec * prec), ignoreId := ignore, usePerm := false }
  let U0 := materialise U
  let V := materialise (inPlace cfg U0)
  let changed := (cells m).filter fun c => decide (getN V c.2 c.1 ≠ getN U0 c.2 c.1)
  -- `inPlace` only ever touches the cells of the double loop: anything else that differs is reported as well
  let other := (List.finRange m).flatMap fun a => (List.finRange m).filterMap fun b =>
    if V a b ≠ U0 a b ∧ ¬ (cells m).contains (b.val, a.val) then some (a.val, b.val) else none
  return Json.mkObj [
    ("zeroed", Json.arr (changed.map fun c => Json.arr #[toJson c.2, toJson c.1]).toArray),
    ("other", Json.arr (other.map fun c => Json.arr #[toJson c.1, toJson c.2]).toArray)]

def ratListOf (j : Json) (k : String) : Except String (List ℚ) := do
  (← arrOf j k).toList.mapM ratOfJson

def handleSolve (j : Json) : Except String Json := do
  let a ← ratListOf j "a"
  let b ← ratOfJson (← j.getObjVal? "b")
  let x0 ← ratListOf j "x0"
  let cs ← (← arrOf j "cs").toList.mapM fun (c : Json) =>
    if c.isNull then pure (none : Option ℚ) else (ratOfJson c).map some
  let prec ← ratOfJson (← j.getObjVal? "prec")
  let allow ← boolOf j "allow"
  let opt ← ratListOf j "opt"
  if a.length ≠ cs.length ∨ x0.length ≠ cs.length then throw "a, x0 and cs must have the same length"
  let f : List ℚ → ℚ := fun x => |b + ((a.zip x).map fun p => p.1 * p.2).sum|
  match Solve.solve (fun _ _ => opt) allow prec f x0 cs with
  | none => return Json.mkObj [("none", toJson true)]
  | some x => return Json.mkObj [("res", Json.arr (x.map ratToJson).toArray)]

def gqConj (z : GQ) : GQ := ⟨z.re, -z.im⟩

def handleBlock (j : Json) : Except String Json := do
  let name ← strOf j "block"
  let a ← gqOfJson (← j.getObjVal? "a")
  let b ← gqOfJson (← j.getObjVal? "b")
  let reply (M Minv : Matrix (Fin 2) (Fin 2) GQ) (extra : List (String × Json)) : Json :=
    let Mm := MatV.ofMatrix M
    let Mi := MatV.ofMatrix Minv
    Json.mkObj ([("M", rowsToJson (Mm.toArray.map fun r => r.toArray)),
      ("Minv", rowsToJson (Mi.toArray.map fun r => r.toArray)),
      ("eq", gqToJson (nullEq Mi.toMatrix a b)),
      ("unit", toJson (decide (Mi.toMatrix * Mm.toMatrix = 1)))] ++ extra)
  if name == "bs_ps" then
    let c ← ratOfJson (← j.getObjVal? "c")
    let s ← ratOfJson (← j.getObjVal? "s")
    let p ← gqOfJson (← j.getObjVal? "p")
    if c * c + s * s ≠ 1 then throw "c, s not on the unit circle"
    if GQ.normSq p ≠ 1 then throw "p not on the unit circle"
    let M := bsPs GQ.I (GQ.ofRat c) (GQ.ofRat s) p
    let Mc := MatV.ofMatrix (bsPsMat GQ.I (GQ.ofRat c) (GQ.ofRat s) p)
    return reply M (bsPsInv GQ.I (GQ.ofRat c) (GQ.ofRat s) (gqConj p))
      [("closed_form_agrees", toJson (decide ((MatV.ofMatrix M).toMatrix = Mc.toMatrix)))]
  else if name == "mzi_last" then
    let ea ← gqOfJson (← j.getObjVal? "ea")
    let eb ← gqOfJson (← j.getObjVal? "eb")
    if GQ.normSq ea ≠ 1 ∨ GQ.normSq eb ≠ 1 then throw "ea, eb not on the unit circle"
    let h : GQ := GQ.ofRat (1 / 2)
    return reply (mziMat GQ.I h ea eb) (mziInv GQ.I h (gqConj ea) (gqConj eb)) []
  else if name == "bs" then
    -- `BS(theta)` alone (`Model/C12Other.lean`); `nullable` = the criterion of `bs_alone_nullable_iff`, decided exactly
    let c ← ratOfJson (← j.getObjVal? "c")
    let s ← ratOfJson (← j.getObjVal? "s")
    if c * c + s * s ≠ 1 then throw "c, s not on the unit circle"
    return reply (bsRx GQ.I (GQ.ofRat c) (GQ.ofRat s)) (bsRxInv GQ.I (GQ.ofRat c) (GQ.ofRat s))
      [("nullable", toJson (decide ((a * gqConj b).re = 0)))]
  else if name == "mzi_first" then
    -- `catalog['mzi phase first']`; `nullable` = the criterion of `mzi_phase_first_nullable_iff`
    let ea ← gqOfJson (← j.getObjVal? "ea")
    let eb ← gqOfJson (← j.getObjVal? "eb")
    if GQ.normSq ea ≠ 1 ∨ GQ.normSq eb ≠ 1 then throw "ea, eb not on the unit circle"
    let h : GQ := GQ.ofRat (1 / 2)
    return reply (mziFirstMat GQ.I h ea eb) (mziFirstInv GQ.I h (gqConj ea) (gqConj eb))
      [("nullable", toJson (decide ((a * gqConj b).im = 0)))]
  else throw "unknown block"

def readShape (s : String) : Except String Glue.Shape :=
  if s == "triangle" then pure .triangle
  else if s == "rectangle" then pure .rectangle
  else if s == "foreign" then pure .foreign
  else throw "bad shape"

def handleGlue (j : Json) : Except String Json := do
  let sj ← j.getObjVal? "shape"
  let shape : Glue.ShapeArg ←
    match sj.getObjVal? "str" with
    | .ok v => if v.isNull then pure (Glue.ShapeArg.str none) else do
        let s ← readShape (← v.getStr?)
        if s == .foreign then throw "a string cannot resolve to a foreign object"
        pure (Glue.ShapeArg.str (some s))
    | .error _ => do pure (Glue.ShapeArg.obj (← readShape (← (← sj.getObjVal? "obj").getStr?)))
  let cj ← j.getObjVal? "constraints"
  let constraints : Glue.Constraints ←
    if cj.isNull then pure Glue.Constraints.none
    else match cj.getStr? with
      | .ok "notlist" => pure Glue.Constraints.notList
      | .ok _ => throw "bad constraints"
      | .error _ => do
        let es ← (← cj.getArr?).toList.mapM fun (e : Json) => do
          let v ← e.getInt?
          if v < 0 then pure Glue.Entry.other else pure (Glue.Entry.seq v.toNat)
        pure (Glue.Constraints.list es)
  let att ← (← arrOf j "attempts").toList.mapM fun (b : Json) => b.getBool?
  let mt ← intOf j "max_try"
  let r : Glue.Req := { shape := shape, unitary := ← boolOf j "unitary", symbolic := ← boolOf j "symbolic",
                        constraints := constraints, nparams := ← natOf j "nparams", maxTry := mt.toNat }
  match Glue.outcome r (fun k => att.getD k false) with
  | .valueError => return Json.mkObj [("outcome", "ValueError")]
  | .assertionError => return Json.mkObj [("outcome", "AssertionError")]
  | .notImplementedError => return Json.mkObj [("outcome", "NotImplementedError")]
  | .none => return Json.mkObj [("outcome", "None")]
  | .circuit k => return Json.mkObj [("outcome", "circuit"), ("k", toJson k)]

def optRatOf (j : Json) (k : String) : Except String (Option ℚ) := do
  let v ← j.getObjVal? k
  if v.isNull then pure none else (ratOfJson v).map some

def optRatToJson : Option ℚ → Json
  | none => Json.null
  | some q => ratToJson q

def handleInst (j : Json) : Except String Json := do
  let cells ← (← arrOf j "cells").toList.mapM fun (c : Json) => do
    let p : Inst.Par := { free := ← boolOf c "free", val := ← optRatOf c "val", lo := ← optRatOf c "lo",
                          hi := ← optRatOf c "hi", periodic := ← boolOf c "per" }
    match p.periodic, p.lo, p.hi with
    | true, some l, some h => if h ≤ l then throw "periodic parameter with max <= min: outside the model"
    | _, _, _ => pure ()
    pure p
  let res ← ratListOf j "res"
  let bounds := (Inst.boundsOf cells).map fun
    | none => Json.null
    | some (l, h) => Json.arr #[optRatToJson l, optRatToJson h]
  let out := match Inst.instantiate cells res with
    | none => Json.null
    | some ps => Json.arr (ps.map fun p => Json.mkObj [("free", toJson p.free), ("val", optRatToJson p.val)]).toArray
  return Json.mkObj [("bounds", Json.arr bounds.toArray), ("out", out)]

def handleOptArgs (j : Json) : Except String Json := do
  let x0 ← ratListOf j "x0"
  let bs ← natList (← j.getObjVal? "bs")
  let cs ← (← arrOf j "cs").toList.mapM fun (c : Json) =>
    if c.isNull then pure (none : Option ℚ) else (ratOfJson c).map some
  if x0.length ≠ cs.length ∨ bs.length ≠ cs.length then throw "x0, bs and cs must have the same length"
  let r := Inst.optArgs x0 bs cs
  return Json.mkObj [("x0", Json.arr (r.1.map ratToJson).toArray), ("bs", toJson r.2)]

def handleMatClass (j : Json) : Except String Json := do
  let c ← match (← strOf j "cls") with
    | "numeric" => pure Inst.MatClass.numeric
    | "symdef" => pure Inst.MatClass.symbolicDefined
    | "symfree" => pure Inst.MatClass.symbolicFree
    | _ => throw "unknown matrix class"
  let w := Inst.workingClass (← boolOf j "repaired") c
  return Json.mkObj [("passes", toJson (Inst.passesSymbolicTest c)),
    ("readable", toJson (Inst.phaseLayerReadable w))]

def handle (j : Json) : Json :=
  let r : Except String Json := do
    let op ← strOf j "op"
    if op == "prod" then handleProd j
    else if op == "fold" then handleFold j
    else if op == "solve" then handleSolve j
    else if op == "leave" then handleLeave j
    else if op == "blockmat" then handleBlock j
    else if op == "glue" then handleGlue j
    else if op == "inst" then handleInst j
    else if op == "optargs" then handleOptArgs j
    else if op == "matclass" then handleMatClass j
    else throw "unknown op"
  match r with
  | .ok x => x
  | .error e => errJson e

def main : IO Unit := run handle
