import PercevalModel.Proto
import PercevalModel.Model.C12
import PercevalModel.Model.C12Solve

/-!
  C12 driver.  Requests (one JSON object per line):

  * `{"op":"prod","m":N,"leaves":[{"off":o,"U":rows},…]}` → `{"M":rows}`: exact product of the embedded
    leaves (the first leaf is applied first).
  * `{"op":"fold","m":N,"U":rows,"prec":"p/q","ignore":b,"perm":b,"v":b,"h":b,
      "items":[{"k":"block","off":n,"leaves":[{"off":0|1,"U":rows},…]} | {"k":"perm","off":n,"p":[…]}],
      "phase_idx":[…], "pattern":[[o,w],…]}`
    `items` is the returned circuit without its phase layer, in the order `decompose_triangle` listed it;
    leaf matrices are the ones observed in the returned circuit (after `C.inverse(v,h)` when requested):
    the driver undoes the inversion exactly (`vflip`, exact inverse), replays the bookkeeping of
    `decompose_triangle` on `U` with those blocks as solver results and reports the predicted component list,
    the final `u` (diagonal, largest off-diagonal modulus²), the ghost error term and the flat structure
    the model of `Circuit.inverse` predicts for the returned circuit.  The solver results handed to the model are
    `(B, Binv)` with `Binv` the exact inverse over ℚ[i]; `inv_holds` reports the (exact) evaluation of the
    invariant `circMat comps · u + err = U` of `triangle_reconstruct_with_error` on the result.
  * `{"op":"solve","a":[q…],"b":q,"x0":[q…],"cs":[q|null,…],"prec":q,"allow":b,"opt":[q…]}` →
    `{"res":[q…]}` or `{"none":true}`: the model of `solve.py: solve` (`Model/C12Solve.lean`) on the function
    `f(x) = |b + Σ aᵢ·xᵢ|` over ℚ (exact), the numerical minimiser being the oracle that returns `opt` (the point the
    real minimiser was observed to return; it is not consulted when every parameter is imposed).  Exact replies.
  * `{"op":"leave","m":N,"U":rows,"prec":"p/q","ignore":b}` → `{"zeroed":[[n,j],…],"other":[…]}`: the entries of the
    array shared by all attempts of the retry loop that one attempt of the PINNED code started on `U` changed
    (`inPlace`: `u[n,j] = 0` of the leading identity skips; every other entry is left as it is).  The main model
    (repaired code, `decompositionRetry`) leaves the array untouched; this op names the shape on which the pinned code
    wrote into its caller's matrix and recognises that behaviour when a tree still has it.
  Numbers in replies of `prod`/`fold` are rounded down to multiples of 2⁻¹⁰⁰ (the harness compares with 1e-9).
-/

open Lean PM PM.Proto PM.C12

def matOfRows (k : ℕ) (rows : Array (Array GQ)) : Matrix (Fin k) (Fin k) GQ :=
  fun i j => (rows.getD i.val #[]).getD j.val 0

def readMat (j : Json) : Except String (Σ k, Matrix (Fin k) (Fin k) GQ) := do
  let rows ← gqRows j
  let k := rows.size
  if rows.any (·.size ≠ k) then throw "bad matrix"
  return ⟨k, matOfRows k rows⟩

def readMatN (n : ℕ) (j : Json) : Except String (Matrix (Fin n) (Fin n) GQ) := do
  let rows ← gqRows j
  if rows.size ≠ n ∨ rows.any (·.size ≠ n) then throw "bad matrix size"
  return matOfRows n rows

def approxQ (q : ℚ) : ℚ := mkRat (Rat.floor (q * (2 : ℚ) ^ 100)) (2 ^ 100)
def approxG (z : GQ) : GQ := ⟨approxQ z.re, approxQ z.im⟩

def rowsOfV {n : ℕ} (v : MatV GQ n n) : Json :=
  rowsToJson (v.toArray.map fun r => r.toArray.map approxG)

def gqInv (z : GQ) : Except String GQ :=
  let d := GQ.normSq z
  if d = 0 then throw "singular" else pure ⟨z.re / d, -z.im / d⟩

/-- exact inverse of a 1×1 or 2×2 matrix -/
def smallInv : (k : ℕ) → Matrix (Fin k) (Fin k) GQ → Except String (Matrix (Fin k) (Fin k) GQ)
  | 1, B => do
    let w ← gqInv (B 0 0)
    return fun _ _ => w
  | 2, B => do
    let a := B 0 0; let b := B 0 1; let c := B 1 0; let d := B 1 1
    let w ← gqInv (a * d - b * c)
    let r : Array (Array GQ) := #[#[d * w, -b * w], #[-c * w, a * w]]
    return matOfRows 2 r
  | _, _ => throw "inverse of a leaf wider than 2 modes not supported"

def materialise {k : ℕ} (B : Matrix (Fin k) (Fin k) GQ) : Matrix (Fin k) (Fin k) GQ :=
  (MatV.ofMatrix B).toMatrix

/-- undo `component.inverse(v, h)` on an observed leaf matrix -/
def unInvert (v h : Bool) (k : ℕ) (B : Matrix (Fin k) (Fin k) GQ) :
    Except String (Matrix (Fin k) (Fin k) GQ) := do
  let B1 := materialise (vflipIf v B)
  if h then smallInv k B1 else pure B1

def readLeaves (j : Json) : Except String (List (Leaf GQ)) := do
  let arr ← j.getArr?
  arr.toList.mapM fun l => do
    let off ← natOf l "off"
    let ⟨k, B⟩ ← readMat (← l.getObjVal? "U")
    return (off, ⟨k, materialise B⟩)

inductive Item where
  | block (n : ℕ) (B Binv : Matrix (Fin 2) (Fin 2) GQ)
  | perm (n : ℕ) (p : List ℕ)

def readItem (v h : Bool) (j : Json) : Except String Item := do
  let kind ← strOf j "k"
  let n ← natOf j "off"
  if kind == "perm" then
    return .perm n (← natList (← j.getObjVal? "p"))
  else if kind == "block" then
    let ls ← readLeaves (← j.getObjVal? "leaves")
    let ls' ← ls.mapM fun (l : Leaf GQ) => do
      if l.1 + l.2.1 > 2 then throw "leaf outside the block"
      let B ← unInvert v h l.2.1 l.2.2
      return ((l.1, ⟨l.2.1, B⟩) : Leaf GQ)
    let B := (prodLeavesV 2 ls').toMatrix
    -- the exact inverse over ℚ[i]: `B · Binv = 1` holds exactly (hypothesis of `triangle_reconstruct`); the
    -- invariant `circMat comps · u + err = U` is nevertheless re-checked on the result (`inv_holds` in the reply)
    let Binv0 ← smallInv 2 B
    let Binv := materialise Binv0
    return .block n B Binv
  else throw "bad item kind"

def maxNorm2 {n : ℕ} (M : Matrix (Fin n) (Fin n) GQ) (p : Fin n → Fin n → Bool) : ℚ :=
  (List.finRange n).foldl (fun acc i =>
    (List.finRange n).foldl (fun acc j =>
      if p i j then max acc (GQ.normSq (M i j)) else acc) acc) 0

def compJson : Comp GQ → Json
  | .block n _ => Json.arr #["block", toJson n]
  | .perm n d => Json.arr #["perm", toJson n, toJson (permList d)]
  | .ps i _ => Json.arr #["ps", toJson i]

def itemJson : Item → Json
  | .block n _ _ => Json.arr #["block", toJson n]
  | .perm n p => Json.arr #["perm", toJson n, toJson p]

/-- flat `(first port, width)` structure of the un-inverted circuit -/
def flatOf (phaseIdx : List ℕ) (pattern : List (ℕ × ℕ)) (comps : List (Comp GQ)) : List (Leaf GQ) :=
  let dummy (o k : ℕ) : Leaf GQ := (o, ⟨k, 1⟩)
  phaseIdx.map (fun i => dummy i 1) ++
    comps.flatMap fun c => match c with
      | .block n _ => pattern.map fun (o, w) => dummy (n + o) w
      | .perm n d => [dummy n (d + 1)]
      | .ps i _ => [dummy i 1]

def handleFold (j : Json) : Except String Json := do
  let m ← natOf j "m"
  let U ← readMatN m (← j.getObjVal? "U")
  let prec ← ratOfJson (← j.getObjVal? "prec")
  let ignore ← boolOf j "ignore"
  let perm ← boolOf j "perm"
  let v ← boolOf j "v"
  let h ← boolOf j "h"
  let items ← (← arrOf j "items").toList.mapM (readItem v h)
  let phaseIdx ← natList (← j.getObjVal? "phase_idx")
  let pattern ← (← arrOf j "pattern").toList.mapM fun p => do
    match ← natList p with
    | [o, w] => pure (o, w)
    | _ => throw "bad pattern"
  let cfg : Cfg GQ := { small := fun z => decide (GQ.normSq z ≤ prec * prec), ignoreId := ignore, usePerm := perm }
  -- solver results in the order the loop consumed them: the list is prepended, so reverse
  let sols : List (Sol GQ) := items.reverse.filterMap fun it => match it with
    | .block _ B Binv => some (B, Binv)
    | .perm _ _ => none
  match decomposeTriangle cfg (materialise U) sols with
  | none => return Json.mkObj [("none", toJson true), ("observed", Json.arr (items.map itemJson).toArray)]
  | some st =>
    let u := st.u.toMatrix
    let D := (List.finRange m).map fun i => gqToJson (approxG (u i i))
    let off2 := maxNorm2 u fun i j => i != j
    let err2 := maxNorm2 st.err.toMatrix fun _ _ => true
    let resid := (circMatV m st.comps).toMatrix * u + st.err.toMatrix - materialise U
    let inv2 := maxNorm2 resid fun _ _ => true
    let flat := inverseCircuit v h m (fun _ B => B) (flatOf phaseIdx pattern st.comps)
    return Json.mkObj [
      ("comps", Json.arr (st.comps.map compJson).toArray),
      ("observed", Json.arr (items.map itemJson).toArray),
      ("left", toJson st.rest.length),
      ("nskip", toJson st.nskip),
      ("D", Json.arr D.toArray),
      ("off2", ratToJson (approxQ off2)),
      ("err2", ratToJson (approxQ err2)),
      ("inv_holds", toJson (decide (inv2 = 0))),
      ("flat", Json.arr (flat.map fun l => Json.arr #[toJson l.1, toJson l.2.1]).toArray)]

def handleProd (j : Json) : Except String Json := do
  let m ← natOf j "m"
  let ls ← readLeaves (← j.getObjVal? "leaves")
  if ls.any fun l => l.1 + l.2.1 > m then throw "leaf outside the circuit"
  return Json.mkObj [("M", rowsOfV (prodLeavesV m ls))]

def handleLeave (j : Json) : Except String Json := do
  let m ← natOf j "m"
  let U ← readMatN m (← j.getObjVal? "U")
  let prec ← ratOfJson (← j.getObjVal? "prec")
  let ignore ← boolOf j "ignore"
  let cfg : Cfg GQ := { small := fun z => decide (GQ.normSq z ≤ prec * prec), ignoreId := ignore, usePerm := false }
  let U0 := materialise U
  let V := materialise (inPlace cfg U0)
  let changed := (cells m).filter fun c => decide (getN V c.2 c.1 ≠ getN U0 c.2 c.1)
  -- `inPlace` only ever touches the cells of the double loop: anything else that differs is reported as well
  let other := (List.finRange m).flatMap fun a => (List.finRange m).filterMap fun b =>
    if V a b ≠ U0 a b ∧ ¬ (cells m).contains (b.val, a.val) then some (a.val, b.val) else none
  return Json.mkObj [
    ("zeroed", Json.arr (changed.map fun c => Json.arr #[toJson c.2, toJson c.1]).toArray),
    ("other", Json.arr (other.map fun c => Json.arr #[toJson c.1, toJson c.2]).toArray)]

def ratListOf (j : Json) (k : String) : Except String (List ℚ) := do
  (← arrOf j k).toList.mapM ratOfJson

def handleSolve (j : Json) : Except String Json := do
  let a ← ratListOf j "a"
  let b ← ratOfJson (← j.getObjVal? "b")
  let x0 ← ratListOf j "x0"
  let cs ← (← arrOf j "cs").toList.mapM fun (c : Json) =>
    if c.isNull then pure (none : Option ℚ) else (ratOfJson c).map some
  let prec ← ratOfJson (← j.getObjVal? "prec")
  let allow ← boolOf j "allow"
  let opt ← ratListOf j "opt"
  if a.length ≠ cs.length ∨ x0.length ≠ cs.length then throw "a, x0 and cs must have the same length"
  let f : List ℚ → ℚ := fun x => |b + ((a.zip x).map fun p => p.1 * p.2).sum|
  match Solve.solve (fun _ _ => opt) allow prec f x0 cs with
  | none => return Json.mkObj [("none", toJson true)]
  | some x => return Json.mkObj [("res", Json.arr (x.map ratToJson).toArray)]

def handle (j : Json) : Json :=
  let r : Except String Json := do
    let op ← strOf j "op"
    if op == "prod" then handleProd j
    else if op == "fold" then handleFold j
    else if op == "solve" then handleSolve j
    else if op == "leave" then handleLeave j
    else throw "unknown op"
  match r with
  | .ok x => x
  | .error e => errJson e

def main : IO Unit := run handle
