import PercevalModel.SimProto
import PercevalModel.Model.C04

open Lean PM PM.Proto PM.Fock PM.Dist PM.SimSpec PM.SimProto PM.C04

def memberOfJson (j : Json) : Except String Member := do
  let gs ← (← arrOf j "groups").toList.mapM natList
  return { w := ← ratOfJson (← j.getObjVal? "w"), groups := gs }

def cfgOfJson (m : ℕ) (j : Json) : Except String Cfg := do
  let hs ← (← arrOf j "heralds").toList.mapM fun h => do
    match (← natList h) with
    | [a, b] => pure (a, b)
    | _ => throw "bad herald"
  if hs.any (fun p => p.1 ≥ m) then throw "herald outside the circuit"
  if !(hs.map (·.1)).Nodup then throw "duplicated herald mode"
  return { m := m, heralds := hs, ps := ← psOfJson (← j.getObjVal? "ps"),
           userFilter := ← natOf j "filter", keepHeralds := ← boolOf j "keepHeralds",
           pnr := ← boolOf j "pnr" }

def detOfJson (j : Json) : Except String Det := do
  match j with
  | .null => return .none
  | .str "pnr" => return .pnr
  | .str "thr" => return .thr
  | .arr rows =>
    let rs ← rows.toList.mapM fun r => do
      (← r.getArr?).toList.mapM fun e => do
        match (← e.getArr?).toList with
        | [a, b] => pure ((← a.getNat?), (← ratOfJson b))
        | _ => throw "bad kernel entry"
    return .table rs
  | _ => throw "bad detector"

/-- the engine on the groups that occur: each distinct group is evaluated once -/
def engTable {m : ℕ} (U : Matrix (Fin m) (Fin m) GQ) (members : List Member) : List (Fock × D) :=
  (members.flatMap (·.groups)).eraseDups.map fun s => (s, probsFock U s)

def handle (j : Json) : Json :=
  match (do
    let op ← strOf j "op"
    match op with
    | "c04" =>
      let ⟨m, U⟩ ← matOfJson j
      let members ← (← arrOf j "members").toList.mapM memberOfJson
      if members.any (fun mb => mb.groups.any (·.length ≠ m)) then throw "bad group size"
      let c ← cfgOfJson m (← j.getObjVal? "cfg")
      let tab := engTable U members
      let eng : Fock → D := fun s => (tab.lookup s).getD []
      let ds ← match j.getObjVal? "dets" with
        | .ok (.arr a) => a.toList.mapM detOfJson
        | .ok .null => pure []
        | .ok _ => throw "bad dets"
        | .error _ => pure []
      if !ds.isEmpty && ds.length ≠ m then throw "bad number of detectors"
      let out := probsSvdDet eng c ds members
      let fullD := detectedFull eng m ds members
      let sc := cond c
      return Json.mkObj [
        ("model", Json.mkObj [("results", distToJson out.results), ("phys", ratToJson out.phys),
                              ("logical", ratToJson out.logical)]),
        ("spec", Json.mkObj [("results", distToJson (conditioned sc fullD)),
                             ("phys", ratToJson (physPerf sc fullD)),
                             ("logical", ratToJson (logicalPerf sc fullD)),
                             ("retained", ratToJson (mass (retained sc fullD)))]),
        ("mass", ratToJson (mass fullD)),
        ("mask", Json.arr ((heraldMask m c.heralds).map fun (o : Option ℕ) => match o with
                          | none => Json.null | some d => toJson d).toArray),
        ("minFilter", toJson (minFilter c))]
    | "interleave" =>
      let m ← natOf j "m"
      let hs ← (← arrOf j "heralds").toList.mapM fun h => do
        match (← natList h) with
        | [a, b] => pure (a, b)
        | _ => throw "bad herald"
      let user ← natList (← j.getObjVal? "user")
      if hs.any (fun p => p.1 ≥ m) then throw "herald outside the circuit"
      if user.length ≠ freeModes (heraldMask m hs) then throw "AssertionError"
      return Json.mkObj [("full", toJson (interleave m hs user)), ("autoFilter", toJson (autoFilter m hs user))]
    | _ => handleSim j) with
  | .ok r => r
  | .error e => errJson e

def main : IO Unit := run handle
