import PercevalModel.SimProto
import PercevalModel.Model.C04
import PercevalModel.Model.C04Trim
import PercevalModel.Model.C04Session
import PercevalModel.Model.C04Generic
import PercevalModel.Model.C04TrimDet
import PercevalModel.Model.C04Split
import PercevalModel.Model.C04Decl
import PercevalModel.Lemmas.C04Decl

open Lean PM PM.Proto PM.Fock PM.Dist PM.SimSpec PM.SimProto PM.C04

def memberOfJson (j : Json) : Except String Member := do
  let gs ← (← arrOf j "groups").toList.mapM natList
  return { w := ← ratOfJson (← j.getObjVal? "w"), groups := gs }

def cfgOfJson (m : ℕ) (j : Json) : Except String Cfg := do
  let hs ← (← arrOf j "heralds").toList.mapM fun h => do
    match (← natList h) with
    | [a, b] => pure (a, b)
    | _ => throw "bad herald"
  if hs.any (fun p => p.1 ≥ m) then throw "herald outside the circuit"
  if !(hs.map (·.1)).Nodup then throw "duplicated herald mode"
  return { m := m, heralds := hs, ps := ← psOfJson (← j.getObjVal? "ps"),
           userFilter := ← natOf j "filter", keepHeralds := ← boolOf j "keepHeralds",
           pnr := ← boolOf j "pnr" }

def detOfJson (j : Json) : Except String Det := do
  match j with
  | .null => return .none
  | .str "pnr" => return .pnr
  | .str "thr" => return .thr
  | .arr rows =>
    let rs ← rows.toList.mapM fun r => do
      (← r.getArr?).toList.mapM fun e => do
        match (← e.getArr?).toList with
        | [a, b] => pure ((← a.getNat?), (← ratOfJson b))
        | _ => throw "bad kernel entry"
    return .table rs
  | _ => throw "bad detector"

/-- the engine on the groups that occur: each distinct group is evaluated once -/
def engTable {m : ℕ} (U : Matrix (Fin m) (Fin m) GQ) (members : List Member) : List (Fock × D) :=
  (members.flatMap (·.groups)).eraseDups.map fun s => (s, probsFock U s)

/-! margin of the threshold comparisons (driver-side diagnostics, not part of the model): the smallest relative
distance `|x - θ| / θ` between a compared quantity and its threshold.  The implementation compares floating-point
values; a comparison closer than the rounding error may legitimately fall on the other side. -/

def relGap (x θ : ℚ) : ℚ := if θ ≤ 0 then 1 else min 1 (|x - θ| / θ)

def innerGap (θ : ℚ) : List D → ℚ → ℚ
  | [], _ => 1
  | d :: rest, p =>
    (d.map fun e => if p * e.2 < θ then relGap (p * e.2) θ
                    else min (relGap (p * e.2) θ) (innerGap θ rest (p * e.2))).foldl min 1

def tensorGap (θ : ℚ) (ds : List D) : ℚ :=
  if ds.length < 2 || ds.any List.isEmpty then 1
  else min ((ds.flatMap fun d => d.map fun e => relGap e.2 θ).foldl min 1)
           (innerGap θ (ds.map fun d => d.filter fun e => θ < e.2) 1)

def trimGap (eng : Fock → D) (P : PM.C04.Prec) (c : Cfg) (members : List Member) : ℚ :=
  let θ := pThreshold P c members
  let g1 := ((kept c members).map fun mb => relGap mb.w θ).foldl min 1
  let g2 := ((keptθ P c members).map fun mb =>
    tensorGap (θ / (10 * mb.w)) (mb.groups.map (groupDist eng c mb.n))).foldl min 1
  min g1 g2

/-- margin of the comparisons of the per-state `list_tensor_product` of `simulate_detectors` -/
def detStateGap (θ : ℚ) : List Kern → Fock → ℚ → ℚ
  | K :: Ks, a :: t, p =>
    ((K a).map fun jq =>
      let g0 := relGap jq.2 θ
      if jq.2 ≤ θ then g0
      else if p * jq.2 < θ then min g0 (relGap (p * jq.2) θ)
      else min g0 (min (relGap (p * jq.2) θ) (detStateGap θ Ks t (p * jq.2)))).foldl min 1
  | _, _, _ => 1

def detGap (θ : ℚ) (ds : List Det) (Y : D) : ℚ :=
  if allThr ds then 1
  else ((mergeD Y).map fun e =>
    let rows := rowsOf (ds.map Det.kern) e.1
    if rows.length < 2 || rows.any List.isEmpty then 1
    else detStateGap (thrOf θ e.2) (ds.map Det.kern) e.1 1).foldl min 1

/-- margin of the amplitude-threshold comparisons of `_merge_sv` along one term -/
def genTermGap {m : ℕ} (U : Matrix (Fin m) (Fin m) GQ) (c : Cfg) (nExt : ℕ) (thr : ℚ) (groups : List Fock) : ℚ :=
  (groups.foldl (fun (st : (PM.C03.AmpsF × Bool) × ℚ) (s : Fock) =>
    let g := if s.sum ≠ 0 && st.1.2 then
        ((PM.C03.mergeAllF st.1.1 (groupEvolveFM U c nExt s)).map fun z => relGap (PM.C03.sqF z) thr).foldl min 1
      else 1
    (stepθM U c nExt thr st.1 s, min st.2 g)) ((([([], 1, 1)] : PM.C03.AmpsF), false), 1)).2

/-- smallest non-zero squared modulus among the amplitudes the native `StateVector` holds while one member is computed
(masked group outputs, kept merged components, components multiplied by the term's normalised coefficient): exqalibur
drops components of modulus ≤ `min_complex_component = 1e-6`, which is not modelled -/
def minNZ (l : List ℚ) : ℚ := l.foldl (fun acc x => if 0 < x then min acc x else acc) 1

def genMinAmp2 {m : ℕ} (U : Matrix (Fin m) (Fin m) GQ) (c : Cfg) (θ : ℚ) (g : GMember) : ℚ :=
  let n2 := SimSpec.svNorm2 g.terms
  minNZ (g.terms.map fun t =>
    let thr := θ / (10 * (PM.C03.termW t / n2) * g.w)
    let a := minNZ (t.groups.map fun s => minNZ ((groupEvolveFM U c (svN g.terms) s).map fun y => GQ.normSq y.2.1 / y.2.2))
    let comps := evolveTermθM U c (svN g.terms) thr t.groups
    let b := minNZ (comps.map PM.C03.sqF)
    let d := minNZ (comps.map fun z => PM.C03.sqF z * (PM.C03.termW t / n2))
    min a (min b d))

def genGap {m : ℕ} (U : Matrix (Fin m) (Fin m) GQ) (P : PM.C04.Prec) (c : Cfg) (members : List GMember) : ℚ :=
  let θ := pThresholdG P c members
  let g1 := ((keptG c members).map fun g => relGap g.w θ).foldl min 1
  let g2 := ((keptGθ P c members).map fun g =>
    (g.terms.map fun t =>
      genTermGap U c (svN g.terms) (θ / (10 * (PM.C03.termW t / SimSpec.svNorm2 g.terms) * g.w)) t.groups).foldl min 1).foldl min 1
  min g1 g2

def heraldsOfJson (m : ℕ) (j : Json) : Except String (List (ℕ × ℕ)) := do
  let hs ← (← j.getArr?).toList.mapM fun h => do
    match (← natList h) with
    | [a, b] => pure (a, b)
    | _ => throw "bad herald"
  if hs.any (fun p => p.1 ≥ m) then throw "herald outside the circuit"
  if !(hs.map (·.1)).Nodup then throw "duplicated herald mode"
  return hs

def detsOfJson (m : ℕ) (j : Json) (k : String) : Except String (List Det) := do
  let ds ← match j.getObjVal? k with
    | .ok (.arr a) => a.toList.mapM detOfJson
    | .ok .null => pure []
    | .ok _ => throw "bad dets"
    | .error _ => pure []
  if !ds.isEmpty && ds.length ≠ m then throw "bad number of detectors"
  return ds

def optOf {α : Type} (j : Json) (k : String) (f : Json → Except String α) : Except String (Option α) :=
  match j.getObjVal? k with
  | .ok .null => pure none
  | .ok v => do return some (← f v)
  | .error _ => pure none

def membersOf (m : ℕ) (j : Json) : Except String (List PM.C04.Member) := do
  let members ← (← arrOf j "members").toList.mapM memberOfJson
  if members.any (fun mb => mb.groups.any (·.length ≠ m)) then throw "bad group size"
  if members.any (fun mb => mb.groups.isEmpty) then throw "member without group"
  return members

def simOpOfJson (m : ℕ) (j : Json) : Except String SimOp := do
  match (← strOf j "t") with
  | "sel" => return .setSelection (← optOf j "filter" (·.getNat?)) (← optOf j "ps" psOfJson)
               (← optOf j "heralds" (heraldsOfJson m))
  | "heralds" => return .setHeralds (← heraldsOfJson m (← j.getObjVal? "heralds"))
  | "clearHeralds" => return .clearHeralds
  | "ps" => return .setPostselection (← psOfJson (← j.getObjVal? "ps"))
  | "clearPs" => return .clearPostselection
  | "filter" => return .setFilter (← natOf j "k")
  | "keep" => return .keepHeralds (← boolOf j "b")
  | "probs" => return .probsSvd (← detsOfJson m j "dets") (← membersOf m j)
  | t => throw s!"unknown simulator operation {t}"

def procOpOfJson (m : ℕ) (j : Json) : Except String ProcOp := do
  match (← strOf j "t") with
  | "herald" =>
    let k ← natOf j "k"
    if k ≥ m then throw "herald outside the circuit"
    return .addHerald k (← natOf j "v")
  | "dets" => return .setDetectors (← detsOfJson m j "dets")
  | "ps" => return .setPostselection (← psOfJson (← j.getObjVal? "ps"))
  | "clearPs" => return .clearPostselection
  | "filter" => return .setFilter (← natOf j "k")
  | "probs" => return .probs (← membersOf m j) (← optOf j "autoN" (·.getNat?))
  | t => throw s!"unknown processor operation {t}"

def outToJson (o : Out) : Json :=
  Json.mkObj [("results", distToJson o.results), ("phys", ratToJson o.phys), ("logical", ratToJson o.logical)]

def handle (j : Json) : Json :=
  match (do
    let op ← strOf j "op"
    match op with
    | "c04" =>
      let ⟨m, U⟩ ← matOfJson j
      let members ← (← arrOf j "members").toList.mapM memberOfJson
      if members.any (fun mb => mb.groups.any (·.length ≠ m)) then throw "bad group size"
      let c ← cfgOfJson m (← j.getObjVal? "cfg")
      let tab := engTable U members
      let eng : Fock → D := fun s => (tab.lookup s).getD []
      let ds ← match j.getObjVal? "dets" with
        | .ok (.arr a) => a.toList.mapM detOfJson
        | .ok .null => pure []
        | .ok _ => throw "bad dets"
        | .error _ => pure []
      if !ds.isEmpty && ds.length ≠ m then throw "bad number of detectors"
      let out := probsSvdDet eng c ds members
      let fullD := detectedFull eng m ds members
      let sc := cond c
      return Json.mkObj [
        ("model", Json.mkObj [("results", distToJson out.results), ("phys", ratToJson out.phys),
                              ("logical", ratToJson out.logical)]),
        ("spec", Json.mkObj [("results", distToJson (conditioned sc fullD)),
                             ("phys", ratToJson (physPerf sc fullD)),
                             ("logical", ratToJson (logicalPerf sc fullD)),
                             ("retained", ratToJson (mass (retained sc fullD)))]),
        ("mass", ratToJson (mass fullD)),
        ("mask", Json.arr ((heraldMask m c.heralds).map fun (o : Option ℕ) => match o with
                          | none => Json.null | some d => toJson d).toArray),
        ("minFilter", toJson (minFilter c))]
    | "c04trim" =>
      let ⟨m, U⟩ ← matOfJson j
      let members ← (← arrOf j "members").toList.mapM memberOfJson
      if members.any (fun mb => mb.groups.any (·.length ≠ m)) then throw "bad group size"
      if members.any (fun mb => mb.groups.isEmpty) then throw "member without group"
      let c ← cfgOfJson m (← j.getObjVal? "cfg")
      let P : PM.C04.Prec := ⟨← ratOfJson (← j.getObjVal? "prec"), ← ratOfJson (← j.getObjVal? "minp")⟩
      if P.prec < 0 || P.minp < 0 then throw "negative precision"
      let tab := engTable U members
      let eng : Fock → D := fun s => (tab.lookup s).getD []
      let fullD := full eng m members
      let sc := cond c
      let exact := probsSvd eng c members
      let trimmed := probsSvdθ eng P c members
      let X := mix ((kept c members).map fun (mb : PM.C04.Member) => (mb.w, memberDist eng c mb))
      let Xθ := codeResθ eng P c members
      return Json.mkObj [
        ("trimmed", outToJson trimmed), ("model", outToJson exact),
        ("spec", Json.mkObj [("results", distToJson (conditioned sc fullD)),
                             ("phys", ratToJson (physPerf sc fullD)),
                             ("logical", ratToJson (logicalPerf sc fullD)),
                             ("retained", ratToJson (mass (retained sc fullD)))]),
        ("theta", ratToJson (pThreshold P c members)),
        ("trimmedMass", ratToJson (trimmedMass eng P c members)),
        ("trimmedRetained", ratToJson (trimmedRetained eng P c members)),
        ("retainedTrimmed", ratToJson (mass (restrict (logicOk sc) Xθ))),
        ("droppedMembers", toJson ((kept c members).length - (keptθ P c members).length)),
        ("droppedEntries", toJson (X.length - Xθ.length)),
        ("prunedEntries", toJson (((keptθ P c members).map fun (mb : PM.C04.Member) =>
            (memberDist eng c mb).length - (memberDistθ eng c (pThreshold P c members) mb).length).sum)),
        ("keptN", toJson (kept c members).length), ("entriesX", toJson X.length),
        ("aprioriTheta", ratToJson (pThreshold P c members * (((kept c members).length : ℚ) + (X.length : ℚ) / 10))),
        ("apriori", ratToJson (max P.minp P.prec * ((members.length : ℚ) + (X.length : ℚ) / 10))),
        ("gap", ratToJson (trimGap eng P c members))]
    | "c04trimdet" =>
      -- trimming on a layout with a non-PNR detector (mask off, `simulate_detectors` with its per-state threshold)
      let ⟨m, U⟩ ← matOfJson j
      let members ← (← arrOf j "members").toList.mapM memberOfJson
      if members.any (fun mb => mb.groups.any (·.length ≠ m)) then throw "bad group size"
      if members.any (fun mb => mb.groups.isEmpty) then throw "member without group"
      let c ← cfgOfJson m (← j.getObjVal? "cfg")
      let P : PM.C04.Prec := ⟨← ratOfJson (← j.getObjVal? "prec"), ← ratOfJson (← j.getObjVal? "minp")⟩
      if P.prec < 0 || P.minp < 0 then throw "negative precision"
      let ds ← detsOfJson m j "dets"
      if allPnr ds then throw "all detectors are PNR: use c04trim"
      let tab := engTable U members
      let eng : Fock → D := fun s => (tab.lookup s).getD []
      let fullD := detectedFull eng m ds members
      let sc := cond c
      let c' : Cfg := { c with pnr := false }
      let θ := pThreshold P c members
      let E := detFullU eng c ds members
      let Eθ := detTrimU eng P c ds members
      let X := mix ((kept c members).map fun (mb : PM.C04.Member) => (mb.w, memberDist eng c' mb))
      let Xt := codeResθ eng P c' members
      let Y := detInθ eng P c members
      let Dθ := detResθ eng P c ds members
      let sizes : ℚ := ((kept c members).length : ℚ) + (X.length : ℚ) / 10 + (E.length : ℚ)
      return Json.mkObj [
        ("trimmed", outToJson (probsSvdDetθ eng P c ds members)),
        ("model", outToJson (probsSvdDet eng c ds members)),
        ("spec", Json.mkObj [("results", distToJson (conditioned sc fullD)),
                             ("phys", ratToJson (physPerf sc fullD)),
                             ("logical", ratToJson (logicalPerf sc fullD)),
                             ("retained", ratToJson (mass (retained sc fullD)))]),
        ("theta", ratToJson θ),
        ("physInputs", ratToJson (physInputs c members)),
        ("inputLoss", ratToJson (physInputs c members - mass Xt)),
        ("trimmedMass", ratToJson (trimmedMassDet eng P c ds members)),
        ("trimmedPass", ratToJson (trimmedPassDet eng P c ds members)),
        ("trimmedRetained", ratToJson (trimmedRetainedDet eng P c ds members)),
        ("passTrimmed", ratToJson (mass (restrict (physOk sc) Eθ))),
        ("retainedTrimmed", ratToJson (mass (restrict (fun t => physOk sc t && logicOk sc t) Eθ))),
        ("droppedMembers", toJson ((kept c members).length - (keptθ P c' members).length)),
        ("prunedEntries", toJson (((keptθ P c' members).map fun (mb : PM.C04.Member) =>
            (memberDist eng c' mb).length - (memberDistθ eng c' θ mb).length).sum)),
        ("detDropped", toJson ((detect (ds.map Det.kern) (mergeD Y)).length - Dθ.length)),
        ("keptN", toJson (kept c members).length), ("entriesX", toJson X.length), ("entriesE", toJson E.length),
        ("aprioriTheta", ratToJson (θ * sizes)),
        ("apriori", ratToJson (max P.minp P.prec * ((members.length : ℚ) + (X.length : ℚ) / 10 + (E.length : ℚ)))),
        ("gap", ratToJson (min (trimGap eng P c' members) (detGap θ ds Y)))]
    | "c04gen" =>
      -- superposed inputs: the code-shaped model of `_probs_svd_generic` (masked group amplitudes, interference)
      -- next to the specification (conditioning of `probsSVD`)
      let ⟨m, U⟩ ← matOfJson j
      let members ← membersOfJson (← j.getObjVal? "members")
      if members.any (fun p => p.2.any fun t => t.groups.any (·.length ≠ m)) then throw "bad group size"
      if members.any (fun p => p.2.isEmpty) then throw "member without term"
      let c ← cfgOfJson m (← j.getObjVal? "cfg")
      let gms := members.map fun (p : ℚ × List SimSpec.Term) => (⟨p.1, p.2⟩ : GMember)
      -- members holding several photon numbers: `_preprocess_svd`'s split with the filter (`probsSvdGenS`), and next
      -- to it the generic model on the mixture of the sectors (instance of `probsSvdGenS_eq_split`)
      let multi := gms.any multiN
      let ds ← detsOfJson m j "dets"
      let pnrPath := allPnr ds
      let c : Cfg := { c with pnr := pnrPath }
      let out := if !pnrPath then probsSvdGenSDet U c ds gms
                 else if multi then probsSvdGenS U c gms else probsSvdGen U c gms
      let fullD := if ds.isEmpty then probsSVD U members else detect (ds.map Det.kern) (probsSVD U members)
      let sc := cond c
      return Json.mkObj [
        ("model", outToJson out),
        ("sectors", if multi && pnrPath then outToJson (probsSvdGen U c (splitAll gms)) else Json.null),
        ("sectorNs", toJson (gms.map fun (g : GMember) => PM.C03.photonCounts g.terms)),
        ("spec", Json.mkObj [("results", distToJson (conditioned sc fullD)),
                             ("phys", ratToJson (physPerf sc fullD)),
                             ("logical", ratToJson (logicalPerf sc fullD)),
                             ("retained", ratToJson (mass (retained sc fullD)))]),
        ("mass", ratToJson (mass fullD))]
    | "c04gentrim" =>
      -- superposed inputs at a non-zero precision: masked group amplitudes, `_merge_sv` amplitude threshold
      let ⟨m, U⟩ ← matOfJson j
      let members ← membersOfJson (← j.getObjVal? "members")
      if members.any (fun p => p.2.any fun t => t.groups.any (·.length ≠ m)) then throw "bad group size"
      if members.any (fun p => p.2.isEmpty) then throw "member without term"
      if members.any (fun p => p.2.any fun t => (t.groups.map List.sum).sum ≠ svN p.2) then
        throw "terms with different photon numbers"
      let c ← cfgOfJson m (← j.getObjVal? "cfg")
      let P : PM.C04.Prec := ⟨← ratOfJson (← j.getObjVal? "prec"), ← ratOfJson (← j.getObjVal? "minp")⟩
      if P.prec < 0 || P.minp < 0 then throw "negative precision"
      let gms := members.map fun (p : ℚ × List SimSpec.Term) => (⟨p.1, p.2⟩ : GMember)
      let fullD := probsSVD U members
      let sc := cond c
      let θ := pThresholdG P c gms
      let phys := AM.phys c (gms.map (toAM U c))
      let Xθ := genResθ U P c gms
      let X0 := genRes0 U c gms
      let eD := genErrD U P c gms
      let eR := mapKeys (reported sc) (restrict (logicOk sc) eD)
      return Json.mkObj [
        ("trimmed", outToJson (probsSvdGenθ U P c gms)),
        ("zero", outToJson (finishSvd c phys X0)),
        ("model", outToJson (probsSvdGen U c gms)),
        ("spec", Json.mkObj [("results", distToJson (conditioned sc fullD)),
                             ("phys", ratToJson (physPerf sc fullD)),
                             ("logical", ratToJson (logicalPerf sc fullD)),
                             ("retained", ratToJson (mass (retained sc fullD)))]),
        ("theta", ratToJson θ),
        ("droppedMembers", toJson ((keptG c gms).length - (keptGθ P c gms).length)),
        ("droppedComps", toJson (((keptGθ P c gms).map fun (g : GMember) =>
            (ampsθM U c 0 g.w g.terms).length - (ampsθM U c θ g.w g.terms).length).sum)),
        ("errTot", ratToJson (mass eD)),
        ("errRet", ratToJson (mass eR)),
        ("errResults", distToJson eR),
        ("retainedTrimmed", ratToJson (mass (restrict (logicOk sc) Xθ))),
        ("retainedZero", ratToJson (mass (restrict (logicOk sc) X0))),
        ("minAmp2", ratToJson (minNZ ((keptGθ P c gms).map (genMinAmp2 U c θ)))),
        ("gap", ratToJson (genGap U P c gms))]
    | "session" =>
      -- a long-lived Simulator / Processor: every query is answered by the state machine (the walk over the sorted
      -- keys under the mask that is on the backend), and — next to it — by the stateless model for the selection in
      -- force (theorems simulator_selection_history_independent / processor_selection_history_independent)
      let ⟨m, U⟩ ← matOfJson j
      let kind ← strOf j "kind"
      let opsJ := (← arrOf j "ops").toList
      let allMembers ← opsJ.mapM fun o => do
        if (← strOf o "t") == "probs" then membersOf m o else pure []
      let tab := engTable U allMembers.flatten
      let eng : Fock → D := fun s => (tab.lookup s).getD []
      let specOf (c : Cfg) (ds : List Det) (members : List PM.C04.Member) (o : Out) : Json :=
        let fullD := detectedFull eng m ds members
        Json.mkObj [("machine", outToJson o), ("stateless", outToJson (probsSvdDet eng c ds members)),
          ("retained", ratToJson (mass (retained (cond c) fullD))), ("specPhys", ratToJson (physPerf (cond c) fullD)),
          ("minFilter", toJson (minFilter c))]
      if kind == "sim" then
        let ops ← opsJ.mapM (simOpOfJson m)
        let (_, outs) := ops.foldl (fun (acc : SimSt × List Json) op =>
          let r := simStep eng m acc.1 op
          let jo := match op, r.2 with
            | .probsSvd ds members, .res o => specOf (acc.1.cfg m) ds members o
            | _, _ => Json.null
          (r.1, acc.2 ++ [jo])) (SimSt.init, [])
        return Json.mkObj [("outs", Json.arr outs.toArray)]
      else if kind == "proc" then
        let notify ← match j.getObjVal? "notify" with
          | .ok (.bool b) => pure b
          | _ => pure true
        let ops ← opsJ.mapM (procOpOfJson m)
        let (_, outs) := ops.foldl (fun (acc : ProcSt × List Json) op =>
          let r := procStep notify eng m acc.1 op
          let jo := match op, r.2 with
            | .probs members autoN, .res o =>
              specOf (acc.1.cfg m ((acc.1.filter.or autoN).getD 0)) acc.1.dets members o
            | _, .exc e => Json.mkObj [("exc", e)]
            | _, _ => Json.null
          (r.1, acc.2 ++ [jo])) (ProcSt.init, [])
        return Json.mkObj [("outs", Json.arr outs.toArray)]
      else throw "bad session kind"
    | "c04guard" =>
      -- `check_heralds_detectors`: does `probs_svd` take its early exit?
      let m ← natOf j "m"
      let hs ← heraldsOfJson m (← j.getObjVal? "heralds")
      let maxes ← (← arrOf j "maxes").toList.mapM fun (x : Json) => match x with
        | .null => pure (none : Option ℕ)
        | v => do return some (← v.getNat?)
      if !maxes.isEmpty && maxes.length ≠ m then throw "bad number of detectors"
      return Json.mkObj [("ok", toJson (checkHeraldsDetectors hs maxes))]
    | "c04evsvd" =>
      -- `Simulator.evolve_svd` on a mixture of annotated Fock states: the two performances and the weights of the
      -- returned distribution (model `evolveSvd` / `evolveSvdWeights`) next to the specification
      let ⟨m, U⟩ ← matOfJson j
      let members ← (← arrOf j "members").toList.mapM memberOfJson
      if members.any (fun mb => mb.groups.any (·.length ≠ m)) then throw "bad group size"
      if members.any (fun mb => mb.groups.isEmpty) then throw "member without group"
      let c ← cfgOfJson m (← j.getObjVal? "cfg")
      let tab := engTable U members
      let eng : Fock → D := fun s => (tab.lookup s).getD []
      let ev := evolveSvd eng c members
      let fullD := full eng m members
      let sc := cond c
      let ps := probsSvd eng c members
      return Json.mkObj [
        ("model", Json.mkObj [("phys", ratToJson ev.1), ("logical", ratToJson ev.2),
                              ("weights", Json.arr ((evolveSvdWeights eng c members).map ratToJson).toArray)]),
        ("probsSvd", Json.mkObj [("phys", ratToJson ps.phys), ("logical", ratToJson ps.logical)]),
        ("spec", Json.mkObj [("phys", ratToJson (physPerf sc fullD)), ("logical", ratToJson (logicalPerf sc fullD)),
                             ("retained", ratToJson (mass (retained sc fullD)))])]
    | "c04decl" =>
      -- `Experiment.add_herald` / `add_port` calls on `Experiment(m)`, every exception caught, then `with_input`
      let m ← natOf j "m"
      let ops ← (← arrOf j "ops").toList.mapM fun (o : Json) => do
        match (← strOf o "t") with
        | "herald" => pure (DeclOp.herald (← natOf o "mode") (← natOf o "expected"))
        | "port" =>
          let w ← natOf o "width"
          if w = 0 then throw "port without mode"
          pure (DeclOp.port (← natOf o "mode") w)
        | t => throw s!"unknown declaration {t}"
      let r := declRun (Exp.init m) ops
      let user ← natList (← j.getObjVal? "user")
      let res := r.2.map fun (x : DeclRes) => match x with
        | .ok => "ok" | .assertionError => "AssertionError" | .unavailable => "UnavailableModeException"
        | .indexError => "IndexError"
      return Json.mkObj [
        ("outcomes", toJson res),
        ("heralds", Json.arr (r.1.heralds.map fun (p : ℕ × ℕ) => toJson [p.1, p.2]).toArray),
        ("m", toJson r.1.nMoi), ("circuitSize", toJson r.1.circuitSize),
        ("input", match r.1.withInput user with
                  | none => Json.str "AssertionError"
                  | some f => toJson f)]
    | "interleave" =>
      let m ← natOf j "m"
      let hs ← (← arrOf j "heralds").toList.mapM fun h => do
        match (← natList h) with
        | [a, b] => pure (a, b)
        | _ => throw "bad herald"
      let user ← natList (← j.getObjVal? "user")
      if hs.any (fun p => p.1 ≥ m) then throw "herald outside the circuit"
      if user.length ≠ freeModes (heraldMask m hs) then throw "AssertionError"
      return Json.mkObj [("full", toJson (interleave m hs user)), ("autoFilter", toJson (autoFilter m hs user))]
    | _ => handleSim j) with
  | .ok r => r
  | .error e => errJson e

def main : IO Unit := run handle
