import PercevalModel.SimProto
import PercevalModel.Model.C04
import PercevalModel.Model.C04Trim

open Lean PM PM.Proto PM.Fock PM.Dist PM.SimSpec PM.SimProto PM.C04

def memberOfJson (j : Json) : Except String Member := do
  let gs ← (← arrOf j "groups").toList.mapM natList
  return { w := ← ratOfJson (← j.getObjVal? "w"), groups := gs }

def cfgOfJson (m : ℕ) (j : Json) : Except String Cfg := do
  let hs ← (← arrOf j "heralds").toList.mapM fun h => do
    match (← natList h) with
    | [a, b] => pure (a, b)
    | _ => throw "bad herald"
  if hs.any (fun p => p.1 ≥ m) then throw "herald outside the circuit"
  if !(hs.map (·.1)).Nodup then throw "duplicated herald mode"
  return { m := m, heralds := hs, ps := ← psOfJson (← j.getObjVal? "ps"),
           userFilter := ← natOf j "filter", keepHeralds := ← boolOf j "keepHeralds",
           pnr := ← boolOf j "pnr" }

def detOfJson (j : Json) : Except String Det := do
  match j with
  | .null => return .none
  | .str "pnr" => return .pnr
  | .str "thr" => return .thr
  | .arr rows =>
    let rs ← rows.toList.mapM fun r => do
      (← r.getArr?).toList.mapM fun e => do
        match (← e.getArr?).toList with
        | [a, b] => pure ((← a.getNat?), (← ratOfJson b))
        | _ => throw "bad kernel entry"
    return .table rs
  | _ => throw "bad detector"

/-- the engine on the groups that occur: each distinct group is evaluated once -/
def engTable {m : ℕ} (U : Matrix (Fin m) (Fin m) GQ) (members : List Member) : List (Fock × D) :=
  (members.flatMap (·.groups)).eraseDups.map fun s => (s, probsFock U s)

/-! margin of the threshold comparisons (driver-side diagnostics, not part of the model): the smallest relative
distance `|x - θ| / θ` between a compared quantity and its threshold.  The implementation compares floating-point
values; a comparison closer than the rounding error may legitimately fall on the other side. -/

def relGap (x θ : ℚ) : ℚ := if θ ≤ 0 then 1 else min 1 (|x - θ| / θ)

def innerGap (θ : ℚ) : List D → ℚ → ℚ
  | [], _ => 1
  | d :: rest, p =>
    (d.map fun e => if p * e.2 < θ then relGap (p * e.2) θ
                    else min (relGap (p * e.2) θ) (innerGap θ rest (p * e.2))).foldl min 1

def tensorGap (θ : ℚ) (ds : List D) : ℚ :=
  if ds.length < 2 || ds.any List.isEmpty then 1
  else min ((ds.flatMap fun d => d.map fun e => relGap e.2 θ).foldl min 1)
           (innerGap θ (ds.map fun d => d.filter fun e => θ < e.2) 1)

def trimGap (eng : Fock → D) (P : PM.C04.Prec) (c : Cfg) (members : List Member) : ℚ :=
  let θ := pThreshold P c members
  let g1 := ((kept c members).map fun mb => relGap mb.w θ).foldl min 1
  let g2 := ((keptθ P c members).map fun mb =>
    tensorGap (θ / (10 * mb.w)) (mb.groups.map (groupDist eng c mb.n))).foldl min 1
  min g1 g2

def outToJson (o : Out) : Json :=
  Json.mkObj [("results", distToJson o.results), ("phys", ratToJson o.phys), ("logical", ratToJson o.logical)]

def handle (j : Json) : Json :=
  match (do
    let op ← strOf j "op"
    match op with
    | "c04" =>
      let ⟨m, U⟩ ← matOfJson j
      let members ← (← arrOf j "members").toList.mapM memberOfJson
      if members.any (fun mb => mb.groups.any (·.length ≠ m)) then throw "bad group size"
      let c ← cfgOfJson m (← j.getObjVal? "cfg")
      let tab := engTable U members
      let eng : Fock → D := fun s => (tab.lookup s).getD []
      let ds ← match j.getObjVal? "dets" with
        | .ok (.arr a) => a.toList.mapM detOfJson
        | .ok .null => pure []
        | .ok _ => throw "bad dets"
        | .error _ => pure []
      if !ds.isEmpty && ds.length ≠ m then throw "bad number of detectors"
      let out := probsSvdDet eng c ds members
      let fullD := detectedFull eng m ds members
      let sc := cond c
      return Json.mkObj [
        ("model", Json.mkObj [("results", distToJson out.results), ("phys", ratToJson out.phys),
                              ("logical", ratToJson out.logical)]),
        ("spec", Json.mkObj [("results", distToJson (conditioned sc fullD)),
                             ("phys", ratToJson (physPerf sc fullD)),
                             ("logical", ratToJson (logicalPerf sc fullD)),
                             ("retained", ratToJson (mass (retained sc fullD)))]),
        ("mass", ratToJson (mass fullD)),
        ("mask", Json.arr ((heraldMask m c.heralds).map fun (o : Option ℕ) => match o with
                          | none => Json.null | some d => toJson d).toArray),
        ("minFilter", toJson (minFilter c))]
    | "c04trim" =>
      let ⟨m, U⟩ ← matOfJson j
      let members ← (← arrOf j "members").toList.mapM memberOfJson
      if members.any (fun mb => mb.groups.any (·.length ≠ m)) then throw "bad group size"
      if members.any (fun mb => mb.groups.isEmpty) then throw "member without group"
      let c ← cfgOfJson m (← j.getObjVal? "cfg")
      let P : PM.C04.Prec := ⟨← ratOfJson (← j.getObjVal? "prec"), ← ratOfJson (← j.getObjVal? "minp")⟩
      if P.prec < 0 || P.minp < 0 then throw "negative precision"
      let tab := engTable U members
      let eng : Fock → D := fun s => (tab.lookup s).getD []
      let fullD := full eng m members
      let sc := cond c
      let exact := probsSvd eng c members
      let trimmed := probsSvdθ eng P c members
      let X := mix ((kept c members).map fun (mb : PM.C04.Member) => (mb.w, memberDist eng c mb))
      let Xθ := codeResθ eng P c members
      return Json.mkObj [
        ("trimmed", outToJson trimmed), ("model", outToJson exact),
        ("spec", Json.mkObj [("results", distToJson (conditioned sc fullD)),
                             ("phys", ratToJson (physPerf sc fullD)),
                             ("logical", ratToJson (logicalPerf sc fullD)),
                             ("retained", ratToJson (mass (retained sc fullD)))]),
        ("theta", ratToJson (pThreshold P c members)),
        ("trimmedMass", ratToJson (trimmedMass eng P c members)),
        ("trimmedRetained", ratToJson (trimmedRetained eng P c members)),
        ("retainedTrimmed", ratToJson (mass (restrict (logicOk sc) Xθ))),
        ("droppedMembers", toJson ((kept c members).length - (keptθ P c members).length)),
        ("droppedEntries", toJson (X.length - Xθ.length)),
        ("prunedEntries", toJson (((keptθ P c members).map fun (mb : PM.C04.Member) =>
            (memberDist eng c mb).length - (memberDistθ eng c (pThreshold P c members) mb).length).sum)),
        ("gap", ratToJson (trimGap eng P c members))]
    | "interleave" =>
      let m ← natOf j "m"
      let hs ← (← arrOf j "heralds").toList.mapM fun h => do
        match (← natList h) with
        | [a, b] => pure (a, b)
        | _ => throw "bad herald"
      let user ← natList (← j.getObjVal? "user")
      if hs.any (fun p => p.1 ≥ m) then throw "herald outside the circuit"
      if user.length ≠ freeModes (heraldMask m hs) then throw "AssertionError"
      return Json.mkObj [("full", toJson (interleave m hs user)), ("autoFilter", toJson (autoFilter m hs user))]
    | _ => handleSim j) with
  | .ok r => r
  | .error e => errJson e

def main : IO Unit := run handle
