import PercevalModel.Proto
import PercevalModel.Model.C06
import PercevalModel.Model.C06Proc
import PercevalModel.Model.C06Samp
import PercevalModel.Lemmas.C06PlaceDefs
import PercevalModel.Model.C06Anon
import PercevalModel.Model.C06Src

open Lean PM PM.Proto PM.C06

def ratOf (j : Json) (k : String) : Except String ℚ := do ratOfJson (← j.getObjVal? k)

/-- parameters as the constructor (or `from_noise_model`) receives them; rejects what the
constructor's asserts reject; refuses (harness error) roots that are not roots -/
def parseParams (j : Json) : Except String Params := do
  let beta ← ratOf j "beta"
  let g2 ← ratOf j "g2"
  let q ← ratOf j "q"
  let ind ← ratOf j "ind"
  let r ← ratOf j "r"
  let model ← strOf j "model"
  let P : Params ←
    match j.getObjVal? "transmittance" with
    | .ok tj => do
      let tr ← ratOfJson tj
      -- NoiseModel validation: ValidatedFloat in [0,1]
      if tr < 0 ∨ 1 < tr ∨ beta < 0 ∨ 1 < beta ∨ g2 < 0 ∨ 1 < g2 ∨ ind < 0 ∨ 1 < ind then
        throw "ValueError"
      let gd ← (if model = "distinguishable" then pure true
                else if model = "indistinguishable" then pure false else throw "bad-model")
      pure (ofNoise beta g2 q ind r tr gd)
    | .error _ => do
      let eta ← ratOf j "eta"
      pure { beta := beta, g2 := g2, q := q, eta := eta, ind := ind, r := r,
             dm := model = "distinguishable" }
  if !P.admissible then throw "AssertionError"
  if model ≠ "distinguishable" ∧ model ≠ "indistinguishable" then throw "AssertionError"
  if !P.rootsOk then throw "bad-roots"
  return P

def tagJ : Tag → Json
  | none => Json.null
  | some k => toJson k
def modeJ (m : Mode) : Json := Json.arr (m.map tagJ).toArray
def stateJ (s : State) : Json := Json.arr (s.map modeJ).toArray

def distJ {α : Type} (f : α → Json) (d : Dist α) : Json :=
  Json.arr (d.map fun e => Json.arr #[f e.1, ratToJson e.2]).toArray

/-- is some comparison made by the trimming within a relative 1e-6 of the threshold?  (then a
float implementation may legitimately decide the other way; the harness skips such cases) -/
def nearVal (θ x : ℚ) : Bool :=
  decide (θ ≠ 0) && decide (θ * (1 - 1 / 1000000) ≤ x) && decide (x ≤ θ * (1 + 1 / 1000000))

def nearDfs {α : Type} (θ : ℚ) : List (Dist α) → ℚ → Bool
  | [], _ => false
  | d :: ds, p => d.any fun e => nearVal θ (p * e.2) || (!(p * e.2 < θ) && nearDfs θ ds (p * e.2))

def nearLtp {α : Type} (θ : ℚ) (ds : List (Dist α)) : Bool :=
  if ds.length ≤ 1 then false
  else ds.any (fun d => d.any fun e => nearVal θ e.2) || nearDfs θ (ds.map (trim θ)) 1

/-- near-threshold decisions anywhere inside `generate_distribution` -/
def nearGen (P : Params) (θ : ℚ) : List ℕ → ℕ → Bool
  | [], _ => false
  | n :: ns, t =>
    (!(shortcut P n) && nearLtp θ (photonDists P n t)) || nearGen P θ ns (probDistTag P n t)

/-- a `NoiseModel` value (what the harness puts into a Python `NoiseModel` object) -/
def parseNoiseVal (j : Json) : Except String NoiseVal := do
  let beta ← ratOf j "beta"
  let g2 ← ratOf j "g2"
  let q ← ratOf j "q"
  let ind ← ratOf j "ind"
  let r ← ratOf j "r"
  let tr ← ratOf j "transmittance"
  let model ← strOf j "model"
  if tr < 0 ∨ 1 < tr ∨ beta < 0 ∨ 1 < beta ∨ g2 < 0 ∨ 1 < g2 ∨ ind < 0 ∨ 1 < ind then
    throw "ValueError"
  let gd ← (if model = "distinguishable" then pure true
            else if model = "indistinguishable" then pure false else throw "bad-model")
  let v : NoiseVal := { brightness := beta, g2 := g2, q := q, ind := ind, r := r, transmittance := tr,
                        g2dist := gd }
  -- a `NoiseModel` object may hold values `Source.__init__` rejects (each field is validated on its own only);
  -- `q` is meaningless then (no real root), `r` still has to be the root of the indistinguishability
  if v.admissible then
    if !v.params.rootsOk then throw "bad-roots"
  else
    if !(decide (0 ≤ r) && decide (r * r = ind)) then throw "bad-roots"
  return v

def nearGenAll (P : Params) (thr : ℚ) (ns : List ℕ) (t : ℕ) : Bool :=
  let θ := max thr minP
  nearGen P θ ns t || nearLtp θ ((modeDists P θ ns t).map lift)

def parseProcOp (j : Json) : Except String ProcOp := do
  let op ← strOf j "op"
  match op with
  | "mutate" => return .mutate (← natOf j "id") (← parseNoiseVal (← j.getObjVal? "P"))
  | "assign" => return .assign (← natOf j "id")
  | "input" => return .input (← natList (← j.getObjVal? "ns"))
  | "custom" => return .custom (← natOf j "c")
  | "clear" => return .clear
  | "read" => return .read
  | "source" => return .useSource (← natList (← j.getObjVal? "ns")) (← ratOf j "thr")
  | "other" => return .other
  | _ => throw "bad-step"

/-- run a history of the processor model; one output per step: `null`, or the distribution the step
returns with the near-threshold flag of the moment it was generated and the ghost flag `dirty` -/
def runHist (j : Json) : Except String Json := do
  let objs ← (← (← j.getObjVal? "objs").getArr?).toList.mapM parseNoiseVal
  let ref ← natOf j "init"
  if objs.length ≤ ref then throw "bad-ref"
  -- `Processor(..., noise=nm)` with values the `Source` constructor rejects raises: there is no processor
  if !((objs.getD ref { brightness := 1, g2 := 0, q := 1, ind := 1, r := 1, transmittance := 1,
                         g2dist := true }).admissible) then throw "AssertionError"
  let dflt : NoiseVal := { brightness := 1, g2 := 0, q := 1, ind := 1, r := 1, transmittance := 1,
                           g2dist := true }
  let ops ← (← (← j.getObjVal? "steps").getArr?).toList.mapM parseProcOp
  let mut s := Proc.init (fun i => objs.getD i dflt) ref
  let mut cacheNear := false
  let mut outs : Array Json := #[]
  for op in ops do
    let near :=
      match op with
      | .input ns => nearGenAll s.src 0 ns s.tag
      | .read => (match s.cache, s.input with
                  | some _, _ => cacheNear
                  | none, some (.fock ns) => nearGenAll s.src 0 ns s.tag
                  | none, _ => false)
      | .useSource ns thr => nearGenAll s.src thr ns s.tag
      | _ => false
    match op with
    | .input _ => cacheNear := near
    | .read => cacheNear := near
    | .assign _ => cacheNear := false
    | .custom _ => cacheNear := false
    | .clear => cacheNear := false
    | _ => pure ()
    let (s', o) := procStep s op
    outs := outs.push (match o with
      | none => Json.mkObj [("dirty", toJson s'.dirty)]
      | some (.gen d) => Json.mkObj [("dist", distJ stateJ d), ("near", toJson near),
                                     ("dirty", toJson s'.dirty)]
      | some (.custom c) => Json.mkObj [("custom", toJson c), ("dirty", toJson s'.dirty)])
    s := s'
  return Json.mkObj [("outs", Json.arr outs)]


/-! ### the sampler as a function of its recorded draws -/

def natListList (j : Json) : Except String (List (List ℕ)) := do
  (← j.getArr?).toList.mapM natList

def routeStr : SampRoute → String
  | .perfect => "perfect"
  | .noFilter => "no-filter"
  | .aborted => "aborted"
  | .noEvent => "IndexError"
  | .events => "events"

def isPermOf (n : ℕ) (p : List ℕ) : Bool :=
  p.length = n && (List.range n).all fun i => p.contains i

/-- `generate_samples(k, ns, 0)` replayed: `calls` = the index lists drawn by the successive
`bsd.sample(k)` calls -/
def replayNF (P : Params) (j : Json) : Except String Json := do
  let t ← natOf j "t"
  let ns ← natList (← j.getObjVal? "ns")
  let k ← natOf j "k"
  let calls ← natListList (← j.getObjVal? "calls")
  if sampRoute P ns.sum 0 ≠ .noFilter then throw "route"
  let dss := nfDists P ns t
  let flat := dss.flatten
  if calls.length ≠ flat.length then throw s!"bad-draw: {calls.length} calls, model {flat.length}"
  if calls.any (fun c => c.length ≠ k) then throw "bad-draw: call size"
  if (List.zip flat calls).any (fun x => x.2.any fun i => decide (x.1.length ≤ i)) then
    throw "bad-draw: index"
  if dss.map List.length ≠ ns then throw "model: one distribution per requested photon expected"
  let samples := nfSamples dss k calls
  let callsJ := Json.arr (flat.map fun d => distJ modeJ (normalize d)).toArray
  return Json.mkObj [("samples", Json.arr (samples.map stateJ).toArray), ("calls", callsJ),
    ("tag", toJson (nfTag P ns t))]

/-- `generate_samples(k, ns, f)` with `f ≠ 0` replayed: the event indices, the indices (0 = True) of the
one `_generate_distinguishability` call, the permutation of every shuffle -/
def replayF (P : Params) (j : Json) : Except String Json := do
  let t ← natOf j "t"
  let ns ← natList (← j.getObjVal? "ns")
  let f ← natOf j "f"
  let evIdx ← natList (← j.getObjVal? "events")
  let bIdx ← natList (← j.getObjVal? "bools")
  let perms ← natListList (← j.getObjVal? "perms")
  let n := ns.sum
  if sampRoute P n f ≠ .events then throw "route"
  let tab := table P n f
  if evIdx.any (fun i => decide (tab.length ≤ i)) then throw "bad-draw: event index"
  let events := evIdx.map (eventOf P n f)
  let need := (events.map fun e => e.1 + e.2.2).sum
  if bIdx.length ≠ need then throw s!"bad-draw: {bIdx.length} booleans, model reads {need}"
  if bIdx.any (fun i => decide (2 ≤ i)) then throw "bad-draw: boolean index"
  if perms.length ≠ events.length then throw "bad-draw: shuffles"
  if perms.any (fun p => !isPermOf n p) then throw "bad-draw: not a permutation"
  let samples := fSamples P.dm ns t events (bIdx.map fun i => decide (i = 0)) perms
  let evJ := Json.arr (events.map fun e => Json.arr #[toJson e.1, toJson e.2.1, toJson e.2.2]).toArray
  -- the observable of `sampler_filtered_law`: the per-mode class profile (common-tag photons, fresh-tag photons)
  let profJ := fun (s : State) => Json.arr ((profile s).map fun c => Json.arr #[toJson c.1, toJson c.2]).toArray
  return Json.mkObj [("samples", Json.arr (samples.map stateJ).toArray), ("events", evJ),
    ("boolw", Json.arr #[ratToJson P.r, ratToJson (1 - P.r)]),
    ("profiles", Json.arr (samples.map profJ).toArray)]

/-! ### `simplify_distribution` / `anonymize_annotations` -/

def tagOfJson (j : Json) : Except String Tag :=
  match j with
  | Json.null => pure none
  | _ => do pure (some (← j.getNat?))

def stateOfJson (j : Json) : Except String State := do
  (← j.getArr?).toList.mapM fun m => do (← m.getArr?).toList.mapM tagOfJson

/-- `anonymize_annotations(StateVector(bs), annot_tag='_')` on ONE state whose modes are given in the
visiting order of the code (`photon2mode(i)`, `get_photon_annotation(i)`, `i = 0 … n-1`) -/
def anonStateOp (j : Json) : Except String Json := do
  let s ← stateOfJson (← j.getObjVal? "state")
  return Json.mkObj [("state", stateJ (anonState s)), ("unsorted", stateJ (anonModes [] s)),
    ("map", modeJ (annotMap s))]

/-! ### the `Source` object across calls (`Model/C06Src.lean`) -/

def tableJ (tab : Table) : Json :=
  Json.arr (tab.map fun e => Json.arr #[toJson e.1.1, toJson e.1.2.1, toJson e.1.2.2, ratToJson e.2]).toArray

def parseSrcOp (j : Json) : Except String SrcOp := do
  let op ← strOf j "op"
  match op with
  | "cache" => return .cacheTable (← natOf j "n") (← natOf j "f")
  | "samples" => return .samples (← natList (← j.getObjVal? "ns")) (← natOf j "f")
  | "dist" => return .dist (← natList (← j.getObjVal? "ns"))
  | "pd" => return .probDist (← natOf j "n")
  | _ => throw "bad-src-op"

def srcOutJ : SrcOut → List (String × Json)
  | .cached perf zpp => [("out", "cached"), ("perf", ratToJson perf), ("zpp", ratToJson zpp)]
  | .zeroDiv => [("out", "ZeroDivisionError")]
  | .perfect => [("out", "perfect")]
  | .noFilter => [("out", "no-filter")]
  | .aborted => [("out", "aborted")]
  | .noEvent => [("out", "IndexError")]
  | .events tb => [("out", "events"), ("used", tableJ tb)]
  | .moved => [("out", "moved")]

def srcStateJ (s : Src) : List (String × Json) :=
  [("tag", toJson s.tag),
   ("cache", match s.tab with
     | none => Json.null
     | some (tb, n, f) => Json.mkObj [("n", toJson n), ("f", toJson f), ("table", tableJ tb)])]

/-- a history of public calls on ONE new `Source`; per call the outcome and the state of the object after it -/
def runSrcHist (P : Params) (j : Json) : Except String Json := do
  let ops ← (← (← j.getObjVal? "ops").getArr?).toList.mapM parseSrcOp
  let rec go (s : Src) : List SrcOp → List Json
    | [] => []
    | o :: os =>
      let r := srcStep P s o
      Json.mkObj (srcOutJ r.2 ++ srcStateJ r.1) :: go r.1 os
  let t0 ← (match j.getObjVal? "t0" with
    | .ok tj => tj.getNat?
    | .error _ => pure 0)
  return Json.mkObj [("steps", Json.arr (go (Src.initT t0) ops).toArray)]

def handleE (j : Json) : Except String Json := do
  let op ← strOf j "op"
  if op = "hist" then return ← runHist j
  if op = "anon_state" then return ← anonStateOp j
  let P ← parseParams (← j.getObjVal? "P")
  match op with
  | "probs" =>
    return Json.mkObj [("p11", ratToJson (p11 P)), ("p21", ratToJson (p21 P)),
      ("p22", ratToJson (p22 P)), ("p0", ratToJson (p0 P)),
      ("perfect", toJson (isPerfect P)), ("pd", toJson (partDist P))]
  | "one" =>
    let t ← natOf j "t"
    return Json.mkObj [("dist", distJ modeJ (onePhoton P t)), ("t", toJson (nextTag P t))]
  | "pd" =>
    let t ← natOf j "t"
    let n ← natOf j "n"
    let θ ← ratOf j "thr"
    let near := !(shortcut P n) && nearLtp θ (photonDists P n t)
    return Json.mkObj [("dist", distJ modeJ (probDist P θ n t)), ("t", toJson (probDistTag P n t)),
      ("near", toJson near)]
  | "gen" =>
    let t ← natOf j "t"
    let ns ← natList (← j.getObjVal? "ns")
    let thr ← ratOf j "thr"
    let θ := max thr minP
    let raw := generateRaw P θ ns t
    let near := nearGen P θ ns t || nearLtp θ ((modeDists P θ ns t).map lift)
    return Json.mkObj [("dist", distJ stateJ (normalize raw)), ("rawmass", ratToJson (mass raw)),
      ("near", toJson near)]
  | "gen_simplify" =>
    -- `generate_distribution` with the attribute `simplify_distribution` = "simplify"
    let t ← natOf j "t"
    let ns ← natList (← j.getObjVal? "ns")
    let thr ← ratOf j "thr"
    let simplify ← boolOf j "simplify"
    let θ := max thr minP
    let near := nearGen P θ ns t || nearLtp θ ((modeDists P θ ns t).map lift)
    return Json.mkObj [("dist", distJ stateJ (generateS P simplify thr ns t)),
      ("applied", toJson (simplify && partDist P)), ("rawmass", ratToJson (mass (generateRaw P θ ns t))),
      ("near", toJson near)]
  | "exact" =>
    -- the untrimmed product (threshold 0), optionally conditioned on `photons ≥ f`
    let t ← natOf j "t"
    let ns ← natList (← j.getObjVal? "ns")
    let f ← natOf j "f"
    let d := generateAt P 0 ns t
    let kept := d.filter fun e => decide (f ≤ photons e.1)
    if f ≠ 0 ∧ mass kept = 0 then throw "empty"
    return Json.mkObj [("dist", distJ stateJ (if f = 0 then d else condMin f d)),
      ("perf", ratToJson (mass kept))]
  | "table" =>
    let n ← natOf j "n"
    let f ← natOf j "f"
    if f ≠ 0 ∧ physPerf P n f = 0 ∧ (tableRaw P n f).length ≠ 0 then throw "ZeroDivisionError"
    let tab := table P n f
    let tj := Json.arr (tab.map fun e =>
      Json.arr #[toJson e.1.1, toJson e.1.2.1, toJson e.1.2.2, ratToJson e.2]).toArray
    return Json.mkObj [("table", tj), ("perf", ratToJson (physPerf P n f)),
      ("zpp", ratToJson (zeroPhotonProb P n))]
  | "route" =>
    let ns ← natList (← j.getObjVal? "ns")
    let f ← natOf j "f"
    return Json.mkObj [("route", toJson (routeStr (sampRoute P ns.sum f)))]
  | "src_hist" => runSrcHist P j
  | "replay_nf" => replayNF P j
  | "replay_f" => replayF P j
  | _ => throw "bad-op"

def handle (j : Json) : Json :=
  match handleE j with
  | .ok r => r
  | .error e => errJson e

def main : IO Unit := run handle
