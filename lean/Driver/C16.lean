import PercevalModel.Proto
import PercevalModel.Model.C16
import PercevalModel.Model.C16Mat
import PercevalModel.Model.C16Heap
import PercevalModel.Model.C16Rpc
import PercevalModel.Model.C16Add
import PercevalModel.Model.C16PS
import PercevalModel.Model.C16Est

/-!
  Line protocol for C16.  One request = one session:
  `{"pf": {"max_modes":n|null, "min_modes":…, "max_photons":…, "min_photons":…, "commands":[…]},
    "ops": [ {"op": …}, … ]}`  (an `execute` op carries `"net": "ok" | "lost" | "down"`: what the network does
  to the one request `create_job` emits)
  Reply: `{"outs": [ {"err": cls} | {"done": true} | {"payload": [[k, v]…]} | {"sent": {…}}
                     | {"err": "TransportError", "received": {…}} … ],
           "states": [ digest of the remote processor after each op | null ],
           "log": number of create_job calls}`.
  A request that cannot be parsed is answered `{"err": …}`.

  Extension.  The request carries `"aliased": bool` (the code as it is: a job's request shares `_parameters` and the
  iterator list with the processor / sampler; `false`: the repaired code) and the session runs on the heap machine
  `hstep aliased` (`Model/C16Heap.lean`).  The four circuit-changing calls carry the STRUCTURE of the user's object
    {"op":"new_remote","via_set":b,"c":UC,"noise":n|null}   {"op":"convert","p":{…},"pcomps":[COMP…]}
    {"op":"add_comp","k":k,"c":UC}                           {"op":"set_circuit","checked":b,"c":UC}
    UC = {"m":m,"leaves":[[offset,id,k]…],"sym":n,"cparams":[…]}   COMP = ["leaf",pos,id,k] | ["sub",pos,UC]
  and run, next to it, on the machine with components `cstep` (`Model/C16Mat.lean`).  Any op may carry
  `"env": [[id, rows]…]` — the matrix each elementary component denotes from now on (exact `"num/den"` pairs) — and
  `"want": true`: the reply's `"mats"` then has, for that op, the exact matrix of the component list the processor
  holds after it (`circMat`), `null` otherwise.  The two machines share `step`; should one refuse (precondition)
  what the other accepts, the request is answered `{"err": …}`.

  Extension (round 5, `Model/C16Rpc.lean`).  The request carries the handler
    "handler": {"name": s, "url": s, "token": s|null, "proxies": n|null, "timeout": n}
  and an `execute` op carries, instead of `"net"`, what the transport does to the POST it may emit
    "wire": "read_timeout" | "connection_error" | "connect_timeout"
          | {"code": n, "reply": "not_json" | "list" | {"job_id": s|null, "error": s|null}}
  The session also runs on `rstep` (it must agree with the heap machine on the world — else `{"err": …}`); the
  output of an `execute` is `rstep`'s: `{"sent": {…}, "id": s}` | `{"err": cls, "msg": s|null, "posted": {…},
  "accepted": b}` (exception class of `create_job`) | the session machine's refusal.  The reply's `"http"` lists, per
  op, the HTTP requests the model says the client emits: `{"verb","url","auth","timeout","proxies","platform"}`.
  Extension 6 (`Model/C16PS.lean`).  A request with `"part": "ps"` is not a session but one question about the
  post-selection as a predicate:
    {"part":"ps","expr":E|null,"m":m,"size":n,"heralds":[[mode,expected]…],"states":[[n0,n1,…]…]}
    E = ["c",[modes],"=="|"!="|"<"|"<="|">"|">=",n] | ["not",E] | ["and"|"or"|"xor",[E…]]
  answered `{"relabel":σ,"conds":[[modes]…]|null,"tstates":[…],"local":[b…],"remote":[b…],"denote":[b…]}`: the mode
  relabelling of the conversion, the condition mode sets of `convertPost`, per local state `s` the corresponding
  remote state, `evalTop x s`, `evalTop (convertPost p x) t` and the same through `Sym.denote`.
-/

open Lean PM.Proto PM.C16

def optOf (j : Json) (k : String) (f : Json → Except String α) : Except String (Option α) := do
  match j.getObjVal? k with
  | .ok v => if v.isNull then pure none else pure (some (← f v))
  | .error _ => throw s!"missing field {k}"

def pvOfJson (j : Json) : Except String PV :=
  match j with
  | .null => pure .none
  | .str s => pure (.str s)
  | .num _ => do pure (.int (← j.getInt?))
  | .bool b => pure (.bool b)
  | _ => throw "bad scalar"

def natListOf (j : Json) : Except String (List Nat) := natList j

def pairsOf (j : Json) (f : Json → Except String α) : Except String (List (String × α)) := do
  (← j.getArr?).toList.mapM fun p => do
    match p with
    | .arr #[k, v] => pure (← k.getStr?, ← f v)
    | _ => throw "bad pair"

def heraldsOf (j : Json) : Except String (List (Nat × Nat)) := do
  (← j.getArr?).toList.mapM fun p => do
    match p with
    | .arr #[k, v] => pure (← k.getNat?, ← v.getNat?)
    | _ => throw "bad herald"

def strListOf (j : Json) : Except String (List String) := do
  (← j.getArr?).toList.mapM (·.getStr?)

def platformOf (j : Json) : Except String Platform := do
  pure { maxModes := ← optOf j "max_modes" (·.getNat?), minModes := ← optOf j "min_modes" (·.getNat?),
         maxPhotons := ← optOf j "max_photons" (·.getNat?), minPhotons := ← optOf j "min_photons" (·.getNat?),
         commands := ← strListOf (← j.getObjVal? "commands") }

def expOf (j : Json) : Except String Exp := do
  pure { m := ← natOf j "m", size := ← natOf j "size", heralds := ← heraldsOf (← j.getObjVal? "heralds"),
         input := ← optOf j "input" natListOf, post := (← optOf j "post" (·.getNat?)).map (⟨·, []⟩),
         noise := ← optOf j "noise" (·.getNat?), filter := ← optOf j "filter" (·.getInt?),
         params := [], circ := ⟨← natOf j "circ", []⟩, cparams := ← strListOf (← j.getObjVal? "cparams") }

def ivOf (j : Json) : Except String IV := do
  if let .ok d := j.getObjVal? "cparams" then return .cparams (← pairsOf d pvOfJson)
  if let .ok s := j.getObjVal? "state" then return .state (← natListOf s)
  if let .ok i := j.getObjVal? "int" then return .int (← i.getInt?)
  if let .ok n := j.getObjVal? "noise" then return .noise (← n.getNat?)
  if let .ok _ := j.getObjVal? "other" then return .other
  throw "bad iteration value"

def methodOf (s : String) : Except String Method :=
  if s = "probs" then pure .probs
  else if s = "sample_count" then pure .sample_count
  else if s = "samples" then pure .samples
  else throw s!"unknown method {s}"

def netOf (s : String) : Except String Net :=
  if s = "ok" then pure .ok
  else if s = "lost" then pure .lost
  else if s = "down" then pure .down
  else throw s!"unknown network behaviour {s}"

def textOf (j : Json) : Except String Text := do pure (← j.getStr?).toList
def textJson (t : Text) : Json := .str (String.ofList t)

def replyOf (j : Json) : Except String Reply :=
  match j with
  | .str "not_json" => pure .notJson
  | .str "list" => pure .list
  | _ => do pure (.obj (← optOf j "job_id" textOf) (← optOf j "error" textOf))

def wireOf (j : Json) : Except String Wire :=
  match j with
  | .str "read_timeout" => pure .readTimeout
  | .str "connection_error" => pure .connectionError
  | .str "connect_timeout" => pure .connectTimeout
  | _ => do pure (.answer (← natOf j "code") (← replyOf (← j.getObjVal? "reply")))

def handlerOf (j : Json) : Except String Handler := do
  pure { name := ← textOf (← j.getObjVal? "name"), url := ← textOf (← j.getObjVal? "url"),
         token := ← optOf j "token" textOf, proxies := ← optOf j "proxies" (·.getNat?), timeout := ← natOf j "timeout" }

def opOf (j : Json) : Except String Op := do
  let op ← strOf j "op"
  if op = "new_remote" then
    return .newRemote (← boolOf j "via_set") (← natOf j "m") (← natOf j "circ")
      (← strListOf (← j.getObjVal? "cparams")) (← optOf j "noise" (·.getNat?))
  if op = "convert" then return .convert (← boolOf j "fixed") (← expOf (← j.getObjVal? "p"))
  if op = "add_herald" then return .addHerald (← natOf j "mode") (← natOf j "expected")
  if op = "with_input" then return .withInput (← natListOf (← j.getObjVal? "s"))
  if op = "filter" then return .setFilter (← optOf j "n" (·.getInt?))
  if op = "post" then return .setPost (← optOf j "p" (·.getNat?))
  if op = "noise" then return .setNoise (← optOf j "n" (·.getNat?))
  if op = "param" then return .setParam (← strOf j "k") (← pvOfJson (← j.getObjVal? "v"))
  if op = "clear_params" then return .clearParams
  if op = "set_circuit" then
    return .setCircuit (← boolOf j "checked") (← natOf j "size") (← natOf j "circ")
      (← strListOf (← j.getObjVal? "cparams"))
  if op = "retune" then return .retune (← natOf j "circ")
  if op = "add_comp" then return .addComponent (← natOf j "circ") (← strListOf (← j.getObjVal? "cparams"))
  if op = "prepare" then
    return .prepare (← strOf j "cmd") (← boolOf j "circuitless") (← boolOf j "inputless")
      ((← pairsOf (← j.getObjVal? "kw") pvOfJson).map fun kv => (kv.1, V.pv kv.2))
  if op = "sampler" then return .newSampler (← pvOfJson (← j.getObjVal? "ms"))
  if op = "add_iters" then
    return .addIterations (← (← arrOf j "its").toList.mapM fun it => pairsOf it ivOf)
  if op = "clear_iters" then return .clearIterations
  if op = "job" then return .createJob (← methodOf (← strOf j "method"))
  if op = "execute" then
    return .execute (← natOf j "job") (← (← arrOf j "args").toList.mapM pvOfJson)
      (← pairsOf (← j.getObjVal? "kw") pvOfJson) (← wireOf (← j.getObjVal? "wire")).net
  throw s!"unknown op {op}"

/-! output -/

def pvJson : PV → Json
  | .none => .null
  | .int i => toJson i
  | .str s => .str s
  | .bool b => .bool b

def natsJson (l : List Nat) : Json := .arr (l.map (toJson ·)).toArray
def pairsJson (d : List (String × α)) (f : α → Json) : Json :=
  .arr (d.map fun kv => Json.arr #[.str kv.1, f kv.2]).toArray
def heraldsJson (h : List (Nat × Nat)) : Json :=
  .arr (h.map fun kv => Json.arr #[toJson kv.1, toJson kv.2]).toArray
def symJson (s : Sym) : Json := Json.mkObj [("id", toJson s.id), ("perm", natsJson s.perm)]
def optJson (o : Option α) (f : α → Json) : Json := match o with | some x => f x | none => .null

def vJson : V → Json
  | .pv p => Json.mkObj [("pv", pvJson p)]
  | .circ c n => Json.mkObj [("circ", Json.mkObj [("id", toJson c.id), ("perm", natsJson c.perm), ("size", toJson n)])]
  | .state s => Json.mkObj [("state", natsJson s)]
  | .heralds h => Json.mkObj [("heralds", heraldsJson h)]
  | .post p => Json.mkObj [("post", symJson p)]
  | .noise n => Json.mkObj [("noise", toJson n)]
  | .params d => Json.mkObj [("params", pairsJson d pvJson)]
  | .ctx rm mp => Json.mkObj [("ctx", Json.mkObj [("result_mapping", optJson rm Json.str),
      ("mapping", optJson mp (pairsJson · pvJson))])]
  | .iter n => Json.mkObj [("iter", toJson n)]

def ivJson : IV → Json
  | .cparams d => Json.mkObj [("cparams", pairsJson d pvJson)]
  | .state s => Json.mkObj [("state", natsJson s)]
  | .int i => Json.mkObj [("int", toJson i)]
  | .noise n => Json.mkObj [("noise", toJson n)]
  | .other => Json.mkObj [("other", true)]

def itersJson (its : List (Dict IV)) : Json := .arr (its.map (pairsJson · ivJson)).toArray

def sentJson (s : Sent) : Json :=
  Json.mkObj [("job_name", .str s.jobName), ("payload", pairsJson s.payload vJson), ("iterator", itersJson s.iterator)]

def outJson : Out → Json
  | .err e => Json.mkObj [("err", .str e.name)]
  | .done => Json.mkObj [("done", true)]
  | .payload pl => Json.mkObj [("payload", pairsJson pl vJson)]
  | .sent s => Json.mkObj [("sent", sentJson s)]
  | .lost s => Json.mkObj [("err", .str Err.transport.name), ("received", sentJson s)]

def routJson (wire : Wire) : ROut → Json
  | .plain o => outJson o
  | .sent id s => Json.mkObj [("sent", sentJson s), ("id", textJson id)]
  | .raised cls msg s => Json.mkObj [("err", .str cls), ("msg", optJson msg textJson), ("posted", sentJson s),
      ("accepted", wire.accepted)]

def exchangeJson (x : Exchange) : Json :=
  Json.mkObj [("verb", .str (match x.req.verb with | .get => "GET" | .post => "POST")), ("url", textJson x.req.url),
    ("auth", textJson x.req.auth), ("timeout", toJson x.req.timeout), ("proxies", optJson x.req.proxies (toJson ·)),
    ("platform", optJson x.req.body (fun b => textJson b.platform))]

def expJson (e : Exp) : Json :=
  Json.mkObj [("m", toJson e.m), ("size", toJson e.size), ("heralds", heraldsJson e.heralds),
    ("input", optJson e.input natsJson), ("post", optJson e.post symJson), ("noise", optJson e.noise (toJson ·)),
    ("filter", optJson e.filter (toJson ·)), ("params", pairsJson e.params pvJson), ("circ", symJson e.circ),
    ("wf", decide e.WF)]

/-! extension: structure of circuits, environment, matrices -/

def leafOf (j : Json) : Except String (Nat × Leaf) :=
  match j with
  | .arr #[o, i, k] => do pure (← o.getNat?, ⟨← i.getNat?, ← k.getNat?⟩)
  | _ => throw "bad leaf"

def ucOf (j : Json) : Except String UC := do
  pure { m := ← natOf j "m", leaves := ← (← arrOf j "leaves").toList.mapM leafOf, sym := ← natOf j "sym",
         cparams := ← strListOf (← j.getObjVal? "cparams") }

def compOf (j : Json) : Except String Comp :=
  match j with
  | .arr #[.str "leaf", pos, i, k] => do pure (.leaf (← pos.getNat?) ⟨← i.getNat?, ← k.getNat?⟩)
  | .arr #[.str "sub", pos, c] => do pure (.sub (← pos.getNat?) (← ucOf c))
  | _ => throw "bad component"

def copOf (j : Json) : Except String COp := do
  let op ← strOf j "op"
  if op = "new_remote" then
    return .newRemote (← boolOf j "via_set") (← ucOf (← j.getObjVal? "c")) (← optOf j "noise" (·.getNat?))
  if op = "convert" then
    return .convert (← expOf (← j.getObjVal? "p")) (← (← arrOf j "pcomps").toList.mapM compOf)
  if op = "add_comp" then return .add (← natOf j "k") (← ucOf (← j.getObjVal? "c"))
  if op = "set_circuit" then return .setCircuit (← boolOf j "checked") (← ucOf (← j.getObjVal? "c"))
  return .plain (← opOf j)

/-! extension (round 5): mappings, ports, parameters, `clear_input_and_circuit` -/

def mkeyOf (j : Json) : Except String MKey :=
  match j with
  | .str s => pure (.port s)
  | _ => do pure (.mode (← j.getInt?))

def mvalOf (j : Json) : Except String MVal :=
  match j with
  | .arr a => do pure (.modes (← a.toList.mapM (·.getInt?)))
  | .str _ => pure .str
  | _ => do pure (.mode (← j.getInt?))

def mappingOf (j : Json) : Except String Mapping := do
  if let .ok k := j.getObjVal? "offset" then return .offset (← k.getInt?)
  if let .ok l := j.getObjVal? "list" then return .list (← intList l)
  if let .ok d := j.getObjVal? "dict" then
    return .dict (← (← d.getArr?).toList.mapM fun p => do
      match p with
      | .arr #[k, v] => pure (← mkeyOf k, ← mvalOf v)
      | _ => throw "bad mapping item")
  throw "bad mapping"

def condsOf (j : Json) : Except String (List (List Nat)) := do (← j.getArr?).toList.mapM natList

def aopOf (j : Json) : Except String AOp := do
  let op ← strOf j "op"
  if op = "post" then
    match ← optOf j "p" (·.getNat?) with
    | none => return .clearPost
    | some id => return .post id (← condsOf (← j.getObjVal? "conds"))
  if op = "convert" then
    let p ← expOf (← j.getObjVal? "p")
    let pc ← (← arrOf j "pcomps").toList.mapM compOf
    if p.post.isSome then return .convertPS p pc (← condsOf (← j.getObjVal? "conds"))
    return .base (.convert p pc)
  if op = "add_port" then return .addPort (← natOf j "mode") (← strOf j "name") (← natOf j "size")
  if op = "add_comp" then return .addMapped (.offset (← intOf j "k")) (← ucOf (← j.getObjVal? "c"))
  if op = "add_mapped" then return .addMapped (← mappingOf (← j.getObjVal? "map")) (← ucOf (← j.getObjVal? "c"))
  if op = "set_params" then
    return .setParams (← (← arrOf j "d").toList.mapM fun p => do
      match p with
      | .arr #[k, v] => do
        let key ← (if k.isNull then pure none else do pure (some (← k.getStr?)))
        pure (key, ← pvOfJson v)
      | _ => throw "bad parameter item")
  if op = "thresholded" then return .thresholded (← boolOf j "v")
  if op = "clear_all" then return .clearAll (← optOf j "new_m" (·.getInt?)) (← natOf j "sym")
  return .base (← copOf j)

abbrev Table := Array (Nat × Array (Array GQ))

def tableSet (t : Table) (id : Nat) (rows : Array (Array GQ)) : Table :=
  match t.findIdx? (·.1 == id) with
  | some i => t.set! i (id, rows)
  | none => t.push (id, rows)

def envOf (t : Table) : Env GQ := fun id _ =>
  let rows := (t.find? (·.1 == id)).map (·.2) |>.getD #[]
  fun i j => (rows.getD i.val #[]).getD j.val 0

def envUpdate (t : Table) (j : Json) : Except String Table := do
  match j.getObjVal? "env" with
  | .error _ => pure t
  | .ok e =>
    let mut t := t
    for p in (← e.getArr?) do
      match p with
      | .arr #[i, rows] => t := tableSet t (← i.getNat?) (← gqRows rows)
      | _ => throw "bad env entry"
    pure t

def matJson (t : Table) (N : Nat) (comps : List Comp) : Json :=
  let m := circMatV (envOf t) N comps
  rowsToJson (m.toArray.map (·.toArray))

def handle (j : Json) : Json :=
  let r : Except String Json := do
    let pf ← platformOf (← j.getObjVal? "pf")
    let aliased ← boolOf j "aliased"
    let opsJ ← arrOf j "ops"
    let handler ← handlerOf (← j.getObjVal? "handler")
    let thrOnly := (j.getObjVal? "thr_only").toOption.bind (·.getBool?.toOption) |>.getD false
    let mut hw := HWorld.init pf
    let mut rw := RWorld.init pf handler
    let mut https : Array Json := #[]
    let mut aw := AWorld.init pf thrOnly
    let mut table : Table := #[]
    let mut outs : Array Json := #[]
    let mut states : Array Json := #[]
    let mut mats : Array Json := #[]
    for oj in opsJ do
      table ← envUpdate table oj
      let aop ← aopOf oj
      let (aw', oa) := astep aw aop
      if oa == .err .precondition ∧ aw' == aw then
        -- outside the modelled domain: nothing happens on any machine
        outs := outs.push (outJson oa)
        https := https.push (.arr #[])
      else
        match aop.delegate aw with
        | some cop =>
          -- a call the session machine knows: the heap machine and the machine with the HTTP layer run it too
          let (hw', oh) := hstep aliased hw cop.toOp
          if hw'.w.exp != aw'.cw.w.exp then throw "the machines disagree on the processor"
          let wire ← match cop.toOp with
            | .execute .. => wireOf (← oj.getObjVal? "wire")
            | _ => pure .readTimeout
          let (rw', orr) := rstep rw (cop.toOp, wire)
          if !aliased ∧ rw'.w != hw'.w then throw "the machine with the HTTP layer disagrees with the session machine"
          if !aliased ∧ aw'.cw.w != hw'.w then throw "the machine with mappings disagrees with the session machine"
          https := https.push (.arr ((rw'.http.drop rw.http.length).map exchangeJson).toArray)
          hw := hw'
          rw := rw'
          outs := outs.push (if aliased then outJson oh else routJson wire orr)
        | none =>
          -- a call only `astep` knows: it changes the processor, nothing else, and emits nothing
          hw := { hw with w := { hw.w with exp := aw'.cw.w.exp } }
          rw := { rw with w := { rw.w with exp := aw'.cw.w.exp } }
          https := https.push (.arr #[])
          outs := outs.push (outJson oa)
        aw := { aw' with cw := { aw'.cw with w := hw.w } }
      states := states.push (optJson hw.w.exp expJson)
      let want := (oj.getObjVal? "want").toOption.bind (·.getBool?.toOption) |>.getD false
      mats := mats.push (match want, hw.w.exp with
        | true, some e => matJson table e.size aw.cw.comps
        | _, _ => .null)
    pure (Json.mkObj [("outs", .arr outs), ("states", .arr states), ("log", toJson hw.w.log.length),
      ("iterator", optJson hw.w.sampler (fun s => itersJson s.iterator)), ("mats", .arr mats),
      ("http", .arr https), ("posts", toJson (posts rw.http).length)])
  match r with
  | .ok v => v
  | .error e => errJson e

/-! ### part "ps": the post-selection as a predicate -/

def cmpOf (s : String) : Except String PSel.Cmp :=
  match s with
  | "==" => pure .eq | "!=" => pure .ne | "<" => pure .lt | "<=" => pure .le | ">" => pure .gt | ">=" => pure .ge
  | _ => throw s!"bad comparison {s}"

partial def psExprOf (j : Json) : Except String PSel.Expr := do
  match j with
  | .arr #[.str "c", ms, .str c, n] => pure (.cond (← natList ms) (← cmpOf c) (← n.getNat?))
  | .arr #[.str "not", x] => pure (.not (← psExprOf x))
  | .arr #[.str o, .arr xs] =>
    let op ← match o with
      | "and" => pure PSel.BOp.and | "or" => pure PSel.BOp.or | "xor" => pure PSel.BOp.xor
      | _ => throw s!"bad operator {o}"
    pure (.nary op (PSel.Args.ofList (← xs.toList.mapM psExprOf)))
  | _ => throw "bad post-selection tree"

def handlePs (j : Json) : Except String Json := do
  let x ← optOf j "expr" psExprOf
  let m ← natOf j "m"
  let size ← natOf j "size"
  let hs ← (← arrOf j "heralds").toList.mapM fun h => do
    match h with
    | .arr #[a, b] => pure ((← a.getNat?), (← b.getNat?))
    | _ => throw "bad herald"
  let states ← (← arrOf j "states").toList.mapM natList
  let p : Exp := { m := m, size := size, heralds := hs, input := none, post := none, noise := none, filter := none,
                   params := [], circ := ⟨0, []⟩, cparams := [] }
  if ¬ p.WF then throw "precondition"
  if states.any (fun s => s.length != size) then throw "precondition"
  let σ := relabelOf p
  let y := PSel.convertPost p x
  let sym : Sym := ⟨0, normPerm σ⟩
  let d := sym.denote (fun _ => x)
  let ts := states.map (PSel.relabelState σ)
  pure (Json.mkObj [("relabel", toJson σ),
    ("conds", match y with | some e => toJson e.conds | none => .null),
    ("tstates", toJson ts),
    ("local", toJson (states.map (PSel.evalTop x))),
    ("remote", toJson (ts.map (PSel.evalTop y))),
    ("denote", toJson (ts.map (PSel.evalTop d)))])

/-- part "est": the shot / sample estimators (`Model/C16Est.lean`)
`{"part":"est","m":…,"size":…,"heralds":[[mode,n]…],"input":[…]|null,"filter":i|null,"nsamples":i,"nshots":i}` -/
def estJson : Res Est → Json
  | .error e => Json.mkObj [("exc", .str e.name)]
  | .ok .noneVal => Json.mkObj [("none", .bool true)]
  | .ok (.exact k) => Json.mkObj [("exact", toJson k)]
  | .ok (.simulated k) => Json.mkObj [("simulated", toJson k)]

def handleEst (j : Json) : Except String Json := do
  let m ← natOf j "m"
  let size ← natOf j "size"
  let hs ← (← arrOf j "heralds").toList.mapM fun h => do
    match h with
    | .arr #[a, b] => pure ((← a.getNat?), (← b.getNat?))
    | _ => throw "bad herald"
  let input ← optOf j "input" natList
  let filter ← optOf j "filter" (fun x => x.getInt?)
  let nsamples ← intOf j "nsamples"
  let nshots ← intOf j "nshots"
  let e : Exp := { m := m, size := size, heralds := hs, input := input, post := none, noise := none,
                   filter := filter, params := [], circ := ⟨0, []⟩, cparams := [] }
  match input with
  | some s => if s.length != size then throw "precondition"
  | none => pure ()
  let g : Json := match interest e with
    | .error err => Json.mkObj [("exc", .str err.name)]
    | .ok .zero => .str "zero"
    | .ok .one => .str "one"
    | .ok (.simulate k) => Json.mkObj [("simulate", toJson k)]
  pure (Json.mkObj [("interest", g), ("required", estJson (requiredShots e nsamples)),
    ("expected", estJson (expectedSamples e nshots))])

def handleAll (j : Json) : Json :=
  match j.getObjVal? "part" with
  | .ok (.str "ps") => match handlePs j with | .ok v => v | .error e => errJson e
  | .ok (.str "est") => match handleEst j with | .ok v => v | .error e => errJson e
  | .ok _ => errJson "unknown part"
  | .error _ => handle j

def main : IO Unit := run handleAll
