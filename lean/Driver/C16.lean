import PercevalModel.Proto
import PercevalModel.Model.C16

/-!
  Line protocol for C16.  One request = one session:
  `{"pf": {"max_modes":n|null, "min_modes":…, "max_photons":…, "min_photons":…, "commands":[…]},
    "ops": [ {"op": …}, … ]}`  (an `execute` op carries `"net": "ok" | "lost" | "down"`: what the network does
  to the one request `create_job` emits)
  Reply: `{"outs": [ {"err": cls} | {"done": true} | {"payload": [[k, v]…]} | {"sent": {…}}
                     | {"err": "TransportError", "received": {…}} … ],
           "states": [ digest of the remote processor after each op | null ],
           "log": number of create_job calls}`.
  A request that cannot be parsed is answered `{"err": …}`.
-/

open Lean PM.Proto PM.C16

def optOf (j : Json) (k : String) (f : Json → Except String α) : Except String (Option α) := do
  match j.getObjVal? k with
  | .ok v => if v.isNull then pure none else pure (some (← f v))
  | .error _ => throw s!"missing field {k}"

def pvOfJson (j : Json) : Except String PV :=
  match j with
  | .null => pure .none
  | .str s => pure (.str s)
  | .num _ => do pure (.int (← j.getInt?))
  | _ => throw "bad scalar"

def natListOf (j : Json) : Except String (List Nat) := natList j

def pairsOf (j : Json) (f : Json → Except String α) : Except String (List (String × α)) := do
  (← j.getArr?).toList.mapM fun p => do
    match p with
    | .arr #[k, v] => pure (← k.getStr?, ← f v)
    | _ => throw "bad pair"

def heraldsOf (j : Json) : Except String (List (Nat × Nat)) := do
  (← j.getArr?).toList.mapM fun p => do
    match p with
    | .arr #[k, v] => pure (← k.getNat?, ← v.getNat?)
    | _ => throw "bad herald"

def strListOf (j : Json) : Except String (List String) := do
  (← j.getArr?).toList.mapM (·.getStr?)

def platformOf (j : Json) : Except String Platform := do
  pure { maxModes := ← optOf j "max_modes" (·.getNat?), minModes := ← optOf j "min_modes" (·.getNat?),
         maxPhotons := ← optOf j "max_photons" (·.getNat?), minPhotons := ← optOf j "min_photons" (·.getNat?),
         commands := ← strListOf (← j.getObjVal? "commands") }

def expOf (j : Json) : Except String Exp := do
  pure { m := ← natOf j "m", size := ← natOf j "size", heralds := ← heraldsOf (← j.getObjVal? "heralds"),
         input := ← optOf j "input" natListOf, post := (← optOf j "post" (·.getNat?)).map (⟨·, []⟩),
         noise := ← optOf j "noise" (·.getNat?), filter := ← optOf j "filter" (·.getInt?),
         params := [], circ := ⟨← natOf j "circ", []⟩, cparams := ← strListOf (← j.getObjVal? "cparams") }

def ivOf (j : Json) : Except String IV := do
  if let .ok d := j.getObjVal? "cparams" then return .cparams (← pairsOf d pvOfJson)
  if let .ok s := j.getObjVal? "state" then return .state (← natListOf s)
  if let .ok i := j.getObjVal? "int" then return .int (← i.getInt?)
  if let .ok n := j.getObjVal? "noise" then return .noise (← n.getNat?)
  if let .ok _ := j.getObjVal? "other" then return .other
  throw "bad iteration value"

def methodOf (s : String) : Except String Method :=
  if s = "probs" then pure .probs
  else if s = "sample_count" then pure .sample_count
  else if s = "samples" then pure .samples
  else throw s!"unknown method {s}"

def netOf (s : String) : Except String Net :=
  if s = "ok" then pure .ok
  else if s = "lost" then pure .lost
  else if s = "down" then pure .down
  else throw s!"unknown network behaviour {s}"

def opOf (j : Json) : Except String Op := do
  let op ← strOf j "op"
  if op = "new_remote" then
    return .newRemote (← boolOf j "via_set") (← natOf j "m") (← natOf j "circ")
      (← strListOf (← j.getObjVal? "cparams")) (← optOf j "noise" (·.getNat?))
  if op = "convert" then return .convert (← boolOf j "fixed") (← expOf (← j.getObjVal? "p"))
  if op = "add_herald" then return .addHerald (← natOf j "mode") (← natOf j "expected")
  if op = "with_input" then return .withInput (← natListOf (← j.getObjVal? "s"))
  if op = "filter" then return .setFilter (← optOf j "n" (·.getInt?))
  if op = "post" then return .setPost (← optOf j "p" (·.getNat?))
  if op = "noise" then return .setNoise (← optOf j "n" (·.getNat?))
  if op = "param" then return .setParam (← strOf j "k") (← pvOfJson (← j.getObjVal? "v"))
  if op = "clear_params" then return .clearParams
  if op = "set_circuit" then
    return .setCircuit (← boolOf j "checked") (← natOf j "size") (← natOf j "circ")
      (← strListOf (← j.getObjVal? "cparams"))
  if op = "retune" then return .retune (← natOf j "circ")
  if op = "add_comp" then return .addComponent (← natOf j "circ") (← strListOf (← j.getObjVal? "cparams"))
  if op = "prepare" then
    return .prepare (← strOf j "cmd") (← boolOf j "circuitless") (← boolOf j "inputless")
      ((← pairsOf (← j.getObjVal? "kw") pvOfJson).map fun kv => (kv.1, V.pv kv.2))
  if op = "sampler" then return .newSampler (← pvOfJson (← j.getObjVal? "ms"))
  if op = "add_iters" then
    return .addIterations (← (← arrOf j "its").toList.mapM fun it => pairsOf it ivOf)
  if op = "clear_iters" then return .clearIterations
  if op = "job" then return .createJob (← methodOf (← strOf j "method"))
  if op = "execute" then
    return .execute (← natOf j "job") (← (← arrOf j "args").toList.mapM pvOfJson)
      (← pairsOf (← j.getObjVal? "kw") pvOfJson) (← netOf (← strOf j "net"))
  throw s!"unknown op {op}"

/-! output -/

def pvJson : PV → Json
  | .none => .null
  | .int i => toJson i
  | .str s => .str s

def natsJson (l : List Nat) : Json := .arr (l.map (toJson ·)).toArray
def pairsJson (d : List (String × α)) (f : α → Json) : Json :=
  .arr (d.map fun kv => Json.arr #[.str kv.1, f kv.2]).toArray
def heraldsJson (h : List (Nat × Nat)) : Json :=
  .arr (h.map fun kv => Json.arr #[toJson kv.1, toJson kv.2]).toArray
def symJson (s : Sym) : Json := Json.mkObj [("id", toJson s.id), ("perm", natsJson s.perm)]
def optJson (o : Option α) (f : α → Json) : Json := match o with | some x => f x | none => .null

def vJson : V → Json
  | .pv p => Json.mkObj [("pv", pvJson p)]
  | .circ c n => Json.mkObj [("circ", Json.mkObj [("id", toJson c.id), ("perm", natsJson c.perm), ("size", toJson n)])]
  | .state s => Json.mkObj [("state", natsJson s)]
  | .heralds h => Json.mkObj [("heralds", heraldsJson h)]
  | .post p => Json.mkObj [("post", symJson p)]
  | .noise n => Json.mkObj [("noise", toJson n)]
  | .params d => Json.mkObj [("params", pairsJson d pvJson)]
  | .ctx rm mp => Json.mkObj [("ctx", Json.mkObj [("result_mapping", optJson rm Json.str),
      ("mapping", optJson mp (pairsJson · pvJson))])]
  | .iter n => Json.mkObj [("iter", toJson n)]

def ivJson : IV → Json
  | .cparams d => Json.mkObj [("cparams", pairsJson d pvJson)]
  | .state s => Json.mkObj [("state", natsJson s)]
  | .int i => Json.mkObj [("int", toJson i)]
  | .noise n => Json.mkObj [("noise", toJson n)]
  | .other => Json.mkObj [("other", true)]

def itersJson (its : List (Dict IV)) : Json := .arr (its.map (pairsJson · ivJson)).toArray

def sentJson (s : Sent) : Json :=
  Json.mkObj [("job_name", .str s.jobName), ("payload", pairsJson s.payload vJson), ("iterator", itersJson s.iterator)]

def outJson : Out → Json
  | .err e => Json.mkObj [("err", .str e.name)]
  | .done => Json.mkObj [("done", true)]
  | .payload pl => Json.mkObj [("payload", pairsJson pl vJson)]
  | .sent s => Json.mkObj [("sent", sentJson s)]
  | .lost s => Json.mkObj [("err", .str Err.transport.name), ("received", sentJson s)]

def expJson (e : Exp) : Json :=
  Json.mkObj [("m", toJson e.m), ("size", toJson e.size), ("heralds", heraldsJson e.heralds),
    ("input", optJson e.input natsJson), ("post", optJson e.post symJson), ("noise", optJson e.noise (toJson ·)),
    ("filter", optJson e.filter (toJson ·)), ("params", pairsJson e.params pvJson), ("circ", symJson e.circ),
    ("wf", decide e.WF)]

def handle (j : Json) : Json :=
  let r : Except String Json := do
    let pf ← platformOf (← j.getObjVal? "pf")
    let ops ← (← arrOf j "ops").toList.mapM opOf
    let mut w := World.init pf
    let mut outs : Array Json := #[]
    let mut states : Array Json := #[]
    for op in ops do
      let (w', o) := step w op
      w := w'
      outs := outs.push (outJson o)
      states := states.push (optJson w.exp expJson)
    pure (Json.mkObj [("outs", .arr outs), ("states", .arr states), ("log", toJson w.log.length),
      ("iterator", optJson w.sampler (fun s => itersJson s.iterator))])
  match r with
  | .ok v => v
  | .error e => errJson e

def main : IO Unit := run handle
