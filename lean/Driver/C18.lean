import PercevalModel.Proto
import PercevalModel.Model.C18
import PercevalModel.Model.C18Ext
import PercevalModel.Model.C18Race

/-!
  Line-protocol driver of the C18 model.

  {"op":"trace","fixed":b,"cfg":CFG,"word":[EV…]}                 → {"outs":[OUT…],"final":STATE}
  {"op":"ext","fixed":b,"cfg":CFG,"word":[EV…],"letters":[EV…]}    → {"en":[bool…],"phase":…}   (enabled after the word)
  {"op":"preset","preset":PRESET,"cb":b}                            → {"cfg":CFG}   (`Preset.cfg`, Model/C18Ext)
  {"op":"coop","fixed":b,"cfg":CFG,"prog":PROG,"word":[CEV…]}      → {"outs":[OUT…],"final":STATE + todo/seen}

  EV is an event of the EXTENDED machine (`xstep`): the events of the job machine, {"e":"sync",…,"via":"call"}
  (`Job.__call__`), {"e":"prog","p":n,"u":REPLY} (progress report whose user callback returns REPLY; the answer
  carries "reply" and "verdict"), {"e":"setname","v":string|null}, {"e":"getname"}.
  REPLY = "none" | "other" | {"dict": null|true|false};   PRESET = {"k":"probsNative"} | {"k":"sampleViaProbs","shots":nat|null}
  | {"k":"probsViaSamples","count":n} | {"k":"samplesNative","conv":b};   PROG = {"reports":[n…],"result":RET,"partial":RET,
  "policy":"ignore"|"raise"|"stop"};   CEV = {"e":"tick","u":REPLY} | a caller event

  {"op":"race","fixed":b,"cfg":CFG,"word":[REV…]}                  → {"outs":[{"acc":…,"o":OUT|null,"pc":ACC|null,"pw":ACC|null}|{"o":"disabled"}…],"final":…}
      (`rstep`, Model/C18Race: one access to the shared memory per step; "pc"/"pw" = the access the caller / the worker
       performs NEXT after this step, null when it has none);  REV = {"e":"exec",…call…} | {"e":"begin","a":"status"|"cancel"|"get"}
       | {"e":"c"} | {"e":"w"} | {"e":"task","t":{"e":"prog","p":n}|{"e":"ret","r":RET}|{"e":"raise","cls":n,"msg":n}}

  DICT = [[key, nat|null], …] with distinct keys;  VAL = nat | {"m":VAL,"kw":DICT}
  RET  = {"t":"none"} | {"t":"plain","n":n} | {"t":"dict","v":VAL} | {"t":"dlist","l":[[DICT,VAL],…]}
-/

open Lean PM PM.Proto PM.C18

def pyValOf (j : Json) : Except String PyVal :=
  if j.isNull then .ok none else do return some (← j.getNat?)

def dictOf (j : Json) : Except String Dict := do
  let d ← (← j.getArr?).toList.mapM fun e => do
    match e with
    | .arr #[k, v] => return ((← k.getNat?), (← pyValOf v))
    | _ => throw "bad dict entry"
  if (keys d).Nodup then return d else throw "duplicate key"

partial def valOf (j : Json) : Except String Val := do
  match j.getNat? with
  | .ok n => return .nat n
  | .error _ => return .mapped (← valOf (← j.getObjVal? "m")) (← dictOf (← j.getObjVal? "kw"))

def retOf (j : Json) : Except String Ret := do
  match (← strOf j "t") with
  | "none" => return .none
  | "plain" => return .plain (← natOf j "n")
  | "dict" => return .dict (← valOf (← j.getObjVal? "v"))
  | "dlist" =>
    let l ← (← arrOf j "l").toList.mapM fun e => do
      match e with
      | .arr #[d, v] => return ((← dictOf d), (← valOf v))
      | _ => throw "bad results_list entry"
    return .dlist l
  | t => throw s!"bad ret {t}"

def callOf (j : Json) : Except String Call := do
  let args ← (← arrOf j "args").toList.mapM pyValOf
  return { args := args, kwargs := (← dictOf (← j.getObjVal? "kw")), cbKw := (← boolOf j "cbkw") }

def evOf (j : Json) : Except String Ev := do
  match (← strOf j "e") with
  | "sync" => return .execSync (← callOf j)
  | "async" => return .execAsync (← callOf j)
  | "status" => return .statusQuery
  | "cancel" => return .cancel
  | "get" => return .getResults
  | "start" => return .tStart
  | "prog" => return .tProgress (← natOf j "p")
  | "ret" => return .tReturn (← retOf (← j.getObjVal? "r"))
  | "raise" => return .tRaise (← natOf j "cls") (← natOf j "msg")
  | "propagate" => return .tPropagate
  | e => throw s!"bad event {e}"

def replyOf (j : Json) : Except String Reply := do
  match j with
  | .str "none" => return .none
  | .str "other" => return .other
  | _ =>
    let d ← j.getObjVal? "dict"
    if d.isNull then return .dict none else return .dict (some (← d.getBool?))

def xevOf (j : Json) : Except String XEv := do
  match (← strOf j "e") with
  | "setname" =>
    let v ← j.getObjVal? "v"
    if v.isNull then return .setName none else return .setName (some (← v.getStr?))
  | "getname" => return .getName
  | "sync" =>
    match j.getObjVal? "via" with
    | .ok (.str "call") => return .call (← callOf j)
    | .ok (.str "execute_sync") => return .job (← evOf j)
    | .ok _ => throw "bad via"
    | .error _ => return .job (← evOf j)
  | "prog" =>
    match j.getObjVal? "u" with
    | .ok u => return .prog (← natOf j "p") (← replyOf u)
    | .error _ => return .job (← evOf j)
  | _ => return .job (← evOf j)

def cevOf (j : Json) : Except String CEv := do
  match (← strOf j "e") with
  | "tick" => return .tick (← replyOf (← j.getObjVal? "u"))
  | _ => return .caller (← evOf j)

def policyOf : String → Except String Policy
  | "ignore" => .ok .ignore | "raise" => .ok .raise | "stop" => .ok .stop
  | p => .error s!"bad policy {p}"

def progOf (j : Json) : Except String Prog := do
  return { reports := (← natList (← j.getObjVal? "reports")), result := (← retOf (← j.getObjVal? "result")),
           partialResult := (← retOf (← j.getObjVal? "partial")), policy := (← policyOf (← strOf j "policy")) }

def presetOf (j : Json) : Except String Preset := do
  match (← strOf j "k") with
  | "probsNative" => return .probsNative
  | "sampleViaProbs" => return .sampleViaProbs (← pyValOf (← j.getObjVal? "shots"))
  | "probsViaSamples" => return .probsViaSamples (← natOf j "count")
  | "samplesNative" => return .samplesNative (← boolOf j "conv")
  | k => throw s!"bad preset {k}"

def cfgOf (j : Json) : Except String Cfg := do
  let names ← natList (← j.getObjVal? "names")
  return { paramNames := names, command0 := (← dictOf (← j.getObjVal? "cmd")),
           mapping0 := (← dictOf (← j.getObjVal? "mapping")), hasMap := (← boolOf j "map"),
           cb0 := (← boolOf j "cb") }

def pyValJ : PyVal → Json
  | none => .null
  | some n => toJson n

def dictJ (d : Dict) : Json := .arr (d.map fun e => Json.arr #[toJson e.1, pyValJ e.2]).toArray

def valJ : Val → Json
  | .nat n => toJson n
  | .mapped v kw => Json.mkObj [("m", valJ v), ("kw", dictJ kw)]

def retJ : Ret → Json
  | .none => Json.mkObj [("t", "none")]
  | .plain n => Json.mkObj [("t", "plain"), ("n", toJson n)]
  | .dict v => Json.mkObj [("t", "dict"), ("v", valJ v)]
  | .dlist l => Json.mkObj [("t", "dlist"),
      ("l", .arr (l.map fun e => Json.arr #[dictJ e.1, valJ e.2]).toArray)]

/-- the status as the string the model says a caller reads (`St.name`, Model/C18Ext) -/
def stJ (s : St) : Json := s.name

def excJ : Exc → Json
  | .assertion => "assertion" | .twice => "twice" | .unused => "unused" | .index => "index"
  | .attribute => "attribute" | .stillRunning => "stillRunning" | .failed => "failed"
  | .notAvailable => "notAvailable"

def msgJ : Msg → Json
  | .none => .null
  | .canceled => "canceled"
  | .task c t => Json.mkObj [("task", Json.arr #[toJson c, toJson t])]
  | .caller e => Json.mkObj [("caller", excJ e)]

def resJ : Res → Json
  | .val r => Json.mkObj [("val", retJ r)]
  | .err e => Json.mkObj [("err", excJ e)]

def outJ : Out → Json
  | .disabled => Json.mkObj [("o", "disabled")]
  | .accepted => Json.mkObj [("o", "accepted")]
  | .exc e => Json.mkObj [("o", "exc"), ("e", excJ e)]
  | .status s m p => Json.mkObj [("o", "status"), ("s", stJ s), ("msg", msgJ m), ("p", toJson p)]
  | .done => Json.mkObj [("o", "done")]
  | .results r => Json.mkObj [("o", "results"), ("r", retJ r)]
  | .started a => Json.mkObj [("o", "started"), ("args", dictJ a)]
  | .progressed cb p r => Json.mkObj [("o", "progressed"), ("cb", match cb with | some i => toJson i | none => .null),
      ("p", toJson p), ("relay", toJson r)]
  | .finished s => Json.mkObj [("o", "finished"), ("sync", match s with | some r => resJ r | none => .null)]

def replyJ : Reply → Json
  | .none => "none"
  | .other => "other"
  | .dict f => Json.mkObj [("dict", match f with | none => .null | some b => toJson b)]

def xoutJ : XOut → Json
  | .job o => outJ o
  | .reply o r v => (outJ o).mergeObj (Json.mkObj [("reply", replyJ r),
      ("verdict", match v with | none => "crash" | some b => toJson b)])
  | .nameSet => Json.mkObj [("o", "nameset")]
  | .typeError => Json.mkObj [("o", "exc"), ("e", "type")]
  | .name n => Json.mkObj [("o", "name"), ("s", n)]
  | .disabled => Json.mkObj [("o", "disabled")]

def taskEvJ : Ev → Json
  | .tStart => Json.mkObj [("e", "start")]
  | .tProgress p => Json.mkObj [("e", "prog"), ("p", toJson p)]
  | .tReturn r => Json.mkObj [("e", "ret"), ("r", retJ r)]
  | .tRaise c m => Json.mkObj [("e", "raise"), ("cls", toJson c), ("msg", toJson m)]
  | _ => Json.null

def cfgJ (c : Cfg) : Json :=
  Json.mkObj [("names", toJson c.paramNames), ("cmd", dictJ c.command0), ("mapping", dictJ c.mapping0),
    ("map", toJson c.hasMap), ("cb", toJson c.cb0)]

def verdictJ : Verdict → Json
  | .go => "go" | .stop => "stop" | .crash => "crash"

def phaseJ : Phase → Json
  | .idle => "idle" | .ready => "ready" | .active => "active" | .done => "done"

def stateJ (s : State) : Json :=
  Json.mkObj [("status", stJ s.status), ("msg", msgJ s.msg), ("p", toJson s.progress),
    ("fnCalls", toJson s.fnCalls), ("cancelReq", toJson s.cancelReq), ("phase", phaseJ s.phase),
    ("cbOpen", toJson s.cbOpen), ("results", retJ s.results), ("mapPending", toJson s.mapPending),
    ("cbLog", .arr (s.cbLog.map fun e => Json.arr #[toJson e.1, toJson e.2]).toArray)]

def revOf (j : Json) : Except String REv := do
  match (← strOf j "e") with
  | "exec" => return .exec (← callOf j)
  | "begin" =>
    match (← strOf j "a") with
    | "status" => return .begin .status
    | "cancel" => return .begin .cancel
    | "get" => return .begin .get
    | a => throw s!"bad action {a}"
  | "c" => return .c
  | "w" => return .w
  | "task" =>
    let t ← j.getObjVal? "t"
    match (← strOf t "e") with
    | "prog" => return .task (.prog (← natOf t "p"))
    | "ret" => return .task (.ret (← retOf (← t.getObjVal? "r")))
    | "raise" => return .task (.raise (← natOf t "cls") (← natOf t "msg"))
    | e => throw s!"bad task step {e}"
  | e => throw s!"bad race event {e}"

def accJ : Acc → Json
  | .none => "none" | .rSt => "R_status" | .wSt => "W_status" | .rMsg => "R_stop_message" | .wMsg => "W_stop_message"
  | .rProg => "R_running_progress" | .wProg => "W_running_progress" | .rCancel => "R_cancel_requested"
  | .wCancel => "W_cancel_requested" | .wResults => "W_results" | .rAlive => "R_alive" | .exit => "exit"

def nextAccJ : ROut → Json
  | .step a _ => accJ a
  | .disabled => Json.null

def routJ (fixed : Bool) (s : RState) : ROut → Json
  | .disabled => Json.mkObj [("o", "disabled")]
  | .step a o => Json.mkObj [("acc", accJ a), ("o", match o with | some o => outJ o | none => Json.null),
      ("pc", nextAccJ (callerStep fixed s).2), ("pw", nextAccJ (workerStep s).2)]

def wpcJ : WPc → Json
  | .entry => "entry" | .inTask => "inTask" | .prog1 _ => "prog1" | .prog1b _ => "prog1b" | .prog2 _ => "prog2"
  | .prog3 _ => "prog3" | .ret1 _ => "ret1" | .ret2 _ => "ret2" | .stop1 _ _ => "stop1" | .stop2 _ => "stop2"
  | .stop3 _ _ => "stop3" | .exc1 _ _ => "exc1" | .exc2 _ _ => "exc2" | .exiting _ => "exiting" | .dead _ => "dead"

def rstateJ (s : RState) : Json :=
  Json.mkObj [("status", stJ s.st), ("msg", msgJ s.msg), ("p", toJson s.prog), ("cancelReq", toJson s.cancelReq),
    ("results", retJ s.results), ("mapPending", toJson s.mapPending), ("alive", toJson s.alive),
    ("started", toJson s.started), ("fnCalls", toJson s.fnCalls), ("wpc", wpcJ s.wpc),
    ("idle", toJson (decide (s.cpc = CPc.idle)))]

def handleE (j : Json) : Except String Json := do
  let op ← strOf j "op"
  if op == "preset" then
    let p ← presetOf (← j.getObjVal? "preset")
    return Json.mkObj [("cfg", cfgJ (p.cfg (← boolOf j "cb")))]
  let fixed ← boolOf j "fixed"
  let cfg ← cfgOf (← j.getObjVal? "cfg")
  if op == "coop" then
    let pr ← progOf (← j.getObjVal? "prog")
    let word ← (← arrOf j "word").toList.mapM cevOf
    let r := SM.run (cstep fixed cfg pr) (cinit cfg pr) word
    -- which step the cooperative task takes at each tick (null: a caller event / nothing to do)
    let rec evs (c : CState) : List CEv → List Json
      | [] => []
      | e :: w =>
        (match e with
         | .tick _ => (match nextTaskEv pr c with | some t => taskEvJ t | none => Json.null)
         | .caller _ => Json.null) :: evs (cstep fixed cfg pr c e).1 w
    return Json.mkObj [("outs", .arr (r.2.map outJ).toArray), ("evs", .arr (evs (cinit cfg pr) word).toArray),
      ("final", (stateJ r.1.job).mergeObj (Json.mkObj [("todo", toJson r.1.todo), ("seen", verdictJ r.1.seen)]))]
  if op == "race" then
    let word ← (← arrOf j "word").toList.mapM revOf
    let rec go (s : RState) : List REv → List Json × RState
      | [] => ([], s)
      | e :: w =>
        let r := rstep fixed cfg s e
        let rest := go r.1 w
        (routJ fixed r.1 r.2 :: rest.1, rest.2)
    let r := go (rinit cfg) word
    return Json.mkObj [("outs", .arr r.1.toArray), ("final", rstateJ r.2)]
  let word ← (← arrOf j "word").toList.mapM xevOf
  match op with
  | "trace" =>
    let r := SM.run (xstep fixed cfg) (xinit cfg) word
    return Json.mkObj [("outs", .arr (r.2.map xoutJ).toArray),
      ("final", (stateJ r.1.job).mergeObj (Json.mkObj [("name", r.1.name)]))]
  | "ext" =>
    let letters ← (← arrOf j "letters").toList.mapM xevOf
    let s := SM.exec (xstep fixed cfg) (xinit cfg) word
    let en := letters.map fun l =>
      decide ((xstep fixed cfg s l).2 ≠ XOut.disabled ∧ (xstep fixed cfg s l).2 ≠ XOut.job Out.disabled)
    return Json.mkObj [("en", toJson en), ("phase", phaseJ s.job.phase)]
  | _ => throw s!"bad op {op}"

def handle (j : Json) : Json :=
  match handleE j with
  | .ok r => r
  | .error e => errJson e

def main : IO Unit := run handle
