import PercevalModel.Proto
import PercevalModel.Model.C18

/-!
  Line-protocol driver of the C18 model.

  {"op":"trace","fixed":b,"cfg":CFG,"word":[EV…]}                 → {"outs":[OUT…],"final":STATE}
  {"op":"ext","fixed":b,"cfg":CFG,"word":[EV…],"letters":[EV…]}    → {"en":[bool…],"phase":…}   (enabled after the word)

  DICT = [[key, nat|null], …] with distinct keys;  VAL = nat | {"m":VAL,"kw":DICT}
  RET  = {"t":"none"} | {"t":"plain","n":n} | {"t":"dict","v":VAL} | {"t":"dlist","l":[[DICT,VAL],…]}
-/

open Lean PM PM.Proto PM.C18

def pyValOf (j : Json) : Except String PyVal :=
  if j.isNull then .ok none else do return some (← j.getNat?)

def dictOf (j : Json) : Except String Dict := do
  let d ← (← j.getArr?).toList.mapM fun e => do
    match e with
    | .arr #[k, v] => return ((← k.getNat?), (← pyValOf v))
    | _ => throw "bad dict entry"
  if (keys d).Nodup then return d else throw "duplicate key"

partial def valOf (j : Json) : Except String Val := do
  match j.getNat? with
  | .ok n => return .nat n
  | .error _ => return .mapped (← valOf (← j.getObjVal? "m")) (← dictOf (← j.getObjVal? "kw"))

def retOf (j : Json) : Except String Ret := do
  match (← strOf j "t") with
  | "none" => return .none
  | "plain" => return .plain (← natOf j "n")
  | "dict" => return .dict (← valOf (← j.getObjVal? "v"))
  | "dlist" =>
    let l ← (← arrOf j "l").toList.mapM fun e => do
      match e with
      | .arr #[d, v] => return ((← dictOf d), (← valOf v))
      | _ => throw "bad results_list entry"
    return .dlist l
  | t => throw s!"bad ret {t}"

def callOf (j : Json) : Except String Call := do
  let args ← (← arrOf j "args").toList.mapM pyValOf
  return { args := args, kwargs := (← dictOf (← j.getObjVal? "kw")), cbKw := (← boolOf j "cbkw") }

def evOf (j : Json) : Except String Ev := do
  match (← strOf j "e") with
  | "sync" => return .execSync (← callOf j)
  | "async" => return .execAsync (← callOf j)
  | "status" => return .statusQuery
  | "cancel" => return .cancel
  | "get" => return .getResults
  | "start" => return .tStart
  | "prog" => return .tProgress (← natOf j "p")
  | "ret" => return .tReturn (← retOf (← j.getObjVal? "r"))
  | "raise" => return .tRaise (← natOf j "cls") (← natOf j "msg")
  | "propagate" => return .tPropagate
  | e => throw s!"bad event {e}"

def cfgOf (j : Json) : Except String Cfg := do
  let names ← natList (← j.getObjVal? "names")
  return { paramNames := names, command0 := (← dictOf (← j.getObjVal? "cmd")),
           mapping0 := (← dictOf (← j.getObjVal? "mapping")), hasMap := (← boolOf j "map"),
           cb0 := (← boolOf j "cb") }

def pyValJ : PyVal → Json
  | none => .null
  | some n => toJson n

def dictJ (d : Dict) : Json := .arr (d.map fun e => Json.arr #[toJson e.1, pyValJ e.2]).toArray

def valJ : Val → Json
  | .nat n => toJson n
  | .mapped v kw => Json.mkObj [("m", valJ v), ("kw", dictJ kw)]

def retJ : Ret → Json
  | .none => Json.mkObj [("t", "none")]
  | .plain n => Json.mkObj [("t", "plain"), ("n", toJson n)]
  | .dict v => Json.mkObj [("t", "dict"), ("v", valJ v)]
  | .dlist l => Json.mkObj [("t", "dlist"),
      ("l", .arr (l.map fun e => Json.arr #[dictJ e.1, valJ e.2]).toArray)]

def stJ : St → Json
  | .waiting => "WAITING" | .running => "RUNNING" | .success => "SUCCESS"
  | .error => "ERROR" | .canceled => "CANCELED"

def excJ : Exc → Json
  | .assertion => "assertion" | .twice => "twice" | .unused => "unused" | .index => "index"
  | .attribute => "attribute" | .stillRunning => "stillRunning" | .failed => "failed"
  | .notAvailable => "notAvailable"

def msgJ : Msg → Json
  | .none => .null
  | .canceled => "canceled"
  | .task c t => Json.mkObj [("task", Json.arr #[toJson c, toJson t])]
  | .caller e => Json.mkObj [("caller", excJ e)]

def resJ : Res → Json
  | .val r => Json.mkObj [("val", retJ r)]
  | .err e => Json.mkObj [("err", excJ e)]

def outJ : Out → Json
  | .disabled => Json.mkObj [("o", "disabled")]
  | .accepted => Json.mkObj [("o", "accepted")]
  | .exc e => Json.mkObj [("o", "exc"), ("e", excJ e)]
  | .status s m p => Json.mkObj [("o", "status"), ("s", stJ s), ("msg", msgJ m), ("p", toJson p)]
  | .done => Json.mkObj [("o", "done")]
  | .results r => Json.mkObj [("o", "results"), ("r", retJ r)]
  | .started a => Json.mkObj [("o", "started"), ("args", dictJ a)]
  | .progressed cb p r => Json.mkObj [("o", "progressed"), ("cb", match cb with | some i => toJson i | none => .null),
      ("p", toJson p), ("relay", toJson r)]
  | .finished s => Json.mkObj [("o", "finished"), ("sync", match s with | some r => resJ r | none => .null)]

def phaseJ : Phase → Json
  | .idle => "idle" | .ready => "ready" | .active => "active" | .done => "done"

def stateJ (s : State) : Json :=
  Json.mkObj [("status", stJ s.status), ("msg", msgJ s.msg), ("p", toJson s.progress),
    ("fnCalls", toJson s.fnCalls), ("cancelReq", toJson s.cancelReq), ("phase", phaseJ s.phase),
    ("cbOpen", toJson s.cbOpen), ("results", retJ s.results), ("mapPending", toJson s.mapPending),
    ("cbLog", .arr (s.cbLog.map fun e => Json.arr #[toJson e.1, toJson e.2]).toArray)]

def handleE (j : Json) : Except String Json := do
  let op ← strOf j "op"
  let fixed ← boolOf j "fixed"
  let cfg ← cfgOf (← j.getObjVal? "cfg")
  let word ← (← arrOf j "word").toList.mapM evOf
  match op with
  | "trace" =>
    let r := SM.run (step fixed cfg) (init cfg) word
    return Json.mkObj [("outs", .arr (r.2.map outJ).toArray), ("final", stateJ r.1)]
  | "ext" =>
    let letters ← (← arrOf j "letters").toList.mapM evOf
    let s := SM.exec (step fixed cfg) (init cfg) word
    let en := letters.map fun l => decide ((step fixed cfg s l).2 ≠ Out.disabled)
    return Json.mkObj [("en", toJson en), ("phase", phaseJ s.phase)]
  | _ => throw s!"bad op {op}"

def handle (j : Json) : Json :=
  match handleE j with
  | .ok r => r
  | .error e => errJson e

def main : IO Unit := run handle
