import PercevalModel.Proto
import PercevalModel.Model.C17
import PercevalModel.Model.C17X
import PercevalModel.Model.C17W
import PercevalModel.Model.C17R
import PercevalModel.Model.C17Y

/-
  C17 driver.  Two requests:
    {"fixed": b, "ops": [op, …]}                                  -> {"outs": [s₁, …]}   one history
    {"fixed": b, "alphabet": [op, …], "prefix": [i, …], "depth": d} -> {"outs": […]}     all
        non-empty extensions (length ≤ d) of the history `prefix` (indices into the alphabet), in DFS
        pre-order, each node reporting the output of its last step.
  op   = ["x", h] | ["p", view, r] | ["c", r, h] | ["r", r1, r2, h, switch] | ["g", r1, r2, rh]
  r    = ["s", "<status string>"] | ["h", code] | ["c"]           (status request)
  h    = ["ok"] | ["h", code] | ["c"]                             (create / cancel / rerun request)
  rh   = ["ok"] | ["empty"] | ["missing"] | ["h", code] | ["c"]   (results request)
    {"fixed": b, "t0": now, "name": s, "fops": [[now, fop], …]}   -> {"outs": [s₁, …]}   one history of
        the FULL machine (`Model/C17X.lean`: time fields, name, _to_dict/_from_dict/from_id, execute_sync)
  fop  = op with status answers ["s", "<status>", [progress, creation|null, start|null, duration|null]]
         | ["td"] | ["ro"] | ["rs", r] | ["n", "<name>"|null] | ["y", h, [r, …], rh, d]
    {"fixed": b, "delay": D, "syncclock": {"d": d, "now": t, "fuel": n, "rs": [r, …]}} -> {"outs": […], "end": e}
        the clocked polling loop of execute_sync on a job just sent at time t (previous refresh 0)
    {"fixed": b, "rops": [rop, …]}                                -> {"outs": [s₁, …]}   one history of the
        results machine (`Model/C17R.lean`, part R)
  rop  = op other than "g" | ["G", r1, r2, body]
  body = ["h", code] | ["c"] | ["nokey"] | ["notstr"] | ["badjson"] | ["p", payload]
  payload = null | ["num", n] | ["str", bool] | ["list", n] | ["dict", tok|null, [[tok|null, iter|null], …]|null, ctx, bool]
  iter = [[name, n], …];  ctx = ["absent"] | ["null"] | ["nomap"] | ["map", "good"|"noattr"|"nomodule", iter|null]
    {"fixed": b, "delay": D, "kops": [[now1, now2, op], …]}       -> {"outs": [s₁, …]}   one history of the
        clocked machine (`Model/C17R.lean`, part K): every operation under the throttle
    {"fixed": b, "t0": now, "name": s, "wops": [[now, wop], …]}   -> {"outs": [s₁, …]}   one history of the full
        machine with status answers given by SHAPE (`Model/C17W.lean`)
  wop  = fop | ["pw", view, rw];  rw = ["h", code] | ["c"]
         | ["sw", status|null, progress|null, has_progress_message, has_status_message, creation|null, start|null, duration|null]
  Identifiers, message tokens and result tokens are not transmitted: the step at (1-based) position k
  of a history uses k for all three (the harness' fake server does the same).
-/
open Lean PM PM.Proto PM.C17

def tag (j : Json) : Except String (String × Array Json) := do
  let a ← j.getArr?
  if h : 0 < a.size then
    return (← a[0].getStr?, a)
  else throw "empty tuple"

def argNat (a : Array Json) (i : Nat) : Except String Nat := do
  match a[i]? with
  | some v => v.getNat?
  | none => throw "missing argument"

def argStr (a : Array Json) (i : Nat) : Except String String := do
  match a[i]? with
  | some v => v.getStr?
  | none => throw "missing argument"

def arg (a : Array Json) (i : Nat) : Except String Json :=
  match a[i]? with
  | some v => pure v
  | none => throw "missing argument"

def parseResp (k : Nat) (j : Json) : Except String Resp := do
  let (t, a) ← tag j
  match t with
  | "s" => return .status (← argStr a 1) k
  | "h" => return .http (← argNat a 1)
  | "c" => return .conn
  | _ => throw s!"bad status response {t}"

def parseH (k : Nat) (j : Json) : Except String HResp := do
  let (t, a) ← tag j
  match t with
  | "ok" => return .ok k
  | "h" => return .http (← argNat a 1)
  | "c" => return .conn
  | _ => throw s!"bad handler response {t}"

def parseRH (k : Nat) (j : Json) : Except String RResp := do
  let (t, a) ← tag j
  match t with
  | "ok" => return .ok k
  | "empty" => return .empty
  | "missing" => return .missing
  | "h" => return .http (← argNat a 1)
  | "c" => return .conn
  | _ => throw s!"bad results response {t}"

def parseView (n : Nat) : Except String View :=
  match n with
  | 0 => pure .status | 1 => pure .isComplete | 2 => pure .isFailed | 3 => pure .isSuccess
  | 4 => pure .isWaiting | 5 => pure .isRunning
  | _ => throw "bad view"

/-- an operation, still waiting for its position `k` -/
def parseOp (j : Json) (k : Nat) : Except String Op := do
  let (t, a) ← tag j
  match t with
  | "x" => return .execute (← parseH k (← arg a 1))
  | "p" => return .poll (← parseView (← argNat a 1)) (← parseResp k (← arg a 2))
  | "c" => return .cancel (← parseResp k (← arg a 1)) (← parseH k (← arg a 2))
  | "r" => return .rerun (← parseResp k (← arg a 1)) (← parseResp k (← arg a 2)) (← parseH k (← arg a 3))
             (← (← arg a 4).getBool?)
  | "g" => return .getResults (← parseResp k (← arg a 1)) (← parseResp k (← arg a 2)) (← parseRH k (← arg a 3))
  | _ => throw s!"bad op {t}"

def idStr : Option Nat → String
  | some n => toString n
  | none => "N"

def msgStr : Msg → String
  | .none => "none"
  | .server m => s!"m{m}"
  | .cancelRequested => "cancel"
  | .createFailed => "create"

def excStr : Exc → String
  | .assertion => "AssertionError"
  | .http (some c) => s!"HTTPError:{c}"
  | .http none => "HTTPError:-"
  | .conn => "ConnectionError"
  | .stillRunning => "RuntimeError:running"
  | .jobFailed m => s!"RuntimeError:failed:{msgStr m}"
  | .unavailable => "RuntimeError:unavailable"
  | .notCancellable => "RuntimeError:nocancel"
  | .notRerunnable => "RuntimeError:norerun"

def resStr : Res → String
  | .ok => "ok"
  | .st s => s!"st:{s.name}"
  | .flag b => if b then "flag:1" else "flag:0"
  | .newJob n => s!"new:{n}:WAITING"
  | .results (some t) => s!"res:{t}"
  | .results none => "res:empty"
  | .raised e => s!"exc:{excStr e}"

def callStr : Call → String
  | .create => "C"
  | .status i => "S" ++ idStr i
  | .cancel i => "X" ++ idStr i
  | .rerun i => "R" ++ idStr i
  | .results i => "G" ++ idStr i

/-- what `str(job)` shows -/
def shown (j : Job) : String := if j.id.isSome then j.status.name else "not sent"

def outStr (j : Job) (o : Out) : String :=
  resStr o.res ++ "|" ++ idStr j.id ++ "|" ++ shown j ++ "|" ++ ",".intercalate (o.calls.map callStr)

def runOps (fixed : Bool) (ops : Array Json) : Except String (Array String) := do
  let mut j := init
  let mut outs : Array String := #[]
  let mut k := 1
  for oj in ops do
    let op ← parseOp oj k
    let (j', o) := step fixed j op
    outs := outs.push (outStr j' o)
    j := j'
    k := k + 1
  return outs

partial def dfs (fixed : Bool) (alpha : Array (Nat → Except String Op)) (k : Nat) (depth : Nat) (j : Job)
    (acc : Array String) : Except String (Array String) := do
  if depth = 0 then return acc
  let mut acc := acc
  for mk in alpha do
    let op ← mk k
    let (j', o) := step fixed j op
    acc := acc.push (outStr j' o)
    acc ← dfs fixed alpha (k + 1) (depth - 1) j' acc
  return acc

/-- the clocked variant: a sent job (`born 1`, previous refresh at time 0), then status reads at
the given integer times; read number i (0-based) is position i + 2 of the history -/
def runClock (fixed : Bool) (delay : Int) (reads : Array Json) : Except String (Array String) := do
  let mut t : TJob := ⟨born 1, 0⟩
  let mut outs : Array String := #[]
  let mut k := 2
  for rd in reads do
    let a ← rd.getArr?
    let now ← (← arg a 0).getInt?
    let r ← parseResp k (← arg a 1)
    let (t', e, c) := readStatusAt fixed delay t now r
    let o : Out := ⟨match e with | some e => .raised e | none => .st t'.job.status, c⟩
    outs := outs.push (outStr t'.job o)
    t := t'
    k := k + 1
  return outs

/-! ### the full machine -/

def optInt (j : Json) : Except String (Option Int) :=
  match j with
  | .null => pure none
  | v => do return some (← v.getInt?)

def parseBody (j : Json) : Except String Body := do
  let a ← j.getArr?
  return ⟨← argNat a 0, ← optInt (← arg a 1), ← optInt (← arg a 2), ← optInt (← arg a 3)⟩

def parseRespF (k : Nat) (j : Json) : Except String RespF := do
  let (t, a) ← tag j
  match t with
  | "s" => return .status (← argStr a 1) k (← parseBody (← arg a 2))
  | "h" => return .http (← argNat a 1)
  | "c" => return .conn
  | _ => throw s!"bad status response {t}"

def parseFOp (j : Json) (k : Nat) : Except String FOp := do
  let (t, a) ← tag j
  match t with
  | "x" => return .execute (← parseH k (← arg a 1))
  | "p" => return .poll (← parseView (← argNat a 1)) (← parseRespF k (← arg a 2))
  | "c" => return .cancel (← parseRespF k (← arg a 1)) (← parseH k (← arg a 2))
  | "r" => return .rerun (← parseRespF k (← arg a 1)) (← parseRespF k (← arg a 2)) (← parseH k (← arg a 3))
             (← (← arg a 4).getBool?)
  | "g" => return .getResults (← parseRespF k (← arg a 1)) (← parseRespF k (← arg a 2)) (← parseRH k (← arg a 3))
  | "td" => return .toDict
  | "ro" => return .reopen
  | "rs" => return .resume (← parseRespF k (← arg a 1))
  | "n" =>
    match ← arg a 1 with
    | .str s => return .setName (.str s)
    | .null => return .setName .other
    | _ => throw "bad name"
  | "y" =>
    let rs ← (← (← arg a 2).getArr?).toList.mapM (parseRespF k)
    return .sync (← parseH k (← arg a 1)) rs (← parseRH k (← arg a 3)) (← (← arg a 4).getInt?)
  | _ => throw s!"bad full op {t}"

def optStr : Option Int → String
  | some x => toString x
  | none => "N"

def finStr : FFin → String
  | .pending => "pending"
  | .res r => resStr r
  | .typeError => "exc:TypeError"
  | .keyError => "exc:KeyError"

def fresStr : FRes → String
  | .base r => resStr r
  | .typeError => "exc:TypeError"
  | .keyError => "exc:KeyError"
  | .dict d => s!"dict:{idStr d.id}:{d.status.getD "N"}:{d.body.getD "-"}"
  | .sync p s f => s!"sync:{p}:{s}:{finStr f}"

def rtStr : RT → String
  | .val x => toString x
  | .assertion => "AssertionError"
  | .typeError => "TypeError"

def foutStr (f : FJob) (o : FOut) : String :=
  fresStr o.res ++ "|" ++ idStr f.job.id ++ "|" ++ shown f.job ++ "|" ++ ",".intercalate (o.calls.map callStr)
    ++ "|" ++ f.name ++ "|" ++ s!"{f.ts.init},{optStr f.ts.runStart},{optStr f.ts.duration},{f.ts.progress}"
    ++ "|" ++ rtStr (runningTime f.job.status f.ts)

def runFOps (fixed : Bool) (t0 : Int) (name : String) (ops : Array Json) : Except String (Array String) := do
  let mut f := finit t0 name
  let mut outs : Array String := #[]
  let mut k := 1
  for oj in ops do
    let a ← oj.getArr?
    let now ← (← arg a 0).getInt?
    let op ← parseFOp (← arg a 1) k
    let (f', o) := fstep fixed f ⟨now, op⟩
    outs := outs.push (foutStr f' o)
    f := f'
    k := k + 1
  return outs

def endStr : LoopEnd → String
  | .complete => "complete" | .raised => "raised" | .pending => "pending"

def runSyncClock (fixed : Bool) (delay : Int) (j : Json) : Except String Json := do
  let d ← intOf j "d"
  let now ← intOf j "now"
  let fuel ← natOf j "fuel"
  let rs ← (← arrOf j "rs").toList.mapM (parseResp 2)
  let (t, outs, e) := syncLoopAt fixed delay d fuel ⟨born 1, 0⟩ now rs
  let _ := t
  return Json.mkObj [("outs", Json.arr (outs.toArray.map fun o =>
                        Json.str (resStr o.res ++ "|" ++ ",".intercalate (o.calls.map callStr)))),
                     ("end", Json.str (endStr e))]

/-! ### the results machine and the clocked machine (`Model/C17R.lean`) -/

def parseIter (j : Json) : Except String (List (String × Nat)) := do
  (← j.getArr?).toList.mapM fun kv => do
    let a ← kv.getArr?
    return (← argStr a 0, ← argNat a 1)

def optIter (j : Json) : Except String (Option (List (String × Nat))) :=
  match j with
  | .null => pure none
  | v => do return some (← parseIter v)

def optTok (j : Json) : Except String (Option RV) :=
  match j with
  | .null => pure none
  | v => do return some (.raw (← v.getNat?))

def parseCtx (j : Json) : Except String Ctx := do
  let (t, a) ← tag j
  match t with
  | "absent" => return .absent
  | "null" => return .null
  | "nomap" => return .noMapping
  | "map" =>
    let fn ← match ← argStr a 1 with
      | "good" => pure Fn.good
      | "noattr" => pure Fn.noAttr
      | "nomodule" => pure Fn.noModule
      | x => throw s!"bad mapping function {x}"
    return .mapping fn (← optIter (← arg a 2))
  | _ => throw s!"bad context {t}"

def parsePayload (j : Json) : Except String Payload := do
  if j.isNull then return .null
  let (t, a) ← tag j
  match t with
  | "num" => return .num (← argNat a 1)
  | "str" => return .str (← (← arg a 1).getBool?)
  | "list" => return .list (← argNat a 1)
  | "dict" =>
    let rl ← match ← arg a 2 with
      | .null => pure none
      | v => do
        let items ← (← v.getArr?).toList.mapM fun it => do
          let b ← it.getArr?
          return (⟨← optTok (← arg b 0), ← optIter (← arg b 1)⟩ : Item)
        pure (some items)
    return .dict ⟨← optTok (← arg a 1), rl, ← parseCtx (← arg a 3), ← (← arg a 4).getBool?⟩
  | _ => throw s!"bad payload {t}"

def parseRBody (j : Json) : Except String RBody := do
  let (t, a) ← tag j
  match t with
  | "h" => return .http (← argNat a 1)
  | "c" => return .conn
  | "nokey" => return .noKey
  | "notstr" => return .notStr
  | "badjson" => return .badJson
  | "p" => return .payload (← parsePayload (← arg a 1))
  | _ => throw s!"bad results body {t}"

def parseROp (j : Json) (k : Nat) : Except String ROp := do
  let (t, a) ← tag j
  match t with
  | "G" => return .getResults (← parseResp k (← arg a 1)) (← parseResp k (← arg a 2)) (← parseRBody (← arg a 3))
  | "g" => throw "the results machine has its own get_results (G)"
  | _ => return .base (← parseOp j k)

def iterStr (l : List (String × Nat)) : String := ",".intercalate (l.map fun kv => s!"{kv.1}={kv.2}")

def rvStr : RV → String
  | .raw t => toString t
  | .mapped v args => "M(" ++ rvStr v ++ "|" ++ iterStr args ++ ")"

def optRvStr : Option RV → String
  | some v => rvStr v
  | none => "-"

def ctxStr : Ctx → String
  | .absent => "absent" | .null => "null" | .noMapping => "nomap" | .mapping _ _ => "map"

def payloadStr : Payload → String
  | .null => "null"
  | .num n => s!"num:{n}"
  | .str b => if b then "str:abc" else "str:"
  | .list n => s!"list:{n}"
  | .dict d =>
    "dict:" ++ optRvStr d.results ++ ":" ++
      (match d.rlist with
       | none => "-"
       | some items => "[" ++ ";".intercalate (items.map fun it =>
           optRvStr it.res ++ "/" ++ (match it.iter with | some i => iterStr i | none => "-")) ++ "]")
      ++ ":" ++ ctxStr d.ctx ++ ":" ++ (if d.extra then "1" else "0")

def rresStr : RRes → String
  | .base r => resStr r
  | .value p => "val:" ++ payloadStr p
  | .raised (.base e) => s!"exc:{excStr e}"
  | .raised .jsonDecode => "exc:JSONDecodeError"
  | .raised .attribute => "exc:AttributeError"
  | .raised .moduleNotFound => "exc:ModuleNotFoundError"

def runROps (fixed : Bool) (ops : Array Json) : Except String (Array String) := do
  let mut s := rinit
  let mut outs : Array String := #[]
  let mut k := 1
  for oj in ops do
    let op ← parseROp oj k
    let (s', o) := rstep fixed s op
    outs := outs.push (rresStr o.res ++ "|" ++ idStr s'.job.id ++ "|" ++ shown s'.job ++ "|" ++
      ",".intercalate (o.calls.map callStr))
    s := s'
    k := k + 1
  return outs

def runKOps (fixed : Bool) (delay : Int) (ops : Array Json) : Except String (Array String) := do
  let mut t := kinit
  let mut outs : Array String := #[]
  let mut k := 1
  for oj in ops do
    let a ← oj.getArr?
    let op ← parseOp (← arg a 2) k
    let (t', o) := kstep fixed delay t ⟨← (← arg a 0).getInt?, ← (← arg a 1).getInt?, op⟩
    outs := outs.push (outStr t'.job o)
    t := t'
    k := k + 1
  return outs

/-! ### results under the throttle, re-creation under the clock (`Model/C17Y.lean`) -/

def parseYOp (a : Array Json) (k : Nat) : Except String YOp := do
  let n1 ← (← arg a 0).getInt?
  let n2 ← (← arg a 1).getInt?
  let oj ← arg a 2
  let (t, b) ← tag oj
  match t with
  | "reopen" => return .reopen
  | "G" => return .getResults n1 n2 (← parseResp k (← arg b 1)) (← parseResp k (← arg b 2)) (← parseRBody (← arg b 3))
  | "g" => throw "the combined machine has its own get_results (G)"
  | _ => return .base n1 n2 (← parseOp oj k)

def youtStr (s : YJob) (o : ROut) : String :=
  rresStr o.res ++ "|" ++ idStr s.job.id ++ "|" ++ shown s.job ++ "|" ++ ",".intercalate (o.calls.map callStr)

/-- `{"resume": [id, now, answer]}` (optional, step 1) then `yops` -/
def runYOps (fixed : Bool) (delay : Int) (j : Json) (ops : Array Json) : Except String (Array String) := do
  let mut s := yinit
  let mut outs : Array String := #[]
  let mut k := 1
  if let .ok rj := j.getObjVal? "resume" then
    let a ← rj.getArr?
    let n ← argNat a 0
    let now ← (← arg a 1).getInt?
    let r ← parseResp k (← arg a 2)
    match resumeAt fixed delay n now r with
    | (some s', _, c) =>
      outs := outs.push (s!"new:{n}:{shown s'.job}|" ++ ",".intercalate (c.map callStr))
      s := s'
    | (none, some e, c) =>
      outs := outs.push (s!"exc:{excStr e}|" ++ ",".intercalate (c.map callStr))
      return outs
    | (none, none, _) => throw "resumeAt: no object and no exception"
    k := k + 1
  for oj in ops do
    let op ← parseYOp (← oj.getArr?) k
    let (s', o) := ystep fixed delay s op
    outs := outs.push (youtStr s' o)
    s := s'
    k := k + 1
  return outs

/-! ### status answers by shape (`Model/C17W.lean`) -/

def optNat (j : Json) : Except String (Option Nat) :=
  match j with
  | .null => pure none
  | v => do return some (← v.getNat?)

def optString (j : Json) : Except String (Option String) :=
  match j with
  | .null => pure none
  | v => do return some (← v.getStr?)

def parseRespW (k : Nat) (j : Json) : Except String RespW := do
  let (t, a) ← tag j
  match t with
  | "sw" =>
    return .status ⟨← optString (← arg a 1), ← optNat (← arg a 2), ← (← arg a 3).getBool?, ← (← arg a 4).getBool?,
                    ← optInt (← arg a 5), ← optInt (← arg a 6), ← optInt (← arg a 7)⟩ k
  | "h" => return .http (← argNat a 1)
  | "c" => return .conn
  | _ => throw s!"bad shaped status response {t}"

def parseWOp (j : Json) (k : Nat) : Except String WOp := do
  let (t, a) ← tag j
  match t with
  | "pw" => return .rawPoll (← parseView (← argNat a 1)) (← parseRespW k (← arg a 2))
  | _ => return .full (← parseFOp j k)

def runWOps (fixed : Bool) (t0 : Int) (name : String) (ops : Array Json) : Except String (Array String) := do
  let mut f := finit t0 name
  let mut outs : Array String := #[]
  let mut k := 1
  for oj in ops do
    let a ← oj.getArr?
    let now ← (← arg a 0).getInt?
    let op ← parseWOp (← arg a 1) k
    let (f', o) := wstep fixed f ⟨now, op⟩
    outs := outs.push (foutStr f' o)
    f := f'
    k := k + 1
  return outs

def handleE (j : Json) : Except String Json := do
  let fixed ← boolOf j "fixed"
  if let .ok rops := arrOf j "rops" then
    let outs ← runROps fixed rops
    return Json.mkObj [("outs", Json.arr (outs.map Json.str))]
  if let .ok yops := arrOf j "yops" then
    let outs ← runYOps fixed (← intOf j "delay") j yops
    return Json.mkObj [("outs", Json.arr (outs.map Json.str))]
  if let .ok kops := arrOf j "kops" then
    let outs ← runKOps fixed (← intOf j "delay") kops
    return Json.mkObj [("outs", Json.arr (outs.map Json.str))]
  if let .ok wops := arrOf j "wops" then
    let outs ← runWOps fixed (← intOf j "t0") (← strOf j "name") wops
    return Json.mkObj [("outs", Json.arr (outs.map Json.str))]
  if let .ok fops := arrOf j "fops" then
    let outs ← runFOps fixed (← intOf j "t0") (← strOf j "name") fops
    return Json.mkObj [("outs", Json.arr (outs.map Json.str))]
  if let .ok sc := j.getObjVal? "syncclock" then
    return ← runSyncClock fixed (← intOf j "delay") sc
  if let .ok reads := arrOf j "clock" then
    let delay ← intOf j "delay"
    let outs ← runClock fixed delay reads
    return Json.mkObj [("outs", Json.arr (outs.map Json.str))]
  else if let .ok ops := arrOf j "ops" then
    let outs ← runOps fixed ops
    return Json.mkObj [("outs", Json.arr (outs.map Json.str))]
  else
    let alphaJ ← arrOf j "alphabet"
    let alpha := alphaJ.map parseOp
    let prefixIdx ← natList (← j.getObjVal? "prefix")
    let depth ← natOf j "depth"
    let mut job := init
    let mut k := 1
    for i in prefixIdx do
      match alpha[i]? with
      | none => throw "prefix index out of range"
      | some mk =>
        let op ← mk k
        job := (step fixed job op).1
        k := k + 1
    let outs ← dfs fixed alpha k depth job #[]
    return Json.mkObj [("outs", Json.arr (outs.map Json.str))]

def handle (j : Json) : Json :=
  match handleE j with
  | .ok r => r
  | .error e => errJson e

def main : IO Unit := run handle
