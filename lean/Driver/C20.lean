import PercevalModel.SimProto
import PercevalModel.Model.C20
import PercevalModel.Model.C20Conv
import PercevalModel.Model.C20Post
import PercevalModel.Lemmas.C20HeraldedCnot

/-!
  Driver of C20.  Requests (one JSON object per line):
    {"op":"table","m":m,"U":rows,"qubits":[p0,…],"heralds":[[mode,val],…],"ps":<expr>,
     "G":rows|null,"leak":bool,"spec":bool}
        -> {"A":rows(out,in),"c":[re,im],"succ":q,"dev2":q,"leak":[q per input],"specOk":bool}
    {"op":"label","fixed":bool,"gates":[[name,[qubits]],…]} -> {"labels":[…],"pp":[[a,b],…]}
    {"op":"labelenum","fixed":bool,"nq":n,"k":k,"first":[a,b]} -> {"flags":"010,110,…"} (all CNOT sequences)
    {"op":"plan","fixed":bool,"ups":bool,"gates":[…]}      -> {"kinds":[…],"heralds":[…]}
    {"op":"cyclic","edges":[[a,b],…]}                      -> {"cyclic":bool}
    {"op":"maxralph","pairs":[[a,b],…],"extra":[[a,b],…]}  -> {"pairs":[[a,b],…]}
    {"op":"swap","cIdx":i,"cData":j}   -> {"first":f,"perm":[…]} | {"err":"IndexError"}
    {"op":"modemap","cIdx":i,"cData":j} -> {"map":[[k,v],…]}
    {"op":"psswap","fixed":bool,"a":a,"b":b,"conds":[[mode,…],…]} -> {"conds":[[mode,…],…]}  (qubits a, b swapped)
    {"op":"cqdecl","decls":[[name,size|-1],…],"refs":[[name,idx|-1],…]}
        -> {"names":[…],"n":qubits,"idx":[k|null,…]}   (cQASM declarations: size -1 = single qubit)
    {"op":"cutcheck","fixed":bool,"ups":bool,"gates":[…],"labels":[…]|null}
        -> {"shape":[[[first modes],leaky],…],"ok":bool}   (labels null: the model's own labelling)
    {"op":"cutenum","fixed":bool,"nq":n,"k":k,"first":[a,b]} -> {"ok":"110…"} (cutCheck of the model's labelling, all
        CNOT sequences as in "labelenum")
    {"op":"catmat","name":"heralded cz"|"heralded cnot"|"postprocessed cnot"|"postprocessed cz","r":q,"h":q,"c2":q,"s2":q}
        -> {"U":rows}   the model's explicit 6x6 matrix of the gate (`hczMatrix`, `H·hczMatrix·H`, `ppcnotMatrix`,
        `ppczMatrix` — the matrices the exact theorems are about) evaluated at the given rational parameters
    {"op":"modes","n":n,"fixed":bool,"ups":bool,"gates":[…]}   (also: "ps" = planPS, "tracked" = ppTracked, "input", "minPhotons")
        -> {"kinds":[…],"modes":[[…],…],"m":m,"qubits":[…],"heralds":[[mode,val],…],"layoutOk":bool}
-/

open Lean PM PM.Proto PM.Fock PM.SimSpec PM.SimProto PM.C20

def edgeOfJson (j : Json) : Except String Edge := do
  match (← natList j) with
  | [a, b] => pure (a, b)
  | _ => throw "bad pair"

def edgesOf (j : Json) (k : String) : Except String (List Edge) := do
  (← arrOf j k).toList.mapM edgeOfJson

def edgesToJson (l : List Edge) : Json :=
  Json.arr (l.map fun e => Json.arr #[toJson e.1, toJson e.2]).toArray

def gateOfJson (j : Json) : Except String Gate := do
  match (← j.getArr?) with
  | #[n, q] => return { name := ← n.getStr?, qubits := ← natList q }
  | _ => throw "bad gate"

def declOfJson (j : Json) : Except String Decl := do
  match (← j.getArr?) with
  | #[n, k] =>
    let k ← k.getInt?
    if k < -1 then throw "bad size"
    return { name := ← n.getStr?, size := if k = -1 then none else some k.toNat }
  | _ => throw "bad declaration"

def refOfJson (j : Json) : Except String (String × ℤ) := do
  match (← j.getArr?) with
  | #[n, k] => return (← n.getStr?, ← k.getInt?)
  | _ => throw "bad reference"

def boolOfD (j : Json) (k : String) (d : Bool) : Except String Bool :=
  match j.getObjVal? k with
  | .ok (.bool b) => pure b
  | .ok _ => throw s!"{k}: not a boolean"
  | .error _ => pure d

def rowsToLists (rows : Array (Array GQ)) : List (List GQ) := rows.toList.map (·.toList)

def handle (j : Json) : Json :=
  match (do
    let op ← strOf j "op"
    match op with
    | "table" =>
      let ⟨m, U⟩ ← matOfJson j
      let L : Layout := { m := m, qubits := ← natList (← j.getObjVal? "qubits"),
                          heralds := ← edgesOf j "heralds" }
      if !L.ok then throw "bad layout"
      let ps ← psOfJson (← j.getObjVal? "ps")
      let q := L.qubits.length
      let bs := basis q
      let nph := (encode L (bs.headD [])).sum
      -- ≤ 6 photons: the proved Laplace evaluation (`fastGateAmp_eq_gateAmp`); beyond: Ryser's formula
      let A := bs.map fun bo => bs.map fun bi =>
        if nph ≤ 6 then fastGateAmp U L ps bo bi else ryserGateAmp U L ps bo bi
      -- internal checks of the executable evaluations: against the specification (Mathlib permanent) when
      -- asked ("spec", small instances), Ryser against the proved evaluation up to 6 photons
      let spec ← boolOf j "spec"
      let specOk := (!spec || (bs.all fun bo => bs.all fun bi =>
        fastGateAmp U L ps bo bi == gateAmp U L ps bo bi)) &&
        (nph > 6 || (bs.all fun bo => bs.all fun bi =>
          fastGateAmp U L ps bo bi == ryserGateAmp U L ps bo bi))
      let wantLeak ← boolOf j "leak"
      let lk := if wantLeak then bs.map fun bi => ratToJson (leak U L ps bi) else []
      let rowJ : List GQ → Json := fun r => Json.arr (r.map gqToJson).toArray
      let base : List (String × Json) := [("A", Json.arr (A.map rowJ).toArray),
        ("leak", Json.arr lk.toArray), ("specOk", Json.bool specOk), ("photons", toJson nph),
        ("inputs", Json.arr (bs.map fun b => toJson (encode L b)).toArray)]
      match j.getObjVal? "G" with
      | .ok (.arr g) =>
        let G := rowsToLists (← gqRows (.arr g))
        if G.length ≠ bs.length ∨ G.any (·.length ≠ bs.length) then throw "bad target"
        let c := fitScalar A G
        return Json.mkObj (base ++ [("c", gqToJson c), ("succ", ratToJson (GQ.normSq c)),
          ("dev2", ratToJson (dev2 A G c))])
      | _ => return Json.mkObj base
    | "label" =>
      let fixed ← boolOf j "fixed"
      let gs ← (← arrOf j "gates").toList.mapM gateOfJson
      if gs.any (fun g => isCnot g && g.qubits.length ≠ 2) then throw "ValueError"
      return Json.mkObj [("labels", toJson (labelCnots fixed gs)),
        ("pp", edgesToJson (ppPairs fixed gs))]
    | "labelenum" =>
      -- every sequence of `k` CNOTs on `nq` qubits that starts with `first`, product order
      let fixed ← boolOf j "fixed"
      let nq ← natOf j "nq"
      let k ← natOf j "k"
      let first ← edgeOfJson (← j.getObjVal? "first")
      if k = 0 then throw "k = 0"
      let seqs := (allSeqs (orderedPairs nq) (k - 1)).map (first :: ·)
      return Json.mkObj [("flags", Json.str (",".intercalate (seqs.map (flagString fixed))))]
    | "plan" =>
      let fixed ← boolOf j "fixed"
      let ups ← boolOf j "ups"
      let gs ← (← arrOf j "gates").toList.mapM gateOfJson
      if gs.any (fun g => isCnot g && g.qubits.length ≠ 2) then throw "ValueError"
      let kinds := planKinds ups gs (labelCnots fixed gs)
      return Json.mkObj [("kinds", toJson kinds), ("heralds", toJson (planHeralds kinds))]
    | "cyclic" =>
      return Json.mkObj [("cyclic", Json.bool (!forestB (← edgesOf j "edges")))]
    | "maxralph" =>
      return Json.mkObj [("pairs", edgesToJson (findMaxRalph (← edgesOf j "pairs") (← edgesOf j "extra")))]
    | "swap" =>
      match swapPerm (← natOf j "cIdx") (← natOf j "cData") with
      | some (f, p) => return Json.mkObj [("first", toJson f), ("perm", toJson p)]
      | none => throw "IndexError"
    | "modemap" =>
      return Json.mkObj [("map", edgesToJson (createModeMap (← natOf j "cIdx") (← natOf j "cData")))]
    | "psswap" =>
      let fixed ← boolOf j "fixed"
      let a ← natOf j "a"
      let b ← natOf j "b"
      if a = b then throw "a = b"
      let cs ← (← arrOf j "conds").toList.mapM natList
      return Json.mkObj [("conds", toJson (cs.map (condAfterSwap fixed a b)))]
    | "cqdecl" =>
      let ds ← (← arrOf j "decls").toList.mapM declOfJson
      let refs ← (← arrOf j "refs").toList.mapM refOfJson
      let idx := refs.map fun r => match operandIndex ds r with
        | some k => toJson k
        | none => Json.null
      return Json.mkObj [("names", toJson (qubitNames ds)), ("n", toJson (qubitList ds).length),
        ("idx", Json.arr idx.toArray)]
    | "cutcheck" =>
      let fixed ← boolOf j "fixed"
      let ups ← boolOf j "ups"
      let gs ← (← arrOf j "gates").toList.mapM gateOfJson
      if gs.any (fun g => isCnot g && g.qubits.length ≠ 2) then throw "ValueError"
      let labels ← match j.getObjVal? "labels" with
        | .ok (.arr a) => a.toList.mapM fun (x : Json) => x.getStr?
        | _ => pure (labelCnots fixed gs)
      if labels.length ≠ gs.length then throw "labels/gates length"
      let shape := convShape ups gs labels
      return Json.mkObj [("shape", Json.arr (shape.map fun (s : List ℕ × Bool) => Json.arr #[toJson s.1, Json.bool s.2]).toArray),
        ("ok", Json.bool (cutCheck shape))]
    | "cutenum" =>
      let fixed ← boolOf j "fixed"
      let nq ← natOf j "nq"
      let k ← natOf j "k"
      let first ← edgeOfJson (← j.getObjVal? "first")
      if k = 0 then throw "k = 0"
      let seqs := (allSeqs (orderedPairs nq) (k - 1)).map (first :: ·)
      let oks := seqs.map fun (sq : List Edge) =>
        let gs : List Gate := sq.map fun (e : Edge) => ⟨"cx", [e.1, e.2]⟩
        if cutCheck (convShape true gs (labelCnots fixed gs)) then '1' else '0'
      return Json.mkObj [("ok", Json.str (String.ofList oks))]
    | "catmat" =>
      let nm ← strOf j "name"
      let r : GQ := ⟨← ratOfJson (← j.getObjVal? "r"), 0⟩
      let h : GQ := ⟨← ratOfJson (← j.getObjVal? "h"), 0⟩
      let c2 : GQ := ⟨← ratOfJson (← j.getObjVal? "c2"), 0⟩
      let s2 : GQ := ⟨← ratOfJson (← j.getObjVal? "s2"), 0⟩
      let U : Matrix (Fin 6) (Fin 6) GQ ← match nm with
        | "heralded cz" => pure (hczMatrix r h c2 s2)
        | "heralded cnot" =>
          -- `hcnotCircuit` with the heralded CZ circuit replaced by its explicit matrix (`hczCircuit_eq`)
          pure (PM.embed 6 2 (bsH h h) * (hczMatrix r h c2 s2 * PM.embed 6 2 (bsH h h)))
        | "postprocessed cnot" => pure (ppcnotMatrix r h)
        | "postprocessed cz" => pure (ppczMatrix r h)
        | _ => throw "unknown catalog matrix"
      let rows := (List.finRange 6).map fun i => Json.arr ((List.finRange 6).map fun k => gqToJson (U i k)).toArray
      return Json.mkObj [("U", Json.arr rows.toArray)]
    | "modes" =>
      let fixed ← boolOf j "fixed"
      let ups ← boolOf j "ups"
      let n ← natOf j "n"
      let gs ← (← arrOf j "gates").toList.mapM gateOfJson
      if gs.any (fun g => isCnot g && g.qubits.length ≠ 2) then throw "ValueError"
      if gs.any (fun g => g.qubits.any (· ≥ n)) then throw "qubit out of range"
      let kinds := planKinds ups gs (labelCnots fixed gs)
      if kinds.any (·.startsWith "rejected") then throw "rejected gate"
      let L := convLayout n (planHeralds kinds)
      return Json.mkObj [("kinds", toJson kinds), ("modes", toJson (planModes n gs kinds 0)), ("m", toJson L.m),
        ("qubits", toJson L.qubits), ("heralds", edgesToJson L.heralds), ("layoutOk", Json.bool L.ok),
        -- round 8: the post-selection conditions the converter ends with (`planPS`, repaired SWAP rule unless
        -- "swapFixed": false), what every post-processed CNOT contributes (`ppTracked`), and the default input state
        ("ps", toJson (planPS (← boolOfD j "swapFixed" true) gs kinds [])), ("tracked", toJson (ppTracked gs kinds)),
        ("input", toJson (inputState n (planHeralds kinds))), ("minPhotons", toJson n)]
    | _ => throw "unknown op") with
  | .ok r => r
  | .error e => errJson e

def main : IO Unit := run handle
