/-
  JSON protocol for the simulator specification (`Found/SimSpec.lean`), shared by the drivers of
  C03, C04, C05.  Requests carry the matrix as exact rationals.
    {"op":"sim","m":m,"U":rows,
     "members":[{"w":"1/2","terms":[{"coef":[re,im],"groups":[[1,0],[0,1]]}, …]}, …],
     "cond":{"heralds":[[mode,val],…],"ps":<expr>,"minPhotons":k,"keepHeralds":bool}}
  <expr> ::= true | {"c":[modes],"op":"=="|"<"|">"|"<="|">=","k":n}
           | {"and":[e,e]} | {"or":[e,e]} | {"xor":[e,e]} | {"not":e}
-/
import PercevalModel.Proto
import PercevalModel.Found.SimSpec

open Lean PM.Proto PM.Fock PM.Dist PM.SimSpec

namespace PM.SimProto

def matOfRows (k : ℕ) (rows : Array (Array GQ)) : Matrix (Fin k) (Fin k) GQ :=
  fun i j => (rows.getD i.val #[]).getD j.val 0

def matOfJson (j : Json) : Except String (Σ m, Matrix (Fin m) (Fin m) GQ) := do
  let m ← natOf j "m"
  let rows ← gqRows (← j.getObjVal? "U")
  if rows.size ≠ m ∨ rows.any (·.size ≠ m) then throw "bad matrix"
  return ⟨m, matOfRows m rows⟩

def cmpOfStr : String → Except String Cmp
  | "==" => pure .eq | "<" => pure .lt | ">" => pure .gt | "<=" => pure .le | ">=" => pure .ge
  | s => throw s!"bad comparison {s}"

partial def psOfJson (j : Json) : Except String PS := do
  match j with
  | .bool true => return .tt
  | _ =>
    if let .ok ms := j.getObjVal? "c" then
      return .cond (← natList ms) (← cmpOfStr (← strOf j "op")) (← natOf j "k")
    let two (k : String) : Except String (PS × PS) := do
      match (← arrOf j k) with
      | #[a, b] => return (← psOfJson a, ← psOfJson b)
      | _ => throw "binary operator needs two operands"
    if (j.getObjVal? "and").isOk then let (a, b) ← two "and"; return .and a b
    if (j.getObjVal? "or").isOk then let (a, b) ← two "or"; return .or a b
    if (j.getObjVal? "xor").isOk then let (a, b) ← two "xor"; return .xor a b
    if let .ok a := j.getObjVal? "not" then return .not (← psOfJson a)
    throw "bad post-selection expression"

def condOfJson (j : Json) : Except String Cond := do
  let hs ← (← arrOf j "heralds").toList.mapM fun h => do
    match (← natList h) with
    | [a, b] => pure (a, b)
    | _ => throw "bad herald"
  return { heralds := hs, ps := ← psOfJson (← j.getObjVal? "ps"),
           minPhotons := ← natOf j "minPhotons", keepHeralds := ← boolOf j "keepHeralds" }

def termOfJson (j : Json) : Except String SimSpec.Term := do
  let gs ← (← arrOf j "groups").toList.mapM natList
  return { coef := ← gqOfJson (← j.getObjVal? "coef"), groups := gs }

def membersOfJson (j : Json) : Except String (List (ℚ × List SimSpec.Term)) := do
  (← j.getArr?).toList.mapM fun mj => do
    let w ← ratOfJson (← mj.getObjVal? "w")
    let ts ← (← arrOf mj "terms").toList.mapM termOfJson
    pure (w, ts)

def distToJson (d : D) : Json :=
  Json.arr ((compress d).map fun p => Json.arr #[toJson p.1, ratToJson p.2]).toArray

/-- the standard operations on the specification -/
def handleSim (j : Json) : Except String Json := do
  let op ← strOf j "op"
  let ⟨m, U⟩ ← matOfJson j
  match op with
  | "sim" =>
    let members ← membersOfJson (← j.getObjVal? "members")
    let full := probsSVD U members
    let c ← condOfJson (← j.getObjVal? "cond")
    return Json.mkObj [("full", distToJson full), ("mass", ratToJson (mass full)),
      ("conditioned", distToJson (conditioned c full)),
      ("retained", ratToJson (mass (retained c full))),
      ("phys", ratToJson (physPerf c full)), ("logic", ratToJson (logicalPerf c full))]
  | "svamps" =>
    -- annotated outputs of one superposition: tuple, amplitude numerator, ∏t!; plus the norm²
    let ts ← (← arrOf j "terms").toList.mapM termOfJson
    let amps := svAmps U ts
    return Json.mkObj [
      ("amps", Json.arr (amps.map fun p =>
        Json.arr #[toJson p.1, gqToJson p.2, toJson ((p.1.map prodFact).prod)]).toArray),
      ("norm2", ratToJson (svNorm2 ts))]
  | "tagged" =>
    let gs ← (← arrOf j "groups").toList.mapM natList
    return Json.mkObj [("conv", distToJson (probsTagged U gs)),
      ("sv", distToJson (probsSV U [{ coef := 1, groups := gs }]))]
  | _ => throw s!"unknown op {op}"

end PM.SimProto
