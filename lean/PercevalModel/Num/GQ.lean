/-
  ℚ[i] — Gaussian rationals: the executable coefficient ring of the numeric models.
  A `CommRing` and `StarRing` with decidable equality, so every ring-polymorphic model
  definition can be *run* at `R := GQ` by the correspondence driver.
-/
import Mathlib.Algebra.Ring.MinimalAxioms
import Mathlib.Algebra.Star.Basic
import Mathlib.Algebra.Field.Rat
import Mathlib.Tactic.Ring

structure GQ where
  re : ℚ
  im : ℚ
deriving DecidableEq, Repr

namespace GQ

instance : Zero GQ := ⟨⟨0, 0⟩⟩
instance : One GQ := ⟨⟨1, 0⟩⟩
instance : Add GQ := ⟨fun a b => ⟨a.re + b.re, a.im + b.im⟩⟩
instance : Neg GQ := ⟨fun a => ⟨-a.re, -a.im⟩⟩
instance : Mul GQ := ⟨fun a b => ⟨a.re * b.re - a.im * b.im, a.re * b.im + a.im * b.re⟩⟩

@[simp] theorem zero_re : (0 : GQ).re = 0 := rfl
@[simp] theorem zero_im : (0 : GQ).im = 0 := rfl
@[simp] theorem one_re : (1 : GQ).re = 1 := rfl
@[simp] theorem one_im : (1 : GQ).im = 0 := rfl
@[simp] theorem add_re (a b : GQ) : (a + b).re = a.re + b.re := rfl
@[simp] theorem add_im (a b : GQ) : (a + b).im = a.im + b.im := rfl
@[simp] theorem neg_re (a : GQ) : (-a).re = -a.re := rfl
@[simp] theorem neg_im (a : GQ) : (-a).im = -a.im := rfl
@[simp] theorem mul_re (a b : GQ) : (a * b).re = a.re * b.re - a.im * b.im := rfl
@[simp] theorem mul_im (a b : GQ) : (a * b).im = a.re * b.im + a.im * b.re := rfl

@[ext] theorem ext {a b : GQ} (h1 : a.re = b.re) (h2 : a.im = b.im) : a = b := by
  cases a; cases b; simp_all

instance : CommRing GQ :=
  CommRing.ofMinimalAxioms
    (by intro a b c; ext <;> simp <;> ring)
    (by intro a; ext <;> simp)
    (by intro a; ext <;> simp)
    (by intro a b c; ext <;> simp <;> ring)
    (by intro a b; ext <;> simp <;> ring)
    (by intro a; ext <;> simp)
    (by intro a b c; ext <;> simp <;> ring)

/-- the imaginary unit -/
def I : GQ := ⟨0, 1⟩
def ofRat (q : ℚ) : GQ := ⟨q, 0⟩
def conj (a : GQ) : GQ := ⟨a.re, -a.im⟩
def normSq (a : GQ) : ℚ := a.re * a.re + a.im * a.im

theorem I_mul_I : I * I = -1 := by ext <;> simp [I]

instance : StarRing GQ where
  star := conj
  star_involutive := by intro a; ext <;> simp [conj]
  star_mul := by intro a b; ext <;> simp [conj] <;> ring
  star_add := by intro a b; ext <;> simp [conj]; ring

@[simp] theorem star_re (a : GQ) : (star a).re = a.re := rfl
@[simp] theorem star_im (a : GQ) : (star a).im = -a.im := rfl

theorem mul_star_self (a : GQ) : a * star a = ofRat (normSq a) := by
  ext <;> simp [ofRat, normSq] <;> ring

end GQ
