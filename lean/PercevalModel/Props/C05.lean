/-
  C05 — property theorems (model: `Model/C05.lean`, helpers: `Lemmas/C05.lean`).

  Property: what a backend, a simulator, a stepper or a processor returns depends on the current
  configuration only; after ANY history it equals what a freshly constructed object returns for the final
  configuration.  In the model an answer is the *provenance* of the numbers (the ghosts of the cache
  entries that were read); "fresh" is the same machine started from its initial state and configured by
  the canonical sequence `canon… cfg`.

  Every positive theorem is for ALL histories (lists of operations, no bound).
-/
import PercevalModel.Lemmas.C05More
import PercevalModel.Lemmas.C05W10

namespace PM.C05

open SM

/-! ## Stepper (fixed code: the photon filter is part of the compiled key) -/

/-- the invariant holds after every history -/
theorem stepper_inv_all_histories (ops : List StOp) : InvSt (exec (stepSt true) initSt ops) :=
  inv_exec _ InvSt (fun s op h => invSt_step s op h) _ invSt_init ops

/-- after any history, `evolve` answers what a fresh Stepper given the final configuration answers -/
theorem stepper_query_eq_fresh (ops : List StOp) (inp : Nat) :
    (stepSt true (exec (stepSt true) initSt ops) (.evolve inp)).2 =
      freshSt true (exec (stepSt true) initSt ops).config inp := by
  rw [querySt_spec _ _ (stepper_inv_all_histories ops)]
  unfold freshSt
  have h2 := querySt_spec _ inp (stepper_inv_all_histories (canonSt (exec (stepSt true) initSt ops).config))
  rw [h2, configSt_canon]

theorem stepper_history_independent (h₁ h₂ : List StOp) (inp : Nat)
    (hc : (exec (stepSt true) initSt h₁).config = (exec (stepSt true) initSt h₂).config) :
    (stepSt true (exec (stepSt true) initSt h₁) (.evolve inp)).2 =
      (stepSt true (exec (stepSt true) initSt h₂) (.evolve inp)).2 := by
  rw [stepper_query_eq_fresh, stepper_query_eq_fresh, hc]

/-- non-vacuity: two different histories with the same final configuration -/
example : (exec (stepSt true) initSt [.setCircuit 1, .evolve 3, .setFilter 2]).config =
    (exec (stepSt true) initSt [.setFilter 2, .setCircuit 1]).config := by decide

/-- the code of the pinned tree: after a filter change `evolve` returns the state computed for the old filter -/
theorem stepper_fails_on_current_code :
    ¬ ∀ (ops : List StOp) (inp : Nat),
      (stepSt false (exec (stepSt false) initSt ops) (.evolve inp)).2 =
        freshSt false (exec (stepSt false) initSt ops).config inp := by
  intro h
  have := h [.setCircuit 1, .evolve 3, .setFilter 2] 3
  revert this
  decide

/-! ## Simulator (repaired code: `init_use_mask` drops the evolve cache when the mask mode changes, `evolve`
sets the mode itself, mask-free computations remove the mask an earlier call left on the backend) -/

theorem simulator_inv_all_histories (ops : List SiOp) : InvSi (exec (stepSi true) initSi ops) :=
  inv_exec _ InvSi (fun s op h => invSi_step s op h) _ invSi_init ops

/-- EVERY query — `probs_svd` (generic or fast path, any detectors), `evolve` / `probs(StateVector)`,
`evolve_svd`, `probs(BasicState)`, `probability`, `prob_amplitude` — after any history answers what a fresh
simulator given the final configuration answers -/
theorem simulator_query_eq_fresh (ops : List SiOp) (q : SiOp) (hq : q.isQuery = true) :
    (stepSi true (exec (stepSi true) initSi ops) q).2 =
      freshSi true (exec (stepSi true) initSi ops).config q := by
  rw [querySi_spec _ q hq (simulator_inv_all_histories ops)]
  unfold freshSi
  rw [querySi_spec _ q hq (simulator_inv_all_histories _), configSi_canon]

/-- `probs_svd` (generic or fast path, any detectors) after any history = fresh simulator -/
theorem simulator_probs_svd_eq_fresh (ops : List SiOp) (pnr generic : Bool) (keys : List SiKey) :
    (stepSi true (exec (stepSi true) initSi ops) (.probsSvd pnr generic keys)).2 =
      freshSi true (exec (stepSi true) initSi ops).config (.probsSvd pnr generic keys) :=
  simulator_query_eq_fresh ops _ rfl

/-- `evolve` after any history = fresh simulator -/
theorem simulator_evolve_eq_fresh (ops : List SiOp) (keys : List SiKey) :
    (stepSi true (exec (stepSi true) initSi ops) (.evolve keys)).2 =
      freshSi true (exec (stepSi true) initSi ops).config (.evolve keys) :=
  simulator_query_eq_fresh ops _ rfl

/-- `evolve_svd` after any history = fresh simulator: every vector that passes the photon filter is rebuilt from
states evolved for the current circuit under the mask of the current heralds -/
theorem simulator_evolve_svd_eq_fresh (ops : List SiOp) (groups : List (Bool × List SiKey)) :
    (stepSi true (exec (stepSi true) initSi ops) (.evolveSvd groups)).2 =
      freshSi true (exec (stepSi true) initSi ops).config (.evolveSvd groups) :=
  simulator_query_eq_fresh ops _ rfl

/-- `probs(BasicState)` after any history = fresh simulator (no mask left by an earlier call is in force) -/
theorem simulator_probs_eq_fresh (ops : List SiOp) (sts : List Nat) :
    (stepSi true (exec (stepSi true) initSi ops) (.probs sts)).2 =
      freshSi true (exec (stepSi true) initSi ops).config (.probs sts) :=
  simulator_query_eq_fresh ops _ rfl

/-- `probability` / `prob_amplitude` after any history = fresh simulator -/
theorem simulator_direct_eq_fresh (ops : List SiOp) (sts : List Nat) :
    (stepSi true (exec (stepSi true) initSi ops) (.direct sts)).2 =
      freshSi true (exec (stepSi true) initSi ops).config (.direct sts) :=
  simulator_query_eq_fresh ops _ rfl

/-- `probability(StateVector, BasicState)` is `evolve(StateVector)` followed by a sum over the evolved vector: the
model step is `.evolve` — after any history = fresh simulator -/
theorem simulator_probability_sv_eq_fresh (ops : List SiOp) (keys : List SiKey) :
    (stepSi true (exec (stepSi true) initSi ops) (.evolve keys)).2 =
      freshSi true (exec (stepSi true) initSi ops).config (.evolve keys) :=
  simulator_query_eq_fresh ops _ rfl

/-- `prob_amplitude(StateVector, BasicState)`: one `prob_amplitude(BasicState, ·)` per term of the vector, asked
one after the other on the same object — after any history EVERY one of them is what a fresh simulator given the
final configuration answers (the earlier terms of the same call leave nothing behind) -/
theorem simulator_prob_amplitude_sv_eq_fresh (ops : List SiOp) (terms : List (List Nat)) :
    (run (stepSi true) (exec (stepSi true) initSi ops) (terms.map SiOp.direct)).2 =
      terms.map (fun sts => freshSi true (exec (stepSi true) initSi ops).config (.direct sts)) := by
  rw [directs_run _ (simulator_inv_all_histories ops)]
  apply List.map_congr_left
  intro sts _
  unfold freshSi
  rw [querySi_spec _ (.direct sts) rfl (simulator_inv_all_histories _), configSi_canon]

/-- closed form: the answer of every query is a function of the configuration (`specSiQ`), never `stale` -/
theorem simulator_query_closed_form (ops : List SiOp) (q : SiOp) (hq : q.isQuery = true) :
    (stepSi true (exec (stepSi true) initSi ops) q).2 = specSiQ (exec (stepSi true) initSi ops).config q :=
  querySi_spec _ q hq (simulator_inv_all_histories ops)

theorem simulator_history_independent (h₁ h₂ : List SiOp) (q : SiOp) (hq : q.isQuery = true)
    (hc : (exec (stepSi true) initSi h₁).config = (exec (stepSi true) initSi h₂).config) :
    (stepSi true (exec (stepSi true) initSi h₁) q).2 = (stepSi true (exec (stepSi true) initSi h₂) q).2 := by
  rw [simulator_query_eq_fresh _ _ hq, simulator_query_eq_fresh _ _ hq, hc]

/-- non-vacuity: histories with queries of every kind in between, same final configuration -/
example : (exec (stepSi true) initSi [.setCircuit 1, .setHeralds 1 1, .probsSvd true true [(7, 3, 2)],
      .probs [7], .direct [7], .evolveSvd [(true, [(7, 3, 2)]), (false, [(8, 1, 1)])]]).config =
    (exec (stepSi true) initSi [.setHeralds 1 1, .setCircuit 1]).config := by decide

/-- the code of the pinned tree: evolved states cached under the heralds mask (PNR detectors) are
reused by a later `probs_svd` with threshold detectors, for which the mask must not be used -/
theorem simulator_fails_on_current_code :
    ¬ ∀ (ops : List SiOp) (pnr generic : Bool) (keys : List SiKey),
      (stepSi false (exec (stepSi false) initSi ops) (.probsSvd pnr generic keys)).2 =
        freshSi false (exec (stepSi false) initSi ops).config (.probsSvd pnr generic keys) := by
  intro h
  have := h [.setCircuit 1, .setHeralds 1 1, .probsSvd true true [(7, 3, 2)]] false true [(7, 3, 2)]
  revert this
  decide

/-- the code of the pinned tree: `probs(BasicState)`, `probability` and `prob_amplitude` run under the heralds
mask a `probs_svd` (fast path here) left on the backend; the repaired code answers like a fresh simulator -/
theorem simulator_leftover_mask_fails_on_current_code :
    (stepSi false (exec (stepSi false) initSi [.setCircuit 1, .setHeralds 1 1, .probsSvd true false [(7, 3, 2)]])
        (.probs [7])).2 = .stale ∧
    (stepSi false (exec (stepSi false) initSi [.setCircuit 1, .setHeralds 1 1, .probsSvd true false [(7, 3, 2)]])
        (.direct [7])).2 = .stale ∧
    freshSi false ⟨some 1, 1, 1, 0⟩ (.probs [7]) = .res [(7, 1)] 1 0 ∧
    (stepSi true (exec (stepSi true) initSi [.setCircuit 1, .setHeralds 1 1, .probsSvd true false [(7, 3, 2)]])
        (.probs [7])).2 = .res [(7, 1)] 1 0 := by
  decide

/-- the code of the pinned tree: a vacuum component (`n = 0`: `use_mask` is not called) is evolved under the
mask a call made for OTHER heralds left on the backend -/
theorem simulator_vacuum_under_leftover_mask_fails_on_current_code :
    (stepSi false (exec (stepSi false) initSi
        [.setCircuit 1, .setHeralds 1 1, .probsSvd true false [(7, 3, 2)], .setHeralds 2 0])
        (.probsSvd true false [(8, 0, 0)])).2 = .stale ∧
    (stepSi true (exec (stepSi true) initSi
        [.setCircuit 1, .setHeralds 1 1, .probsSvd true false [(7, 3, 2)], .setHeralds 2 0])
        (.probsSvd true false [(8, 0, 0)])).2 = .res [(8, 1)] 2 0 := by
  decide

/-! ## Processor

  `stepPr false`: the automatic photon filter is recomputed at every call (a repair that does not exist in the
  tree); `stepPr true`: the code as it is (the automatic value is stored as if the user had set it — open known
  finding `processor-auto-filter-persists`).  Both share everything else: the kept simulator and its precision,
  the cached source distribution, the phase-noise snapshot, the merged input.

  `Pr.inputCurrent`: a Fock-state input was given after the last `add_herald`.  It is a legality condition of
  the history, not a cache: `with_input` writes the heralds of that moment into `_input_state`, and once the
  heralds change the processor expects an input of another length, so the old input cannot be given to a fresh
  processor at all (`processor_herald_after_input_keeps_old_input` shows what the code does then).
-/

theorem processor_inv_all_histories (persist : Bool) (ops : List PrOp) :
    InvPr persist (exec (stepPr persist) initPr ops) :=
  inv_exec _ (InvPr persist) (fun s op h => invPr_step persist s op h) _ (invPr_init persist) ops

/-- `probs(precision)` — any precision or none — after any history of `add` (components, detectors),
`add_herald`, `set_postselection` / `clear_postselection`, parameter changes, noise assignments, in-place
updates of the held NoiseModel, `with_input` (Fock state or distribution), filter changes and earlier queries
(with or without a precision) equals `probs(precision)` of a fresh processor given the final configuration:
the kept simulator was built for the current heralds and post-selection and has the precision asked for now,
the cached distribution comes from the current source and input.  (Model in which the automatic photon filter
is not stored.) -/
theorem processor_query_eq_fresh (ops : List PrOp) (prec : Option Nat)
    (hc : (exec (stepPr false) initPr ops).inputCurrent) :
    (stepPr false (exec (stepPr false) initPr ops) (.probs prec)).2 =
      freshPr false (exec (stepPr false) initPr ops).config prec := by
  have hi := processor_inv_all_histories false ops
  rw [probsPr_spec false _ prec hi hc (hi.noauto rfl)]
  unfold freshPr
  obtain ⟨c1, c2, c3⟩ := canonPr_state false (exec (stepPr false) initPr ops).config
  rw [probsPr_spec false _ prec (processor_inv_all_histories false _) c2 c3, c1]

/-- the code as it is: the same, for every history after which the stored photon filter was not written by the
automatic rule (`auto = false`: the user gave a filter before the first query, or after it).
Full statement (without `ha`): refuted by `processor_auto_filter_fails_on_current_code`. -/
theorem processor_query_eq_fresh_partial (ops : List PrOp) (prec : Option Nat)
    (hc : (exec (stepPr true) initPr ops).inputCurrent)
    (ha : (exec (stepPr true) initPr ops).auto = false) :
    (stepPr true (exec (stepPr true) initPr ops) (.probs prec)).2 =
      freshPr true (exec (stepPr true) initPr ops).config prec := by
  rw [probsPr_spec true _ prec (processor_inv_all_histories true ops) hc ha]
  unfold freshPr
  obtain ⟨c1, c2, c3⟩ := canonPr_state true (exec (stepPr true) initPr ops).config
  rw [probsPr_spec true _ prec (processor_inv_all_histories true _) c2 c3, c1]

theorem processor_history_independent (h₁ h₂ : List PrOp) (prec : Option Nat)
    (c₁ : (exec (stepPr false) initPr h₁).inputCurrent) (c₂ : (exec (stepPr false) initPr h₂).inputCurrent)
    (hc : (exec (stepPr false) initPr h₁).config = (exec (stepPr false) initPr h₂).config) :
    (stepPr false (exec (stepPr false) initPr h₁) (.probs prec)).2 =
      (stepPr false (exec (stepPr false) initPr h₂) (.probs prec)).2 := by
  rw [processor_query_eq_fresh _ _ c₁, processor_query_eq_fresh _ _ c₂, hc]

/-- non-vacuity: different histories (a herald added late and the input given again, a query with a precision,
a post-selection set and cleared, a noise change) with the same final configuration and a current input -/
example : (exec (stepPr false) initPr [.addComp 1, .withInput .bs 3 2, .setFilter 1, .probs (some 5),
      .setPs 4, .clearPs, .addHerald 2 1, .withInput .bs 3 2, .probs none, .setNoise (2, false)]).config =
    (exec (stepPr false) initPr [.addComp 1, .addHerald 2 1, .setNoise (2, false), .setFilter 1,
      .withInput .bs 3 2]).config ∧
    (exec (stepPr false) initPr [.addComp 1, .withInput .bs 3 2, .setFilter 1, .probs (some 5),
      .setPs 4, .clearPs, .addHerald 2 1, .withInput .bs 3 2, .probs none, .setNoise (2, false)]).inputCurrent := by
  refine ⟨by decide, ?_⟩
  intro i hi
  simp [exec, run, stepPr, initPr, effFilter, autoFilter, simFor, SimG.withPrec, genMap] at hi
  subst hi
  simp [exec, run, stepPr, initPr, effFilter, autoFilter, simFor, SimG.withPrec, genMap]

example : (exec (stepPr true) initPr [.addComp 1, .setFilter 1, .withInput .bs 3 2, .probs none]).auto = false := by
  decide

/-- the code as it is does not have the property: the automatic filter of a first `probs()` (2 photons) is
stored and applied to a later input with 1 photon, for which a fresh processor chooses 1 -/
theorem processor_auto_filter_fails_on_current_code :
    ¬ ∀ (ops : List PrOp) (prec : Option Nat), (exec (stepPr true) initPr ops).inputCurrent →
      (stepPr true (exec (stepPr true) initPr ops) (.probs prec)).2 =
        freshPr true (exec (stepPr true) initPr ops).config prec := by
  intro h
  have := h [.addComp 1, .withInput .bs 3 2, .probs none, .withInput .bs 4 1] none (by
    intro i hi
    simp [exec, run, stepPr, initPr, effFilter, autoFilter, simFor, SimG.withPrec, genMap] at hi
    subst hi
    simp [exec, run, stepPr, initPr, effFilter, autoFilter, simFor, SimG.withPrec, genMap])
  revert this
  decide

/-- a precision given to one call does not stick: `probs(precision = 5)` then `probs()` answers with the default
precision, `probs(precision = 5)` again with 5 — whatever was asked before -/
theorem processor_precision_not_sticky :
    (stepPr true (exec (stepPr true) initPr [.addComp 1, .setFilter 0, .withInput .bs 3 2, .probs (some 5)])
        (.probs none)).2 =
      .res ⟨1, 0, 0, 0, 0, some 0, .bs, 3, 0, 0, none⟩ ∧
    (stepPr true (exec (stepPr true) initPr [.addComp 1, .setFilter 0, .withInput .bs 3 2, .probs (some 5),
        .probs none]) (.probs (some 5))).2 =
      .res ⟨1, 0, 0, 0, 0, some 0, .bs, 3, 0, 0, some 5⟩ := by
  decide

/-- what the code does when a herald is added after the input and the input is not given again: the answer is
computed from the OLD merged input (heralds 0 written into it) under the NEW heralds (2), which no fresh
processor can reproduce — `inputCurrent` is necessary -/
theorem processor_herald_after_input_keeps_old_input :
    (stepPr true (exec (stepPr true) initPr [.addComp 1, .setFilter 0, .withInput .bs 3 2, .addHerald 2 1])
        (.probs none)).2 = .res ⟨1, 2, 0, 0, 0, some 0, .bs, 3, 0, 0, none⟩ ∧
    freshPr true (exec (stepPr true) initPr [.addComp 1, .setFilter 0, .withInput .bs 3 2, .addHerald 2 1]).config
        none = .res ⟨1, 2, 0, 0, 0, some 0, .bs, 3, 2, 0, none⟩ := by
  decide

/-! ### every query (`probs(precision)` and `samples`), and the code as it is without a hypothesis on the filter

  `Processor.samples` builds a NEW `NoisySamplingSimulator` at every call and hands it the linear circuit (phase
  noise of the last assignment), the stored photon filter, the current post-selection / heralds / detectors and
  the provider (`(_source, _input_state)` for a Fock-state input, `source_distribution` for a distribution).  The
  model's answer `.smp a` is that argument list; what the sampling simulator does with it is C09's.
-/

/-- EVERY query of the Processor machine — `probs(precision)` and `samples` — after any history answers what a
fresh processor given the final configuration answers (model in which the automatic filter is not stored) -/
theorem processor_any_query_eq_fresh (ops : List PrOp) (q : PrOp) (hq : q.isQuery = true)
    (hc : (exec (stepPr false) initPr ops).inputCurrent) :
    (stepPr false (exec (stepPr false) initPr ops) q).2 =
      freshPrQ false (exec (stepPr false) initPr ops).config q := by
  have hi := processor_inv_all_histories false ops
  rw [queryPr_spec_stored false _ q hq hi hc, configStored_eq false _ hi (hi.noauto rfl)]
  unfold freshPrQ
  obtain ⟨c1, c2, c3⟩ := canonPr_state false (exec (stepPr false) initPr ops).config
  have hj := processor_inv_all_histories false (canonPr (exec (stepPr false) initPr ops).config)
  rw [queryPr_spec_stored false _ q hq hj c2, configStored_eq false _ hj c3, c1]

/-- `samples` after any history (earlier `probs` / `samples` calls included) = fresh processor -/
theorem processor_samples_eq_fresh (ops : List PrOp)
    (hc : (exec (stepPr false) initPr ops).inputCurrent) :
    (stepPr false (exec (stepPr false) initPr ops) .samples).2 =
      freshPrQ false (exec (stepPr false) initPr ops).config .samples :=
  processor_any_query_eq_fresh ops _ rfl hc

/-- THE CODE AS IT IS (`stepPr true`), ALL histories with a current input, NO hypothesis on the filter: every
query answers what a fresh processor answers when it is given the final configuration in which the photon
filter is the STORED one (`Pr.configStored`: the value the user gave, or the automatic value an earlier query
wrote).  This is the exact content of the open finding `processor-auto-filter-persists`: the stored filter is
the ONLY thing that survives — components, heralds, post-selection, detectors, noise, input, precision are those
of the final configuration.  (`processor_query_eq_fresh_partial` is the special case `auto = false`, where
`configStored = config`.) -/
theorem processor_query_eq_fresh_given_stored_filter (ops : List PrOp) (q : PrOp) (hq : q.isQuery = true)
    (hc : (exec (stepPr true) initPr ops).inputCurrent) :
    (stepPr true (exec (stepPr true) initPr ops) q).2 =
      freshPrQ true (exec (stepPr true) initPr ops).configStored q := by
  have hi := processor_inv_all_histories true ops
  rw [queryPr_spec_stored true _ q hq hi hc]
  unfold freshPrQ
  obtain ⟨c1, c2, c3⟩ := canonPr_state true (exec (stepPr true) initPr ops).configStored
  have hj := processor_inv_all_histories true (canonPr (exec (stepPr true) initPr ops).configStored)
  rw [queryPr_spec_stored true _ q hq hj c2, configStored_eq true _ hj c3, c1]

/-- closed form for the code as it is: a function of the final configuration and the stored filter -/
theorem processor_query_closed_form_stored (ops : List PrOp) (q : PrOp) (hq : q.isQuery = true)
    (hc : (exec (stepPr true) initPr ops).inputCurrent) :
    (stepPr true (exec (stepPr true) initPr ops) q).2 =
      specPrQ (exec (stepPr true) initPr ops).configStored q :=
  queryPr_spec_stored true _ q hq (processor_inv_all_histories true ops) hc

/-- two histories of the code as it is that end in the same configuration AND the same stored filter give the
same answer to every query -/
theorem processor_history_independent_given_stored_filter (h₁ h₂ : List PrOp) (q : PrOp) (hq : q.isQuery = true)
    (c₁ : (exec (stepPr true) initPr h₁).inputCurrent) (c₂ : (exec (stepPr true) initPr h₂).inputCurrent)
    (hc : (exec (stepPr true) initPr h₁).configStored = (exec (stepPr true) initPr h₂).configStored) :
    (stepPr true (exec (stepPr true) initPr h₁) q).2 = (stepPr true (exec (stepPr true) initPr h₂) q).2 := by
  rw [processor_query_eq_fresh_given_stored_filter _ _ hq c₁, processor_query_eq_fresh_given_stored_filter _ _ hq c₂, hc]

/-- what persists, 1: once a filter is stored (by the user or by the automatic rule) no operation other than
`min_detected_photons_filter(k)` changes it — whatever inputs, noise models, components, heralds and queries
follow -/
theorem processor_stored_filter_persists (s : Pr) (ops : List PrOp) (f : Nat) (hf : s.filt = some f)
    (hno : ∀ op ∈ ops, op.setsFilter = false) :
    (exec (stepPr true) s ops).filt = some f := by
  induction ops generalizing s with
  | nil => simpa [exec_nil] using hf
  | cons op rest ih =>
    rw [exec_cons]
    exact ih _ (stored_filter_step s op f hf (hno op (by simp))) (fun o ho => hno o (by simp [ho]))

/-- what persists, 2: the value.  The first query (`probs` or `samples`) answered for a Fock-state input on a
perfect source while no filter is stored writes the photon number of that input on the modes of interest, and
marks it as automatic -/
theorem processor_first_query_stores_automatic_filter (s : Pr) (q : PrOp) (hq : q.isQuery = true) (i : PrIn)
    (hi : s.input = some i) (hk : i.kind = .bs) (hp : s.source.2 = true) (hn : s.filt = none) :
    (stepPr true s q).1.filt = some (i.n + i.nHer - s.nHer) ∧ (stepPr true s q).1.auto = true := by
  cases q with
  | probs prec => simp [stepPr, hi, effFilter, autoFilter, hn, hp, hk]
  | samples => simp [stepPr, hi, effFilter, autoFilter, hn, hp, hk]
  | _ => simp [PrOp.isQuery] at hq

/-- non-vacuity of the two: a history in which the automatic value (2 photons) is stored by `samples`, survives a
noise assignment, an added component and a smaller input, and is applied by the next `samples` and `probs` -/
example : (exec (stepPr true) initPr [.addComp 1, .withInput .bs 3 2, .samples, .setNoise (2, false), .addComp 2,
      .withInput .bs 4 1]).filt = some 2 ∧
    (stepPr true (exec (stepPr true) initPr [.addComp 1, .withInput .bs 3 2, .samples, .setNoise (2, false),
      .addComp 2, .withInput .bs 4 1]) .samples).2 = .smp ⟨2, 0, 0, 0, 2, some 2, .bs, 4, 0, 2, none⟩ ∧
    freshPrQ true (exec (stepPr true) initPr [.addComp 1, .withInput .bs 3 2, .samples, .setNoise (2, false),
      .addComp 2, .withInput .bs 4 1]).configStored .samples = .smp ⟨2, 0, 0, 0, 2, some 2, .bs, 4, 0, 2, none⟩ := by
  decide

/-- the open finding is reachable through `samples` as well: the automatic filter of a first `samples()`
(2 photons) is applied to a later input with 1 photon, for which a fresh processor chooses 1 -/
theorem processor_auto_filter_fails_on_current_code_samples :
    (stepPr true (exec (stepPr true) initPr [.addComp 1, .withInput .bs 3 2, .samples, .withInput .bs 4 1])
        .samples).2 = .smp ⟨1, 0, 0, 0, 0, some 0, .bs, 4, 0, 2, none⟩ ∧
    freshPrQ true (exec (stepPr true) initPr [.addComp 1, .withInput .bs 3 2, .samples, .withInput .bs 4 1]).config
        .samples = .smp ⟨1, 0, 0, 0, 0, some 0, .bs, 4, 0, 1, none⟩ := by
  decide

/-- `samples` keeps nothing of its own: it does not build or drop the kept simulator, and it reads the heralds and
the post-selection of NOW (a `probs` simulator built earlier for other ones is irrelevant) -/
example : (stepPr true (exec (stepPr true) initPr [.addComp 1, .setFilter 0, .withInput .bs 3 2, .probs (some 5),
      .setPs 4]) .samples).2 = .smp ⟨1, 0, 4, 0, 0, some 0, .bs, 3, 0, 0, none⟩ := by
  decide

/-! ### a NoiseModel updated in place while the processor holds it

  `nm.set_value(…)` on the object last assigned to `processor.noise`: `processor.noise` shows the new values
  at once, but nothing the simulation reads is refreshed (`_source`, the phase-noise snapshot, `_inputs_map`)
  until the object is assigned again.  What IS guaranteed, for all histories: the answer is the one of a fresh
  processor given the values of the last assignment (`Pr.config` carries `noise`, not `held` —
  `processor_query_eq_fresh`), in-place updates are never observed, and without a pending update the answer is
  the one for the values shown.
-/

/-- an in-place update of the held NoiseModel changes no answer -/
theorem processor_inplace_noise_unobserved (persist : Bool) (ops : List PrOp) (v : NoiseV) (prec : Option Nat) :
    (stepPr persist (exec (stepPr persist) initPr (ops ++ [.mutateNoise v])) (.probs prec)).2 =
      (stepPr persist (exec (stepPr persist) initPr ops) (.probs prec)).2 := by
  rw [exec_append]
  generalize exec (stepPr persist) initPr ops = s
  simp only [exec, run, stepPr, effFilter, simFor]
  cases s.input with
  | none => rfl
  | some i =>
    simp only []
    cases autoFilter s.filt s.source.2 i.kind (i.n + i.nHer - s.nHer) <;> rfl

/-- … nor any later one: whatever follows (`rest`: further operations and queries), every output is the same
with and without the in-place update — no operation of the processor reads the held object -/
theorem processor_inplace_noise_never_observed (persist : Bool) (ops rest : List PrOp) (v : NoiseV) :
    (run (stepPr persist) (exec (stepPr persist) initPr (ops ++ [.mutateNoise v])) rest).2 =
      (run (stepPr persist) (exec (stepPr persist) initPr ops) rest).2 := by
  rw [exec_append]
  generalize exec (stepPr persist) initPr ops = s
  have hrel : sameButHeld (exec (stepPr persist) s [.mutateNoise v]) s := ⟨s.held, rfl⟩
  exact (refine_run (stepPr persist) (stepPr persist) sameButHeld
    (fun a b op h => sameButHeld_step persist a b op h) _ _ hrel rest).2

/-- without a pending in-place update, the answer is the one of a fresh processor given the configuration
`processor.noise` shows -/
theorem processor_query_eq_fresh_shown (ops : List PrOp) (prec : Option Nat)
    (hc : (exec (stepPr false) initPr ops).inputCurrent)
    (hd : ¬ (exec (stepPr false) initPr ops).dirty) :
    (stepPr false (exec (stepPr false) initPr ops) (.probs prec)).2 =
      freshPr false (exec (stepPr false) initPr ops).shown prec := by
  have : (exec (stepPr false) initPr ops).shown = (exec (stepPr false) initPr ops).config := by
    unfold Pr.dirty at hd
    have hh : (exec (stepPr false) initPr ops).held = (exec (stepPr false) initPr ops).noise :=
      Classical.not_not.mp hd
    simp [Pr.shown, hh, Pr.config]
  rw [this]
  exact processor_query_eq_fresh ops prec hc

/-- with a pending update the answer is NOT the one for the values shown: it still carries the noise of the
last assignment (1), a fresh processor given the shown values (2) answers for 2 -/
theorem processor_inplace_noise_not_observed_witness :
    (stepPr true (exec (stepPr true) initPr
        [.addComp 1, .setFilter 0, .setNoise (1, false), .withInput .bs 3 2, .probs none, .mutateNoise (2, false)])
        (.probs none)).2 = .res ⟨1, 0, 0, 0, 1, some 1, .bs, 3, 0, 0, none⟩ ∧
    freshPr true (exec (stepPr true) initPr
        [.addComp 1, .setFilter 0, .setNoise (1, false), .withInput .bs 3 2, .probs none,
         .mutateNoise (2, false)]).shown none = .res ⟨1, 0, 0, 0, 2, some 2, .bs, 3, 0, 0, none⟩ ∧
    -- assigning the object again refreshes everything
    (stepPr true (exec (stepPr true) initPr
        [.addComp 1, .setFilter 0, .setNoise (1, false), .withInput .bs 3 2, .probs none, .mutateNoise (2, false),
         .setNoise (2, false)]) (.probs none)).2 = .res ⟨1, 0, 0, 0, 2, some 2, .bs, 3, 0, 0, none⟩ := by
  decide

/-- a distribution given as input bypasses the source: a later noise assignment changes the phase noise only -/
theorem processor_distribution_input_keeps_map :
    (stepPr true (exec (stepPr true) initPr
        [.addComp 1, .setFilter 0, .withInput .svd 3 0, .probs none, .setNoise (2, false)]) (.probs none)).2 =
      .res ⟨1, 0, 0, 0, 2, none, .svd, 3, 0, 0, none⟩ := by
  decide

/-! ## Backends: Naive, SLAP, SLOS, MPS (repaired code, `fixed = true`)

  `InvB` (Lemmas/C05Backend.lean): every iterator entry, SLOS layer / FS array / path, the SLOS mask instance,
  the SLAP Fock space and the MPS compiled result carry the ghost of the current circuit, mask instance and
  cut-off.  It is preserved by every operation of `stepB true` for every kind (`invB_step`), under it a query
  has the closed form `ansB kind config` (`queryB_ans`), and the canonical sequence reproduces every reachable
  configuration (`config_canonB`, `wf_of_invB`).
-/

/-- the invariant holds after every history, for every backend kind -/
theorem backend_inv_all_histories (k : Kind) (ops : List Op) : InvB (exec (stepB true) (initB k) ops) :=
  inv_exec _ InvB (fun s op h => invB_step s op h) _ (invB_init k) ops

/-- in ANY state satisfying the invariant, every query (`prob_distribution`, `all_prob`, `evolve`,
`prob_amplitude` / `probability` with the same or another photon number) answers what a freshly constructed
backend of the same kind, given only the configuration, answers -/
theorem backend_query_eq_fresh (s : B) (q : Q) (h : InvB s) :
    (stepB true s (.query q)).2 = freshB true s.kind s.config q := by
  have hf := backend_inv_all_histories s.kind (canonB s.config)
  unfold freshB
  simp only [stepB]
  rw [queryB_ans s q h, queryB_ans _ q hf, exec_kind, config_canonB _ _ (wf_of_invB s h)]
  rfl

/-- the full statement: after ANY history, for every kind and every query -/
theorem backend_query_eq_fresh_all_histories (k : Kind) (ops : List Op) (q : Q) :
    (stepB true (exec (stepB true) (initB k) ops) (.query q)).2 =
      freshB true k (exec (stepB true) (initB k) ops).config q := by
  have := backend_query_eq_fresh _ q (backend_inv_all_histories k ops)
  rwa [exec_kind] at this

/-- two histories ending in the same configuration give the same answer -/
theorem backend_history_independent (k : Kind) (h₁ h₂ : List Op) (q : Q)
    (hc : (exec (stepB true) (initB k) h₁).config = (exec (stepB true) (initB k) h₂).config) :
    (stepB true (exec (stepB true) (initB k) h₁) (.query q)).2 =
      (stepB true (exec (stepB true) (initB k) h₂) (.query q)).2 := by
  rw [backend_query_eq_fresh_all_histories, backend_query_eq_fresh_all_histories, hc]

/-- non-vacuity of `InvB`: the initial state, hence (by `backend_inv_all_histories`) every reachable state -/
example (k : Kind) : InvB (initB k) := invB_init k

/-- non-vacuity: different histories (mask set late / early, intermediate inputs with another photon number,
intermediate queries filling the caches) with the same final configuration, for SLOS and MPS -/
example : (exec (stepB true) (initB .slos)
      [.setCircuit ⟨2, 1⟩, .setInput [1, 1], .query .dist, .setMask 1 2 none, .setInput [1, 0], .query .dist,
       .setInput [1, 1]]).config =
    (exec (stepB true) (initB .slos) [.setMask 1 2 none, .setCircuit ⟨2, 1⟩, .setInput [1, 1]]).config := by
  decide

example : (exec (stepB true) (initB .mps)
      [.setCircuit ⟨4, 1⟩, .setInput [1, 1, 1, 0], .query .dist, .setCutoff 2, .setInput [1, 1, 0, 0]]).config =
    (exec (stepB true) (initB .mps) [.setCutoff 2, .setCircuit ⟨4, 1⟩, .setInput [1, 1, 0, 0]]).config := by
  decide

/-- the code of the pinned tree does not have the property (SLOS: mask set after the input) -/
theorem backend_fails_on_current_code :
    ¬ ∀ (k : Kind) (ops : List Op) (q : Q),
      (stepB false (exec (stepB false) (initB k) ops) (.query q)).2 =
        freshB false k (exec (stepB false) (initB k) ops).config q := by
  intro h
  have := h .slos [.setCircuit ⟨2, 1⟩, .setInput [1, 1], .setMask 1 2 none] .dist
  revert this
  decide

/-! ### witnesses: the histories on which the code of the pinned tree leaves the property -/

/-- SLOS, code of the pinned tree: `set_circuit; set_input_state; set_mask; prob_distribution()` raises
`KeyError` whereas a fresh backend returns a distribution -/
theorem slos_mask_fails_on_current_code :
    (stepB false (exec (stepB false) (initB .slos)
        [.setCircuit ⟨2, 1⟩, .setInput [1, 1], .setMask 1 2 none]) (.query .dist)).2 = .exc "KeyError" ∧
    freshB false .slos ⟨some ⟨2, 1⟩, some [1, 1], some ⟨1, 2, none⟩, none⟩ .dist =
      .res 1 [1, 1] (2, some (1, 2)) none := by
  decide

/-- same history, repaired code: the answer of a fresh backend -/
theorem slos_mask_fixed_witness :
    (stepB true (exec (stepB true) (initB .slos)
        [.setCircuit ⟨2, 1⟩, .setInput [1, 1], .setMask 1 2 none]) (.query .dist)).2 =
    freshB true .slos ⟨some ⟨2, 1⟩, some [1, 1], some ⟨1, 2, none⟩, none⟩ .dist := by
  decide

/-- SLOS, code of the pinned tree: under a mask without explicit `n`, an input with another photon number
re-instantiates the mask while the layers deployed for the previous instance are kept -/
theorem slos_mask_instance_fails_on_current_code :
    (stepB false (exec (stepB false) (initB .slos)
        [.setMask 1 2 none, .setCircuit ⟨2, 1⟩, .setInput [1, 0], .setInput [1, 1]]) (.query .dist)).2 = .stale ∧
    (stepB true (exec (stepB true) (initB .slos)
        [.setMask 1 2 none, .setCircuit ⟨2, 1⟩, .setInput [1, 0], .setInput [1, 1]]) (.query .dist)).2 =
      freshB true .slos ⟨some ⟨2, 1⟩, some [1, 1], some ⟨1, 2, none⟩, none⟩ .dist := by
  decide

/-- MPS, code of the pinned tree: the bond dimension raised for a 3-photon input is kept for a later
2-photon input (4 instead of the 3 a fresh backend uses) -/
theorem mps_cutoff_fails_on_current_code :
    (stepB false (exec (stepB false) (initB .mps)
        [.setCircuit ⟨4, 1⟩, .setInput [1, 1, 1, 0], .setInput [1, 1, 0, 0]]) (.query .dist)).2 =
      .res 1 [1, 1, 0, 0] (4, none) (some 4) ∧
    freshB false .mps ⟨some ⟨4, 1⟩, some [1, 1, 0, 0], none, none⟩ .dist =
      .res 1 [1, 1, 0, 0] (4, none) (some 3) ∧
    (stepB true (exec (stepB true) (initB .mps)
        [.setCircuit ⟨4, 1⟩, .setInput [1, 1, 1, 0], .setInput [1, 1, 0, 0]]) (.query .dist)).2 =
      .res 1 [1, 1, 0, 0] (4, none) (some 3) := by
  decide

/-! ## Wave 7: the configuration is a function of the history alone; `inputCurrent` from the shape of the history

  For Stepper, Simulator and the backends the configuration after a history is computed by a cache-free machine
  on configurations (`cfgStepSt`, `cfgStepSi`, `cfgStepB k`, Lemmas/C05More.lean): a query never changes it and a
  setter's effect (refusals included) depends on the configuration only.  With the `…_query_eq_fresh` theorems
  this gives the answer after ANY history as a closed function of the history, and makes earlier queries
  irrelevant: deleting every query from a history changes no later answer.
-/

/-- Stepper: the configuration after any history (either variant of the code) is the fold of the cache-free
configuration machine -/
theorem stepper_config_of_history (fixed : Bool) (ops : List StOp) :
    (exec (stepSt fixed) initSt ops).config = ops.foldl cfgStepSt ⟨none, 0, 0⟩ :=
  exec_config_fold (stepSt fixed) St.config cfgStepSt (stepSt_config fixed) initSt ops

/-- Stepper, end to end: the answer after any history is the answer of a fresh Stepper given the configuration
the cache-free machine computes from the history -/
theorem stepper_answer_of_history (ops : List StOp) (inp : Nat) :
    (stepSt true (exec (stepSt true) initSt ops) (.evolve inp)).2 =
      freshSt true (ops.foldl cfgStepSt ⟨none, 0, 0⟩) inp := by
  rw [stepper_query_eq_fresh, stepper_config_of_history]

/-- Stepper: earlier `evolve` calls are irrelevant — deleting them from the history changes no answer -/
theorem stepper_earlier_queries_irrelevant (ops : List StOp) (inp : Nat) :
    (stepSt true (exec (stepSt true) initSt ops) (.evolve inp)).2 =
      (stepSt true (exec (stepSt true) initSt (ops.filter fun op => !op.isQuery)) (.evolve inp)).2 := by
  apply stepper_history_independent
  rw [stepper_config_of_history, stepper_config_of_history,
    foldl_filter_query cfgStepSt StOp.isQuery cfgStepSt_query]

/-- Simulator: the configuration after any history (either variant of the code) -/
theorem simulator_config_of_history (fixed : Bool) (ops : List SiOp) :
    (exec (stepSi fixed) initSi ops).config = ops.foldl cfgStepSi ⟨none, 0, 0, 0⟩ :=
  exec_config_fold (stepSi fixed) Si.config cfgStepSi (stepSi_config fixed) initSi ops

/-- Simulator, end to end: every query after any history has the closed form `specSiQ` of the configuration the
cache-free machine computes from the history -/
theorem simulator_answer_of_history (ops : List SiOp) (q : SiOp) (hq : q.isQuery = true) :
    (stepSi true (exec (stepSi true) initSi ops) q).2 = specSiQ (ops.foldl cfgStepSi ⟨none, 0, 0, 0⟩) q := by
  rw [simulator_query_closed_form ops q hq, simulator_config_of_history]

/-- Simulator: earlier queries of any kind (`probs_svd`, `evolve`, `evolve_svd`, `probs`, `probability`,
`prob_amplitude`) are irrelevant — deleting them from the history changes no answer -/
theorem simulator_earlier_queries_irrelevant (ops : List SiOp) (q : SiOp) (hq : q.isQuery = true) :
    (stepSi true (exec (stepSi true) initSi ops) q).2 =
      (stepSi true (exec (stepSi true) initSi (ops.filter fun op => !op.isQuery)) q).2 := by
  apply simulator_history_independent _ _ q hq
  rw [simulator_config_of_history, simulator_config_of_history,
    foldl_filter_query cfgStepSi SiOp.isQuery cfgStepSi_query]

/-- Backends: the configuration after any history, from any state of kind `k` -/
theorem backend_config_of_history_from (k : Kind) (ops : List Op) (s : B) (hk : s.kind = k) :
    (exec (stepB true) s ops).config = ops.foldl (cfgStepB k) s.config := by
  induction ops generalizing s with
  | nil => rfl
  | cons x xs ih =>
    rw [exec_cons, ih _ (by rw [stepB_kind, hk]), stepB_config, hk, List.foldl_cons]

theorem backend_config_of_history (k : Kind) (ops : List Op) :
    (exec (stepB true) (initB k) ops).config = ops.foldl (cfgStepB k) ⟨none, none, none, none⟩ :=
  backend_config_of_history_from k ops (initB k) rfl

/-- Backends, end to end: for every kind, every history and every query the answer is the closed form `ansB` of
the configuration the cache-free machine computes from the history (refused operations included) -/
theorem backend_answer_of_history (k : Kind) (ops : List Op) (q : Q) :
    (stepB true (exec (stepB true) (initB k) ops) (.query q)).2 =
      ansB k (ops.foldl (cfgStepB k) ⟨none, none, none, none⟩) q := by
  have := queryB_ans _ q (backend_inv_all_histories k ops)
  rw [exec_kind, backend_config_of_history] at this
  exact this

/-- Backends: earlier queries are irrelevant — deleting them from the history changes no answer -/
theorem backend_earlier_queries_irrelevant (k : Kind) (ops : List Op) (q : Q) :
    (stepB true (exec (stepB true) (initB k) ops) (.query q)).2 =
      (stepB true (exec (stepB true) (initB k) (ops.filter fun op => !op.isQuery)) (.query q)).2 := by
  apply backend_history_independent
  rw [backend_config_of_history, backend_config_of_history,
    foldl_filter_query (cfgStepB k) Op.isQuery (cfgStepB_query k)]

/-- non-vacuity: a history whose queries fill every cache, and the same history without them -/
example : ([Op.setCircuit ⟨2, 1⟩, .setInput [1, 1], .query .dist, .setMask 1 2 none, .query .amp,
      .setInput [1, 0]].filter fun op => !op.isQuery) =
    [Op.setCircuit ⟨2, 1⟩, .setInput [1, 1], .setMask 1 2 none, .setInput [1, 0]] := rfl

/-! ### Processor: the hypothesis `inputCurrent` discharged from the shape of the history

  `inputTracked ops`: reading the history left to right, no `add_herald` comes after the last `with_input`
  (decidable on the history; `true` for a history without `add_herald`, and for one that ends in `with_input`).
-/

/-- `inputCurrent` holds after every tracked history (both variants of the model) -/
theorem processor_input_current_of_tracked (persist : Bool) (ops : List PrOp) (h : inputTracked ops = true) :
    (exec (stepPr persist) initPr ops).inputCurrent :=
  inputCurrent_of_tracked persist ops h

/-- `processor_any_query_eq_fresh` with its hypothesis replaced by a decidable condition on the history -/
theorem processor_any_query_eq_fresh_tracked (ops : List PrOp) (q : PrOp) (hq : q.isQuery = true)
    (ht : inputTracked ops = true) :
    (stepPr false (exec (stepPr false) initPr ops) q).2 =
      freshPrQ false (exec (stepPr false) initPr ops).config q :=
  processor_any_query_eq_fresh ops q hq (inputCurrent_of_tracked false ops ht)

/-- the code as it is: `processor_query_eq_fresh_given_stored_filter` for every tracked history -/
theorem processor_query_eq_fresh_given_stored_filter_tracked (ops : List PrOp) (q : PrOp) (hq : q.isQuery = true)
    (ht : inputTracked ops = true) :
    (stepPr true (exec (stepPr true) initPr ops) q).2 =
      freshPrQ true (exec (stepPr true) initPr ops).configStored q :=
  processor_query_eq_fresh_given_stored_filter ops q hq (inputCurrent_of_tracked true ops ht)

/-- non-vacuity: a tracked history with a herald declared late and the input given again, and an untracked one
(the history of `processor_herald_after_input_keeps_old_input`, on which the conclusion fails) -/
example : inputTracked [.addComp 1, .withInput .bs 3 2, .probs none, .addHerald 2 1, .withInput .bs 3 2,
      .setNoise (2, false), .samples] = true ∧
    inputTracked [.addComp 1, .setFilter 0, .withInput .bs 3 2, .addHerald 2 1] = false := by decide

/-- what `inputCurrent` is needed for, exactly: after ANY history that leaves a Fock-state input and a filter
given by the user, `probs(precision)` answers what a fresh processor answers IF AND ONLY IF the heralds written
into the merged input by the last `with_input` are the current ones (everything else — components, heralds,
post-selection, detectors, noise, filter, precision — is current unconditionally) -/
theorem processor_query_eq_fresh_iff_heralds_current (ops : List PrOp) (prec : Option Nat) (i : PrIn) (f : Nat)
    (hi : (exec (stepPr false) initPr ops).input = some i) (hk : i.kind = .bs)
    (hf : (exec (stepPr false) initPr ops).filtUser = some f) :
    (stepPr false (exec (stepPr false) initPr ops) (.probs prec)).2 =
        freshPr false (exec (stepPr false) initPr ops).config prec ↔
      i.her = (exec (stepPr false) initPr ops).her := by
  have hinv := processor_inv_all_histories false ops
  have hfresh : freshPr false (exec (stepPr false) initPr ops).config prec =
      specPr (exec (stepPr false) initPr ops).config prec := by
    unfold freshPr
    obtain ⟨c1, c2, c3⟩ := canonPr_state false (exec (stepPr false) initPr ops).config
    rw [probsPr_spec false _ prec (processor_inv_all_histories false _) c2 c3, c1]
  have hfs : (exec (stepPr false) initPr ops).filt = some f := by
    rw [hinv.filt (hinv.noauto rfl)]; exact hf
  rw [hfresh, probsPr_raw false _ prec hinv i f hi hk hfs, specPr_bs_filter _ prec i f hi hk hf]
  simp

/-- non-vacuity of the `iff`: both sides false on the history of `processor_herald_after_input_keeps_old_input` -/
example : (exec (stepPr false) initPr [.addComp 1, .setFilter 0, .withInput .bs 3 2, .addHerald 2 1]).input =
      some ⟨.bs, 3, 2, 0, 0⟩ ∧
    (exec (stepPr false) initPr [.addComp 1, .setFilter 0, .withInput .bs 3 2, .addHerald 2 1]).filtUser = some 0 ∧
    (exec (stepPr false) initPr [.addComp 1, .setFilter 0, .withInput .bs 3 2, .addHerald 2 1]).her = 2 := by
  decide

/-! ## Wave 10: the cache-free machine of the Processor; earlier queries are irrelevant

  `Pr.config` is not closed under the setters (`with_input` reads the heralds of that moment), so the cache-free
  machine `uStepPr` (Lemmas/C05W10.lean) runs on the user state `PrU` = everything the user's calls wrote
  (components, heralds, post-selection, detectors, noise ghosts, merged input, filter asked for) and nothing a
  query writes (stored filter, `auto`, `_inputs_map`, `_simulator`, `_simulator_precision_set`).  `Pr.config` and
  `Pr.inputCurrent` are read off it.
-/

/-- Processor: the user state after any history (either variant of the code) is the fold of the cache-free
machine -/
theorem processor_user_state_of_history (persist : Bool) (ops : List PrOp) :
    (exec (stepPr persist) initPr ops).user = ops.foldl uStepPr initPr.user :=
  exec_user_fold persist initPr ops

/-- Processor: the configuration after any history (either variant of the code) is a function of the history
alone, computed without any cache -/
theorem processor_config_of_history (persist : Bool) (ops : List PrOp) :
    (exec (stepPr persist) initPr ops).config = (ops.foldl uStepPr initPr.user).config := by
  rw [← user_config, processor_user_state_of_history]

/-- Processor: `inputCurrent` after any history is the same condition on the user state the cache-free machine
computes -/
theorem processor_input_current_of_history (persist : Bool) (ops : List PrOp) :
    (exec (stepPr persist) initPr ops).inputCurrent ↔ (ops.foldl uStepPr initPr.user).inputCurrent := by
  rw [← user_inputCurrent, processor_user_state_of_history]

/-- Processor, end to end (model in which the automatic filter is not stored): every query after any history
answers what a fresh processor answers when given the configuration the cache-free machine computes from the
history; the hypothesis is a condition on that machine's state only -/
theorem processor_answer_of_history (ops : List PrOp) (q : PrOp) (hq : q.isQuery = true)
    (hc : (ops.foldl uStepPr initPr.user).inputCurrent) :
    (stepPr false (exec (stepPr false) initPr ops) q).2 =
      freshPrQ false (ops.foldl uStepPr initPr.user).config q := by
  rw [processor_any_query_eq_fresh ops q hq ((processor_input_current_of_history false ops).2 hc),
    processor_config_of_history]

/-- Processor (model in which the automatic filter is not stored): earlier queries — `probs` with or without a
precision, `samples` — are irrelevant: deleting them from the history changes no answer -/
theorem processor_earlier_queries_irrelevant (ops : List PrOp) (q : PrOp) (hq : q.isQuery = true)
    (hc : (exec (stepPr false) initPr ops).inputCurrent) :
    (stepPr false (exec (stepPr false) initPr ops) q).2 =
      (stepPr false (exec (stepPr false) initPr (ops.filter fun op => !op.isQuery)) q).2 := by
  have hu := exec_user_filter false initPr ops
  have hcfg : (exec (stepPr false) initPr (ops.filter fun op => !op.isQuery)).config =
      (exec (stepPr false) initPr ops).config := by
    rw [← user_config, ← user_config, hu]
  have hc' : (exec (stepPr false) initPr (ops.filter fun op => !op.isQuery)).inputCurrent :=
    (user_inputCurrent _).1 (by rw [hu]; exact (user_inputCurrent _).2 hc)
  rw [processor_any_query_eq_fresh ops q hq hc, processor_any_query_eq_fresh _ q hq hc', hcfg]

/-- the same with the hypothesis replaced by the decidable condition on the history -/
theorem processor_earlier_queries_irrelevant_tracked (ops : List PrOp) (q : PrOp) (hq : q.isQuery = true)
    (ht : inputTracked ops = true) :
    (stepPr false (exec (stepPr false) initPr ops) q).2 =
      (stepPr false (exec (stepPr false) initPr (ops.filter fun op => !op.isQuery)) q).2 :=
  processor_earlier_queries_irrelevant ops q hq (inputCurrent_of_tracked false ops ht)

/-- non-vacuity: a tracked history whose queries fill the simulator, the inputs map and the precision flag, and
the same history without them -/
example : inputTracked [.addComp 1, .withInput .bs 3 2, .probs (some 5), .samples, .setPs 4, .probs none,
      .withInput .bs 4 1] = true ∧
    ([PrOp.addComp 1, .withInput .bs 3 2, .probs (some 5), .samples, .setPs 4, .probs none,
      .withInput .bs 4 1].filter fun op => !op.isQuery) =
      [PrOp.addComp 1, .withInput .bs 3 2, .setPs 4, .withInput .bs 4 1] := by
  exact ⟨by decide, rfl⟩

/-- the code as it is (`stepPr true`) does NOT have this property, even on tracked histories: the first
`probs()` stores the automatic filter (2 photons), so the answer for the later 1-photon input differs from the
answer of the same history without that query (the open finding `processor-auto-filter-persists`) -/
theorem processor_earlier_queries_relevant_on_current_code :
    ¬ ∀ (ops : List PrOp) (q : PrOp), q.isQuery = true → inputTracked ops = true →
      (stepPr true (exec (stepPr true) initPr ops) q).2 =
        (stepPr true (exec (stepPr true) initPr (ops.filter fun op => !op.isQuery)) q).2 := by
  intro h
  have := h [.addComp 1, .withInput .bs 3 2, .probs none, .withInput .bs 4 1] (.probs none) rfl (by decide)
  revert this
  decide

/-! ### the `iff` for `inputCurrent` when NO user filter is stored

  Without a user filter the automatic value is computed at every call (model `stepPr false`) from the photons of
  the merged input minus the photons of the CURRENT heralds, so besides the herald identifier written into the
  input the herald photon counts matter — exactly through `i.n + i.nHer - nHer = i.n` (truncated subtraction:
  the old heralds' photons may be fewer than the new ones').
-/

/-- after ANY history that leaves a Fock-state input, no user filter and a perfect source, `probs(precision)`
answers what a fresh processor answers IF AND ONLY IF the heralds written into the merged input are the current
ones and the automatic photon count computed from the merged input is the user's photon count -/
theorem processor_query_eq_fresh_iff_heralds_current_auto (ops : List PrOp) (prec : Option Nat) (i : PrIn)
    (hi : (exec (stepPr false) initPr ops).input = some i) (hk : i.kind = .bs)
    (hf : (exec (stepPr false) initPr ops).filtUser = none)
    (hp : (exec (stepPr false) initPr ops).noise.2 = true) :
    (stepPr false (exec (stepPr false) initPr ops) (.probs prec)).2 =
        freshPr false (exec (stepPr false) initPr ops).config prec ↔
      i.her = (exec (stepPr false) initPr ops).her ∧
        i.n + i.nHer - (exec (stepPr false) initPr ops).nHer = i.n := by
  have hinv := processor_inv_all_histories false ops
  have hfresh : freshPr false (exec (stepPr false) initPr ops).config prec =
      specPr (exec (stepPr false) initPr ops).config prec := by
    unfold freshPr
    obtain ⟨c1, c2, c3⟩ := canonPr_state false (exec (stepPr false) initPr ops).config
    rw [probsPr_spec false _ prec (processor_inv_all_histories false _) c2 c3, c1]
  have hfs : (exec (stepPr false) initPr ops).filt = none := by
    rw [hinv.filt (hinv.noauto rfl)]; exact hf
  rw [hfresh, probsPr_raw_auto false _ prec hinv i hi hk hfs hp, specPr_bs_auto _ prec i hi hk hf hp]
  simp

/-- non-vacuity, and the photon-count clause is not implied by the first one: after
`add_herald(2, 1 photon)` the old input fails both clauses; after a herald change that keeps the identifier but
not the photon count only the second one fails -/
example : (exec (stepPr false) initPr [.addComp 1, .withInput .bs 3 2, .addHerald 2 1]).input =
      some ⟨.bs, 3, 2, 0, 0⟩ ∧
    (exec (stepPr false) initPr [.addComp 1, .withInput .bs 3 2, .addHerald 2 1]).filtUser = none ∧
    (exec (stepPr false) initPr [.addComp 1, .withInput .bs 3 2, .addHerald 2 1]).noise.2 = true ∧
    (exec (stepPr false) initPr [.addComp 1, .withInput .bs 3 2, .addHerald 2 1]).her = 2 ∧
    (exec (stepPr false) initPr [.addComp 1, .addHerald 2 1, .withInput .bs 3 2, .addHerald 2 2]).input =
      some ⟨.bs, 3, 2, 2, 1⟩ ∧
    (exec (stepPr false) initPr [.addComp 1, .addHerald 2 1, .withInput .bs 3 2, .addHerald 2 2]).her = 2 ∧
    (exec (stepPr false) initPr [.addComp 1, .addHerald 2 1, .withInput .bs 3 2, .addHerald 2 2]).nHer = 2 := by
  decide

/-- no user filter and an IMPERFECT source: `probs` is refused (ValueError) on the long-lived processor and on
the fresh one alike — there `inputCurrent` is not needed at all -/
theorem processor_query_eq_fresh_imperfect_no_filter (ops : List PrOp) (prec : Option Nat) (i : PrIn)
    (hi : (exec (stepPr false) initPr ops).input = some i)
    (hf : (exec (stepPr false) initPr ops).filtUser = none)
    (hp : (exec (stepPr false) initPr ops).noise.2 = false) :
    (stepPr false (exec (stepPr false) initPr ops) (.probs prec)).2 =
        freshPr false (exec (stepPr false) initPr ops).config prec := by
  have hinv := processor_inv_all_histories false ops
  have hfresh : freshPr false (exec (stepPr false) initPr ops).config prec =
      specPr (exec (stepPr false) initPr ops).config prec := by
    unfold freshPr
    obtain ⟨c1, c2, c3⟩ := canonPr_state false (exec (stepPr false) initPr ops).config
    rw [probsPr_spec false _ prec (processor_inv_all_histories false _) c2 c3, c1]
  have hfs : (exec (stepPr false) initPr ops).filt = none := by
    rw [hinv.filt (hinv.noauto rfl)]; exact hf
  rw [hfresh, probsPr_raw_imperfect false _ prec hinv i hi hfs hp, specPr_imperfect _ prec i hi hf hp]

/-- non-vacuity: an imperfect source, a herald added after the input, no filter -/
example : (exec (stepPr false) initPr [.addComp 1, .setNoise (2, false), .withInput .bs 3 2, .addHerald 2 1]).input =
      some ⟨.bs, 3, 2, 0, 0⟩ ∧
    (exec (stepPr false) initPr [.addComp 1, .setNoise (2, false), .withInput .bs 3 2, .addHerald 2 1]).filtUser =
      none ∧
    (exec (stepPr false) initPr [.addComp 1, .setNoise (2, false), .withInput .bs 3 2, .addHerald 2 1]).noise.2 =
      false := by
  decide

/-
  What is still outside the model (validated by the correspondence only, or not generated at all):
  * the numbers (answers are provenance); that masked and unmasked evaluation agree after herald post-selection
    (C04); which vectors of an `evolve_svd` input pass the photon filter and what `_preprocess_svd` trims (the
    driver is given the flags / inputs are generated so that nothing is trimmed);
  * `Simulator.probs_density_matrix` / `evolve_density_matrix`, the early returns of
    `probability` / `prob_amplitude` for a vacuum input (no model step); the caller's heralds dict kept by
    reference;
  * `Processor.with_input(LogicalState)` (stores `input.n` as the filter when none is set — the mechanism of the
    automatic filter), `with_polarized_input`, `clear_input_and_circuit`, feed-forward (`FFSimulator`
    keeps a reference to the NoiseModel), the Loss / Delay / Polarization layers `SimulatorFactory` chooses;
  * a Fock-state input that was not given again after `add_herald` (`Pr.inputCurrent` is a hypothesis; the code
    then answers from the old merged input — `processor_herald_after_input_keeps_old_input`); wave 7: it follows
    from the shape of the history (`inputTracked`, `processor_input_current_of_tracked`) and is necessary
    (`processor_query_eq_fresh_iff_heralds_current`, user filter); not proved: the `iff` without a user filter,
    "earlier queries are irrelevant" and a cache-free configuration machine for the Processor;
    wave 10: all three are now proved — `uStepPr` on the user state (`processor_user_state_of_history`,
    `processor_config_of_history`, `processor_answer_of_history`), `processor_earlier_queries_irrelevant`
    (`stepPr false`; refuted for the code as it is by `processor_earlier_queries_relevant_on_current_code`), and
    `processor_query_eq_fresh_iff_heralds_current_auto` (no user filter, perfect source; imperfect source:
    `processor_query_eq_fresh_imperfect_no_filter`); still not proved: the `iff` for `samples` and for a
    distribution input (there `inputCurrent` holds by construction), "earlier queries are irrelevant given the
    stored filter" for `stepPr true` (the stored filter itself depends on the earlier queries);
  * the automatic photon filter as the code stores it is modelled (`stepPr true`) and refuted
    (`processor_auto_filter_fails_on_current_code`, `…_samples`); for the code as it is the exact statement is
    `processor_query_eq_fresh_given_stored_filter` (all histories: fresh processor given the STORED filter) with
    `processor_stored_filter_persists` / `processor_first_query_stores_automatic_filter` (what is stored and for
    how long); the statement for the user's configuration alone holds only for `stepPr false`, a repair that does
    not exist in the tree;
  * `Processor.samples`: the argument list handed to the new `NoisySamplingSimulator` is modelled (`.samples`);
    the samples drawn from it are random (C09) and the sampling engine (Clifford & Clifford) is not modelled.
-/

end PM.C05
