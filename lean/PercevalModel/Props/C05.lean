/-
  C05 — property theorems (model: `Model/C05.lean`, helpers: `Lemmas/C05.lean`).

  Property: what a backend, a simulator, a stepper or a processor returns depends on the current
  configuration only; after ANY history it equals what a freshly constructed object returns for the final
  configuration.  In the model an answer is the *provenance* of the numbers (the ghosts of the cache
  entries that were read); "fresh" is the same machine started from its initial state and configured by
  the canonical sequence `canon… cfg`.

  Every positive theorem is for ALL histories (lists of operations, no bound).
-/
import PercevalModel.Lemmas.C05Backend

namespace PM.C05

open SM

/-! ## Stepper (fixed code: the photon filter is part of the compiled key) -/

/-- the invariant holds after every history -/
theorem stepper_inv_all_histories (ops : List StOp) : InvSt (exec (stepSt true) initSt ops) :=
  inv_exec _ InvSt (fun s op h => invSt_step s op h) _ invSt_init ops

/-- after any history, `evolve` answers what a fresh Stepper given the final configuration answers -/
theorem stepper_query_eq_fresh (ops : List StOp) (inp : Nat) :
    (stepSt true (exec (stepSt true) initSt ops) (.evolve inp)).2 =
      freshSt true (exec (stepSt true) initSt ops).config inp := by
  rw [querySt_spec _ _ (stepper_inv_all_histories ops)]
  unfold freshSt
  have h2 := querySt_spec _ inp (stepper_inv_all_histories (canonSt (exec (stepSt true) initSt ops).config))
  rw [h2, configSt_canon]

theorem stepper_history_independent (h₁ h₂ : List StOp) (inp : Nat)
    (hc : (exec (stepSt true) initSt h₁).config = (exec (stepSt true) initSt h₂).config) :
    (stepSt true (exec (stepSt true) initSt h₁) (.evolve inp)).2 =
      (stepSt true (exec (stepSt true) initSt h₂) (.evolve inp)).2 := by
  rw [stepper_query_eq_fresh, stepper_query_eq_fresh, hc]

/-- non-vacuity: two different histories with the same final configuration -/
example : (exec (stepSt true) initSt [.setCircuit 1, .evolve 3, .setFilter 2]).config =
    (exec (stepSt true) initSt [.setFilter 2, .setCircuit 1]).config := by decide

/-- the code of the pinned tree: after a filter change `evolve` returns the state computed for the old filter -/
theorem stepper_fails_on_current_code :
    ¬ ∀ (ops : List StOp) (inp : Nat),
      (stepSt false (exec (stepSt false) initSt ops) (.evolve inp)).2 =
        freshSt false (exec (stepSt false) initSt ops).config inp := by
  intro h
  have := h [.setCircuit 1, .evolve 3, .setFilter 2] 3
  revert this
  decide

/-! ## Simulator (fixed code: `init_use_mask` drops the evolve cache when the mask mode changes) -/

theorem simulator_inv_all_histories (ops : List SiOp) : InvSi (exec (stepSi true) initSi ops) :=
  inv_exec _ InvSi (fun s op h => invSi_step s op h) _ invSi_init ops

/-- `probs_svd` (generic or fast path, any detectors) after any history = fresh simulator -/
theorem simulator_probs_svd_eq_fresh (ops : List SiOp) (pnr generic : Bool) (keys : List SiKey) :
    (stepSi true (exec (stepSi true) initSi ops) (.probsSvd pnr generic keys)).2 =
      freshSi true (exec (stepSi true) initSi ops).config (.probsSvd pnr generic keys) := by
  rw [probsSvdSi_spec _ _ _ _ (simulator_inv_all_histories ops)]
  unfold freshSi
  rw [probsSvdSi_spec _ _ _ _ (simulator_inv_all_histories _), configSi_canon]

/-- `evolve` after any history = fresh simulator -/
theorem simulator_evolve_eq_fresh (ops : List SiOp) (keys : List SiKey) :
    (stepSi true (exec (stepSi true) initSi ops) (.evolve keys)).2 =
      freshSi true (exec (stepSi true) initSi ops).config (.evolve keys) := by
  rw [evolveSi_spec _ _ (simulator_inv_all_histories ops)]
  unfold freshSi
  rw [evolveSi_spec _ _ (simulator_inv_all_histories _), configSi_canon]

theorem simulator_history_independent (h₁ h₂ : List SiOp) (pnr generic : Bool) (keys : List SiKey)
    (hc : (exec (stepSi true) initSi h₁).config = (exec (stepSi true) initSi h₂).config) :
    (stepSi true (exec (stepSi true) initSi h₁) (.probsSvd pnr generic keys)).2 =
      (stepSi true (exec (stepSi true) initSi h₂) (.probsSvd pnr generic keys)).2 := by
  rw [simulator_probs_svd_eq_fresh, simulator_probs_svd_eq_fresh, hc]

example : (exec (stepSi true) initSi [.setCircuit 1, .setHeralds 1 1, .probsSvd true true [(7, 3, 2)]]).config =
    (exec (stepSi true) initSi [.setHeralds 1 1, .setCircuit 1]).config := by decide

/-- the code of the pinned tree: evolved states cached under the heralds mask (PNR detectors) are
reused by a later `probs_svd` with threshold detectors, for which the mask must not be used -/
theorem simulator_fails_on_current_code :
    ¬ ∀ (ops : List SiOp) (pnr generic : Bool) (keys : List SiKey),
      (stepSi false (exec (stepSi false) initSi ops) (.probsSvd pnr generic keys)).2 =
        freshSi false (exec (stepSi false) initSi ops).config (.probsSvd pnr generic keys) := by
  intro h
  have := h [.setCircuit 1, .setHeralds 1 1, .probsSvd true true [(7, 3, 2)]] false true [(7, 3, 2)]
  revert this
  decide

/-! ## Processor -/

theorem processor_inv_all_histories (ops : List PrOp) : InvPr (exec stepPr initPr ops) :=
  inv_exec _ InvPr (fun s op h => invPr_step s op h) _ invPr_init ops

/-- `probs()` after any history of add / parameter change / noise / input / filter changes and queries
equals `probs()` of a fresh processor given the final configuration: the kept simulator was built for the
current selection, the cached source distribution for the current noise and input -/
theorem processor_query_eq_fresh (ops : List PrOp) :
    (stepPr (exec stepPr initPr ops) .probs).2 = freshPr (exec stepPr initPr ops).config := by
  rw [probsPr_spec _ (processor_inv_all_histories ops)]
  unfold freshPr
  rw [probsPr_spec _ (processor_inv_all_histories _), configPr_canon]

theorem processor_history_independent (h₁ h₂ : List PrOp)
    (hc : (exec stepPr initPr h₁).config = (exec stepPr initPr h₂).config) :
    (stepPr (exec stepPr initPr h₁) .probs).2 = (stepPr (exec stepPr initPr h₂) .probs).2 := by
  rw [processor_query_eq_fresh, processor_query_eq_fresh, hc]

example : (exec stepPr initPr [.addComp 1 1, .withInput 3, .setFilter 1, .probs, .setNoise 2]).config =
    (exec stepPr initPr [.addComp 1 1, .setNoise 2, .setFilter 1, .withInput 3]).config := by decide

/-! ## Backends: Naive, SLAP, SLOS, MPS (repaired code, `fixed = true`)

  `InvB` (Lemmas/C05Backend.lean): every iterator entry, SLOS layer / FS array / path, the SLOS mask instance,
  the SLAP Fock space and the MPS compiled result carry the ghost of the current circuit, mask instance and
  cut-off.  It is preserved by every operation of `stepB true` for every kind (`invB_step`), under it a query
  has the closed form `ansB kind config` (`queryB_ans`), and the canonical sequence reproduces every reachable
  configuration (`config_canonB`, `wf_of_invB`).
-/

/-- the invariant holds after every history, for every backend kind -/
theorem backend_inv_all_histories (k : Kind) (ops : List Op) : InvB (exec (stepB true) (initB k) ops) :=
  inv_exec _ InvB (fun s op h => invB_step s op h) _ (invB_init k) ops

/-- in ANY state satisfying the invariant, every query (`prob_distribution`, `all_prob`, `evolve`,
`prob_amplitude` / `probability` with the same or another photon number) answers what a freshly constructed
backend of the same kind, given only the configuration, answers -/
theorem backend_query_eq_fresh (s : B) (q : Q) (h : InvB s) :
    (stepB true s (.query q)).2 = freshB true s.kind s.config q := by
  have hf := backend_inv_all_histories s.kind (canonB s.config)
  unfold freshB
  simp only [stepB]
  rw [queryB_ans s q h, queryB_ans _ q hf, exec_kind, config_canonB _ _ (wf_of_invB s h)]
  rfl

/-- the full statement: after ANY history, for every kind and every query -/
theorem backend_query_eq_fresh_all_histories (k : Kind) (ops : List Op) (q : Q) :
    (stepB true (exec (stepB true) (initB k) ops) (.query q)).2 =
      freshB true k (exec (stepB true) (initB k) ops).config q := by
  have := backend_query_eq_fresh _ q (backend_inv_all_histories k ops)
  rwa [exec_kind] at this

/-- two histories ending in the same configuration give the same answer -/
theorem backend_history_independent (k : Kind) (h₁ h₂ : List Op) (q : Q)
    (hc : (exec (stepB true) (initB k) h₁).config = (exec (stepB true) (initB k) h₂).config) :
    (stepB true (exec (stepB true) (initB k) h₁) (.query q)).2 =
      (stepB true (exec (stepB true) (initB k) h₂) (.query q)).2 := by
  rw [backend_query_eq_fresh_all_histories, backend_query_eq_fresh_all_histories, hc]

/-- non-vacuity of `InvB`: the initial state, hence (by `backend_inv_all_histories`) every reachable state -/
example (k : Kind) : InvB (initB k) := invB_init k

/-- non-vacuity: different histories (mask set late / early, intermediate inputs with another photon number,
intermediate queries filling the caches) with the same final configuration, for SLOS and MPS -/
example : (exec (stepB true) (initB .slos)
      [.setCircuit ⟨2, 1⟩, .setInput [1, 1], .query .dist, .setMask 1 2 none, .setInput [1, 0], .query .dist,
       .setInput [1, 1]]).config =
    (exec (stepB true) (initB .slos) [.setMask 1 2 none, .setCircuit ⟨2, 1⟩, .setInput [1, 1]]).config := by
  decide

example : (exec (stepB true) (initB .mps)
      [.setCircuit ⟨4, 1⟩, .setInput [1, 1, 1, 0], .query .dist, .setCutoff 2, .setInput [1, 1, 0, 0]]).config =
    (exec (stepB true) (initB .mps) [.setCutoff 2, .setCircuit ⟨4, 1⟩, .setInput [1, 1, 0, 0]]).config := by
  decide

/-- the code of the pinned tree does not have the property (SLOS: mask set after the input) -/
theorem backend_fails_on_current_code :
    ¬ ∀ (k : Kind) (ops : List Op) (q : Q),
      (stepB false (exec (stepB false) (initB k) ops) (.query q)).2 =
        freshB false k (exec (stepB false) (initB k) ops).config q := by
  intro h
  have := h .slos [.setCircuit ⟨2, 1⟩, .setInput [1, 1], .setMask 1 2 none] .dist
  revert this
  decide

/-! ### witnesses: the histories on which the code of the pinned tree leaves the property -/

/-- SLOS, code of the pinned tree: `set_circuit; set_input_state; set_mask; prob_distribution()` raises
`KeyError` whereas a fresh backend returns a distribution -/
theorem slos_mask_fails_on_current_code :
    (stepB false (exec (stepB false) (initB .slos)
        [.setCircuit ⟨2, 1⟩, .setInput [1, 1], .setMask 1 2 none]) (.query .dist)).2 = .exc "KeyError" ∧
    freshB false .slos ⟨some ⟨2, 1⟩, some [1, 1], some ⟨1, 2, none⟩, none⟩ .dist =
      .res 1 [1, 1] (2, some (1, 2)) none := by
  decide

/-- same history, repaired code: the answer of a fresh backend -/
theorem slos_mask_fixed_witness :
    (stepB true (exec (stepB true) (initB .slos)
        [.setCircuit ⟨2, 1⟩, .setInput [1, 1], .setMask 1 2 none]) (.query .dist)).2 =
    freshB true .slos ⟨some ⟨2, 1⟩, some [1, 1], some ⟨1, 2, none⟩, none⟩ .dist := by
  decide

/-- SLOS, code of the pinned tree: under a mask without explicit `n`, an input with another photon number
re-instantiates the mask while the layers deployed for the previous instance are kept -/
theorem slos_mask_instance_fails_on_current_code :
    (stepB false (exec (stepB false) (initB .slos)
        [.setMask 1 2 none, .setCircuit ⟨2, 1⟩, .setInput [1, 0], .setInput [1, 1]]) (.query .dist)).2 = .stale ∧
    (stepB true (exec (stepB true) (initB .slos)
        [.setMask 1 2 none, .setCircuit ⟨2, 1⟩, .setInput [1, 0], .setInput [1, 1]]) (.query .dist)).2 =
      freshB true .slos ⟨some ⟨2, 1⟩, some [1, 1], some ⟨1, 2, none⟩, none⟩ .dist := by
  decide

/-- MPS, code of the pinned tree: the bond dimension raised for a 3-photon input is kept for a later
2-photon input (4 instead of the 3 a fresh backend uses) -/
theorem mps_cutoff_fails_on_current_code :
    (stepB false (exec (stepB false) (initB .mps)
        [.setCircuit ⟨4, 1⟩, .setInput [1, 1, 1, 0], .setInput [1, 1, 0, 0]]) (.query .dist)).2 =
      .res 1 [1, 1, 0, 0] (4, none) (some 4) ∧
    freshB false .mps ⟨some ⟨4, 1⟩, some [1, 1, 0, 0], none, none⟩ .dist =
      .res 1 [1, 1, 0, 0] (4, none) (some 3) ∧
    (stepB true (exec (stepB true) (initB .mps)
        [.setCircuit ⟨4, 1⟩, .setInput [1, 1, 1, 0], .setInput [1, 1, 0, 0]]) (.query .dist)).2 =
      .res 1 [1, 1, 0, 0] (4, none) (some 3) := by
  decide

end PM.C05
