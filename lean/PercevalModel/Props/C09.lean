/-
  C09 — property theorems about the model `Model/C09.lean` of the sampling bookkeeping.

  PROVED here (for every outcome sequence, batch-size sequence, cancel pattern, perturbation, pick
  sequence, count): the limits of `_noisy_sampling` and of the `samples` glue, the exact stopping
  condition, the performance formulas, legality of every appended sample (heralds met, post-selection
  passed, heralded modes removed, at least `filter` photons outside the heralded modes), the total
  of `probs_to_sample_count` (with termination of its repair loop under every fair pick sequence),
  totals of the samples/counts/probs conversions.  `sampler_filter_fails_on_old_code` is the
  counter-example theorem for the defect repaired by fixes/C09-sampler-filter-heralds.diff.
  Also: the three counters feeding the performances counted by STATE (`tally_counts`: a state failing both the
  photon filter and the selection is a physical rejection), history-independence after re-seeding for three
  abstract process-wide generators (`reseed_repeats_after_any_history`, counter-model
  `private_generator_does_not_repeat`), transparency of a memo table whose key identifies the question
  (`memo_transparent`, counter-example `memo_by_name_is_stale`).

  FULL STATEMENT of the property, of which the above is the provable part (`…` = not a theorem):
    … samples returned by a processor follow the same conditional distribution that strong
      simulation of the same processor computes, and the reported performances estimate the same
      quantities                                   — statistical statement about a native sampler;
    … fixing the seed makes every random choice of the Python layer repeat exactly
                                                   — statement about three external generators (only the
                                                     abstract re-seeding model above is a theorem: that the
                                                     code holds no random state outside them is tested).
  Both are VALIDATED on every run by `harness/c09.py` (goodness-of-fit with finite-sample thresholds
  at run-wise false-alarm 1e-9; each random path run twice under `pcvl.random_seed`) and labelled
  as validation in the evidence.

  EXTENSION (end of this file): the first `…` is now reduced to theorems about the model of
  `NoisySamplingSimulator.samples` as a function of its random draws (`Model/C09Run.lean`): the pooled provider
  refines a lazy one on value-independently permuted streams, one lazy shot has the strong-simulation law of
  `Found/SimSpec`, the accepted samples of N independent shots are i.i.d. from `conditioned`, the expected tallies
  give the two performances — see the section "EXTENSION" for the exact statements and for the two standard
  measure-theoretic facts that are NOT formalised.  The model is tied to the code by an exact replay of recorded
  real draws (harness part F).  The drawing conversions (`Model/C09Conv.lean`) have their own section.
-/
import PercevalModel.Lemmas.C09
import PercevalModel.Lemmas.C09Spec
import PercevalModel.Lemmas.C09Conv
import PercevalModel.Lemmas.C09Iter
import PercevalModel.Lemmas.C09Job
import PercevalModel.Lemmas.C09Perm
import PercevalModel.Lemmas.C09Shots
import PercevalModel.Lemmas.C09Loop
import PercevalModel.Lemmas.C09Stop
import Mathlib.Algebra.Order.Field.Rat
import Mathlib.Tactic.FieldSimp
import Mathlib.Tactic.Positivity
import Mathlib.Tactic.Linarith
import Mathlib.Tactic.Ring

set_option linter.unusedSimpArgs false

namespace PM.C09

/-! ## the `_noisy_sampling` loop -/

/-- `noisy_loop_bounds`: whatever the per-shot outcomes, the batch sizes handed back by the
generator and the cancel answers are, after any number of iterations
* at most `max_samples` states are in the output,
* at most `max_shots` shots were taken (when a shot limit is given),
* there are no more outputs than shots, every shot being classified exactly once,
* hence at most `min(max_samples, max_shots)` outputs (`None` = no limit). -/
theorem noisy_loop_bounds (c : Cfg) (firstBatch : Nat) (ops : List Shot)
    (s : St) (hs : s = loop c firstBatch ops) :
    s.out ≤ c.maxSamples ∧
    (∀ k, c.maxShots = some k → s.shots ≤ k) ∧
    s.out ≤ s.shots ∧
    s.shots = s.out + s.notSel + s.notSelPhys ∧
    (∀ L, limit (some c.maxSamples) c.maxShots = some L → s.out ≤ L) := by
  have h := inv_loop c firstBatch ops
  rw [← hs] at h
  refine ⟨h.out_le, h.shots_le, ?_, h.account, ?_⟩
  · have := h.account; omega
  · intro L hL
    have h1 := h.out_le
    have h3 := h.account
    cases hsh : c.maxShots with
    | none =>
      simp [limit, hsh] at hL; omega
    | some k =>
      have h2 := h.shots_le k hsh
      simp [limit, hsh] at hL; omega

/-- `noisy_loop_stops_exactly`: the loop is stopped exactly when the sample bound is reached, the
shot bound is reached, the callback cancelled, or the generator handed back nothing
(`IndexError`); once stopped nothing changes any more; and as long as it is not stopped every
iteration so far was a shot (it never idles or stops early). -/
theorem noisy_loop_stops_exactly (c : Cfg) (firstBatch : Nat) (ops : List Shot)
    (s : St) (hs : s = loop c firstBatch ops) :
    (stopped c s = true ↔
      (s.out = c.maxSamples ∨ (∃ k, c.maxShots = some k ∧ s.shots = k) ∨ s.halt ≠ none)) ∧
    (stopped c s = true → ∀ more, loop c firstBatch (ops ++ more) = s) ∧
    (stopped c s = false → s.shots = ops.length) := by
  have h := inv_loop c firstBatch ops
  rw [← hs] at h
  refine ⟨?_, ?_, ?_⟩
  · constructor
    · intro hst
      by_cases hh : s.halt = none
      · have hc : cond c s = false := by
          simp [stopped, hh] at hst; exact hst
        by_cases ho : s.out = c.maxSamples
        · exact Or.inl ho
        · right; left
          have ho' : s.out < c.maxSamples := by have := h.out_le; omega
          cases hsh : c.maxShots with
          | none => simp [cond, hsh, ho'] at hc
          | some k =>
            refine ⟨k, rfl, ?_⟩
            have := h.shots_le k hsh
            simp [cond, hsh, ho'] at hc
            omega
      · exact Or.inr (Or.inr hh)
    · rintro (ho | ⟨k, hk, hs⟩ | hh)
      · simp [stopped, cond, ho]
      · simp [stopped, cond, hk, hs]
      · cases hx : s.halt with
        | none => exact absurd hx hh
        | some x => simp [stopped, hx]
  · intro hst more
    rw [hs] at hst ⊢
    show PM.SM.exec (step c) (init firstBatch) (ops ++ more) = _
    rw [PM.SM.exec_append]
    exact exec_stopped c _ hst more
  · intro hst
    rw [hs] at hst ⊢
    have := (running_shots c (init firstBatch) ops hst).2
    simpa [init, loop] using this

/-- `generator_requests_bounded`: whenever the loop asks the generator for a new batch, it asks
for at least one input and for no more than what is still missing from either limit. -/
theorem generator_requests_bounded (c : Cfg) (firstBatch : Nat) (ops : List Shot) (op : Shot)
    (s : St) (hs : s = loop c firstBatch ops) :
    ∀ r, (step c s op).2.asked = some r →
      1 ≤ r ∧ r ≤ c.maxSamples - s.out ∧ (∀ k, c.maxShots = some k → r ≤ k - s.shots) := by
  intro r hr
  have h := inv_loop c firstBatch ops
  rw [← hs] at h
  clear hs
  by_cases hs : stopped c s = true
  · rw [step_stopped c s op hs] at hr; simp at hr
  · have hc : cond c s = true := by
      simp [stopped] at hs; exact hs.2
    obtain ⟨h1, h2⟩ := (cond_true_iff c s).1 hc
    have hr' : r = nbGen c s := by
      unfold step at hr
      simp only [hs, Bool.false_eq_true, ↓reduceIte] at hr
      by_cases hcan : (c.hasCallback && op.cancel) = true
      · simp [hcan] at hr
      · simp only [hcan, Bool.false_eq_true, ↓reduceIte] at hr
        by_cases he : (s.idx == s.batchLen) = true
        · simp only [he, ↓reduceIte] at hr
          split at hr <;> simp at hr <;> exact hr.symm
        · simp only [he, Bool.false_eq_true, ↓reduceIte] at hr
          split at hr <;> simp at hr
    subst hr'
    cases hsh : c.maxShots with
    | none =>
      simp [nbGen, batchSize, hsh]; omega
    | some k =>
      have := h2 k hsh
      simp [nbGen, batchSize, hsh]; omega

/-! ## performance estimates -/

/-- `perf_formulas`: at the end of any history, `shots = selected + not_selected +
not_selected_physical`; with at least one output `physical_perf` is the fraction of shots that
passed the photon filter, `logical_perf` the fraction of those that were selected, both lie in
`(0, 1]` and their product is the overall yield `selected / shots`; without output both are 0. -/
theorem perf_formulas (c : Cfg) (firstBatch : Nat) (ops : List Shot)
    (s : St) (hs : s = loop c firstBatch ops) :
    s.shots = s.out + s.notSel + s.notSelPhys ∧
    (s.out = 0 → perf s = (0, 0)) ∧
    (0 < s.out →
      (perf s).1 = ((s.shots : ℚ) - s.notSelPhys) / s.shots ∧
      (perf s).2 = (s.out : ℚ) / ((s.shots : ℚ) - s.notSelPhys) ∧
      0 < (perf s).1 ∧ (perf s).1 ≤ 1 ∧ 0 < (perf s).2 ∧ (perf s).2 ≤ 1 ∧
      (perf s).1 * (perf s).2 = (s.out : ℚ) / s.shots) := by
  have h := (inv_loop c firstBatch ops).account
  rw [← hs] at h
  refine ⟨h, ?_, ?_⟩
  · intro h0; simp [perf, h0]
  · intro hpos
    have e1 : ((s.out + s.notSel : ℕ) : ℚ) = (s.shots : ℚ) - s.notSelPhys := by
      rw [h]; push_cast; ring
    have e2 : ((s.out + s.notSel + s.notSelPhys : ℕ) : ℚ) = (s.shots : ℚ) := by rw [h]
    have ho : (0 : ℚ) < s.out := by exact_mod_cast hpos
    have hns : (0 : ℚ) ≤ s.notSel := Nat.cast_nonneg _
    have hnp : (0 : ℚ) ≤ s.notSelPhys := Nat.cast_nonneg _
    have hsh : (s.shots : ℚ) = s.out + s.notSel + s.notSelPhys := by rw [h]; push_cast; ring
    have hA : (0 : ℚ) < (s.shots : ℚ) - s.notSelPhys := by rw [hsh]; linarith
    have hB : (0 : ℚ) < s.shots := by rw [hsh]; linarith
    simp only [perf, hpos, ↓reduceIte, e1, e2]
    refine ⟨trivial, trivial, by positivity, ?_, by positivity, ?_, ?_⟩
    · rw [div_le_one hB]; linarith
    · rw [div_le_one hA, hsh]; linarith
    · field_simp

/-! ## `compute_samples`, `_compute_samples_with_perf`, the `samples` glue -/

/-- the shot limit handed to the loop is never larger than the one requested, as long as the
probabilities passed in are probabilities (`P(n ≥ filter) ≤ P(n > 0)`) -/
theorem computeSamplesWithPerf_le (filter prepare : Nat) (pp zpp : ℚ) (sh : Nat)
    (h0 : 0 ≤ pp) (h1 : pp ≤ 1 - zpp) (p' : Nat) (sh' : Option Nat)
    (h : computeSamplesWithPerf filter prepare pp zpp (some sh) = .ok (p', sh')) :
    p' ≤ prepare ∧ ∃ k, sh' = some k ∧ k ≤ sh := by
  unfold computeSamplesWithPerf at h
  by_cases hf : 2 ≤ filter
  · simp only [hf, ↓reduceIte] at h
    by_cases hz : zpp = 1
    · simp [hz] at h
    · simp only [hz, ↓reduceIte] at h
      have hden : 0 < 1 - zpp := by
        rcases lt_or_eq_of_le (le_trans h0 h1) with h2 | h2
        · exact h2
        · exfalso; apply hz; linarith
      have hr : pp / (1 - zpp) ≤ 1 := (div_le_one hden).2 h1
      have hv : ((sh : ℚ) * (pp / (1 - zpp))).ceil ≤ (sh : ℤ) := by
        rw [Rat.ceil_le_iff]
        have : (0 : ℚ) ≤ sh := Nat.cast_nonneg _
        have : (sh : ℚ) * (pp / (1 - zpp)) ≤ sh * 1 := mul_le_mul_of_nonneg_left hr this
        simpa using this
      split at h
      · simp at h
      · simp only [Except.ok.injEq, Prod.mk.injEq] at h
        obtain ⟨rfl, rfl⟩ := h
        exact ⟨Nat.min_le_right _ _, _, rfl, by omega⟩
  · simp only [hf, ↓reduceIte, Except.ok.injEq, Prod.mk.injEq] at h
    obtain ⟨rfl, rfl⟩ := h
    exact ⟨Nat.le_refl _, sh, rfl, Nat.le_refl _⟩

/-- `samples_pipeline_bound`: through `compute_samples`, `_compute_samples_with_perf` and the loop,
for every `(max_samples, max_shots)` including 0 and `None`, every outcome history and every first
batch, the number of returned samples is at most `min(max_samples, max_shots)`. -/
theorem samples_pipeline_bound (i : SamplesIn) (ops : List Shot)
    (h0 : 0 ≤ i.prePerf) (h1 : i.prePerf ≤ 1 - i.zpp)
    (n : Nat) (ph lg : ℚ) (st : Option St)
    (h : samplesPipeline i ops = .result n ph lg st) :
    ∀ L, limit i.maxSamples i.maxShots = some L → n ≤ L := by
  intro L hL
  unfold samplesPipeline at h
  split at h
  · simp at h
  · simp only [SamplesOut.result.injEq] at h; omega
  · simp only [SamplesOut.result.injEq] at h; omega
  · rename_i p hcs
    split at h
    · simp at h
    · simp only [SamplesOut.result.injEq] at h; omega
    · rename_i p' sh' hcp
      split at h
      · simp at h
      · rename_i ms hms
        dsimp only at h
        split at h
        · simp at h
        · simp only [SamplesOut.result.injEq] at h
          obtain ⟨rfl, _, _, _⟩ := h
          have hb := noisy_loop_bounds ⟨ms, sh', i.hasCallback⟩ (i.firstBatch (p' + 1)) ops _ rfl
          simp only at hb
          obtain ⟨b1, b2, b3, _, _⟩ := hb
          cases hsh : i.maxShots with
          | none =>
            simp [limit, hms, hsh] at hL; omega
          | some k =>
            obtain ⟨_, k', hk', hle⟩ :=
              computeSamplesWithPerf_le i.filter (p + 1) i.prePerf i.zpp k h0 h1 (p' + 1) sh'
                (by rw [← hsh]; exact hcp)
            have := b2 k' hk'
            simp [limit, hms, hsh] at hL; omega

/-- the perfect fast path acquires exactly the requested number of samples, in requests of at
most 1000 (given enough iterations — `n` always suffices) -/
theorem perfect_path_total (n : Nat) :
    (perfectLoop n n 0).1 = n ∧ ∀ k ∈ (perfectLoop n n 0).2, 1 ≤ k ∧ k ≤ 1000 := by
  have key : ∀ fuel acq, acq ≤ n → n - acq ≤ fuel →
      (perfectLoop n fuel acq).1 = n ∧ ∀ k ∈ (perfectLoop n fuel acq).2, 1 ≤ k ∧ k ≤ 1000 := by
    intro fuel
    induction fuel with
    | zero =>
      intro acq h1 h2
      simp [perfectLoop]; omega
    | succ f ih =>
      intro acq h1 h2
      unfold perfectLoop
      by_cases hlt : acq < n
      · simp only [hlt, ↓reduceIte]
        obtain ⟨e1, e2⟩ := ih (acq + min 1000 (n - acq)) (by omega) (by omega)
        refine ⟨e1, ?_⟩
        intro k hk
        simp only [List.mem_cons] at hk
        rcases hk with rfl | hk
        · omega
        · exact e2 k hk
      · simp [hlt]; omega
  exact key n 0 (Nat.zero_le _) (by omega)

/-! ## `_deduce_count` -/

/-- `deduce_count_spec`: an explicit count wins; otherwise both limits give their minimum;
otherwise the only non-zero limit; and the quirk of the code as it is:
`max_shots = 0` with no `max_samples` is a `RuntimeError` (`0 or None`). -/
theorem deduce_count_spec :
    (∀ c sh ms, deduceCount (some c) sh ms = .ok c) ∧
    (∀ sh ms, deduceCount none (some sh) (some ms) = .ok (min ms sh)) ∧
    (∀ ms, deduceCount none none (some ms) = .ok ms) ∧
    (∀ sh, deduceCount none (some (sh + 1)) none = .ok (sh + 1)) ∧
    deduceCount none (some 0) none = .error "RuntimeError" ∧
    deduceCount none none none = .error "RuntimeError" := by
  refine ⟨fun _ _ _ => rfl, fun _ _ => rfl, ?_, fun _ => rfl, rfl, rfl⟩
  intro ms; cases ms <;> rfl

/-! ## samples ↔ counts ↔ probabilities -/

/-- the fall-back path of `probs_to_sample_count` (count the `count` samples drawn) -/
theorem fallback_total (n count : Nat) (fb : List Nat) (hfb : fb.length = count)
    (hfb' : ∀ i ∈ fb, i < n) :
    sumI ((countOf n fb).map Int.ofNat) = count ∧ ∀ c ∈ (countOf n fb).map Int.ofNat, 0 ≤ c := by
  constructor
  · rw [sumI_map_ofNat, countOf_sum n fb hfb', hfb]
  · intro c hc
    simp only [List.mem_map] at hc
    obtain ⟨a, _, rfl⟩ := hc
    exact Int.natCast_nonneg a

/-- `probs_to_sample_count_total`: for every probability table, every perturbation returned by
`np.random.normal`, every sequence of `random.choice` picks and every fall-back sample list, a
count table that is returned for `count ≥ 1` sums exactly to `count` and has no negative entry
(so the unsigned native table never under-flows).  Rounding is Python's round-half-to-even. -/
theorem probs_to_sample_count_total (ps ns : List ℚ) (count : Nat) (picks fb : List Nat)
    (hc : 1 ≤ count) (hfb : fb.length = count) (hfb' : ∀ i ∈ fb, i < ps.length)
    (via : Bool) (cs : List ℤ)
    (h : probsToSampleCount ps ns count picks fb = .done via cs) :
    sumI cs = count ∧ ∀ c ∈ cs, 0 ≤ c := by
  unfold probsToSampleCount at h
  have hc' : ¬ count < 1 := by omega
  simp only [hc', ↓reduceIte] at h
  by_cases hl : ns.length ≠ ps.length
  · simp [hl] at h
  · simp only [hl, ↓reduceIte] at h
    have hpert := perturb_nonneg ps ns
    generalize perturb ps ns = pert at h hpert
    by_cases hs : sumQ pert = 0
    · simp only [hs, ↓reduceIte, P2SC.done.injEq] at h
      obtain ⟨_, rfl⟩ := h
      exact fallback_total _ _ _ hfb hfb'
    · simp only [hs, ↓reduceIte] at h
      have hspos : 0 < sumQ pert := lt_of_le_of_ne (sumQ_nonneg pert hpert) (Ne.symm hs)
      have hq : ∀ x ∈ pert.map (fun x => 1 / sumQ pert * x), 0 ≤ x := by
        intro x hx
        simp only [List.mem_map] at hx
        obtain ⟨y, hy, rfl⟩ := hx
        have := hpert y hy
        positivity
      generalize pert.map (fun x => 1 / sumQ pert * x) = q at h hq
      by_cases hm : maxQ q * (count : ℚ) < 1
      · simp only [hm, ↓reduceIte, P2SC.done.injEq] at h
        obtain ⟨_, rfl⟩ := h
        exact fallback_total _ _ _ hfb hfb'
      · simp only [hm, ↓reduceIte] at h
        have hcq : (0 : ℚ) < count := by exact_mod_cast hc
        have hrs : ∀ c ∈ q.map (fun x => roundHalfEven (x * (count : ℚ))), 0 ≤ c := by
          intro c hcm
          simp only [List.mem_map] at hcm
          obtain ⟨y, hy, rfl⟩ := hcm
          exact roundHalfEven_nonneg _ (mul_nonneg (hq y hy) hcq.le)
        have hkeys_ne : keysOf (q.map (fun x => roundHalfEven (x * (count : ℚ)))) ≠ [] := by
          have hmax : 0 < maxQ q := by
            by_contra hneg
            have : maxQ q * (count : ℚ) ≤ 0 := mul_nonpos_of_nonpos_of_nonneg (not_lt.1 hneg) hcq.le
            linarith [not_lt.1 hm]
          apply keysOf_ne_nil _ (roundHalfEven (maxQ q * (count : ℚ)))
          · exact List.mem_map.2 ⟨maxQ q, maxQ_mem q hmax, rfl⟩
          · exact one_le_roundHalfEven _ (not_lt.1 hm)
        generalize q.map (fun x => roundHalfEven (x * (count : ℚ))) = rs at h hrs hkeys_ne
        have hkeys := keysOf_lt rs
        by_cases hd : 0 < (count : ℤ) - sumI rs
        · simp only [hd, ↓reduceIte] at h
          cases picks with
          | nil => simp at h
          | cons p rest =>
            simp only [P2SC.done.injEq] at h
            obtain ⟨_, rfl⟩ := h
            have hk := getD_keys_lt rs (keysOf rs) hkeys hkeys_ne p
            have hnn := getD_nonneg rs hrs ((keysOf rs).getD (p % (keysOf rs).length) 0)
            constructor
            · rw [sumI_set rs _ _ hk]; omega
            · exact set_nonneg rs hrs _ _ (by omega)
        · simp only [hd, ↓reduceIte] at h
          by_cases hd2 : (count : ℤ) - sumI rs < 0
          · simp only [hd2, ↓reduceIte] at h
            have e : -((count : ℤ) - sumI rs) = sumI rs - (count : ℤ) := by omega
            rw [e] at h
            cases hr : repairHigh (keysOf rs) rs (sumI rs - (count : ℤ)) picks with
            | none => simp [hr] at h
            | some r =>
              simp only [hr, P2SC.done.injEq] at h
              obtain ⟨_, rfl⟩ := h
              obtain ⟨e1, e2, _⟩ :=
                repairHigh_spec (keysOf rs) picks rs _ r hkeys hkeys_ne hrs (by omega) hr
              exact ⟨by rw [e1]; omega, e2⟩
          · simp only [hd2, ↓reduceIte, P2SC.done.injEq] at h
            obtain ⟨_, rfl⟩ := h
            exact ⟨by omega, hrs⟩

/-- a request for 0 samples gives the empty table (whose total is 0) -/
theorem probs_to_sample_count_zero (ps ns : List ℚ) (picks fb : List Nat) :
    probsToSampleCount ps ns 0 picks fb = .empty := by
  simp [probsToSampleCount]

/-- `probs_to_sample_count_terminates_fair`: termination of the "too many" repair loop.  A pick
of a key holding 0 changes nothing, so an adversarial stream can stall the loop for ever; but
along every stream in which each key of the table is picked at least once (with probability 1 for
`random.choice`) the loop has finished — it cannot run out of counts to remove because the table
holds `count + excess > excess`. -/
theorem probs_to_sample_count_terminates_fair (rs : List ℤ) (count : Nat) (picks : List Nat)
    (hc : 1 ≤ count) (hrs : ∀ c ∈ rs, 0 ≤ c) (hex : (count : ℤ) < sumI rs)
    (hfair : ∀ k ∈ keysOf rs, ∃ p ∈ picks, (keysOf rs).getD (p % (keysOf rs).length) 0 = k) :
    ∃ r, repairHigh (keysOf rs) rs (sumI rs - count) picks = some r ∧
      sumI r = count ∧ ∀ c ∈ r, 0 ≤ c := by
  have hne : keysOf rs ≠ [] := by
    intro hnil
    have hz : ∀ c ∈ rs, c = 0 := by
      intro c hcm
      obtain ⟨i, hi, rfl⟩ := List.getElem_of_mem hcm
      have := keysOf_compl_zero rs i (by rw [hnil]; simp)
      rwa [getD_eq_getElem' _ _ hi] at this
    have := sumI_eq_zero rs hz
    omega
  have hsome := repairHigh_fair (keysOf rs) picks rs (sumI rs - count) (keysOf_lt rs) hne hrs
    (keysOf_compl_zero rs) (by omega) (fun k hk _ => hfair k hk)
  cases hr : repairHigh (keysOf rs) rs (sumI rs - count) picks with
  | none => rw [hr] at hsome; simp at hsome
  | some r =>
    obtain ⟨e1, e2, _⟩ :=
      repairHigh_spec (keysOf rs) picks rs _ r (keysOf_lt rs) hne hrs (by omega) hr
    exact ⟨r, rfl, by rw [e1]; omega, e2⟩

/-- `counts_roundtrip_totals`: (1) counting a sample list gives a table whose total is the number
of samples; (2) turning a non-negative, non-empty count table into probabilities gives total
probability 1 and `prob × total = count` entry by entry (zero counts produce no key);
(3) hence samples → counts → probabilities has total 1 for every non-empty sample list. -/
theorem counts_roundtrip_totals :
    (∀ n samples, (∀ s ∈ samples, s < n) → (countOf n samples).sum = samples.length) ∧
    (∀ cs : List ℤ, (∀ c ∈ cs, 0 ≤ c) → 0 < sumI cs →
      countsToProbs cs = .ok (cs.map (probOf (sumI cs))) ∧
      sumQ ((cs.map (probOf (sumI cs))).map getQ) = 1 ∧
      ∀ c ∈ cs, getQ (probOf (sumI cs) c) * (sumI cs : ℚ) = c) ∧
    (∀ n samples, (∀ s ∈ samples, s < n) → samples ≠ [] →
      sumQ ((((countOf n samples).map Int.ofNat).map
        (probOf (sumI ((countOf n samples).map Int.ofNat)))).map getQ) = 1) := by
  have part2 : ∀ cs : List ℤ, (∀ c ∈ cs, 0 ≤ c) → 0 < sumI cs →
      countsToProbs cs = .ok (cs.map (probOf (sumI cs))) ∧
      sumQ ((cs.map (probOf (sumI cs))).map getQ) = 1 ∧
      ∀ c ∈ cs, getQ (probOf (sumI cs) c) * (sumI cs : ℚ) = c := by
    intro cs hnn hpos
    have hT : ((sumI cs : ℤ) : ℚ) ≠ 0 := by
      have : (0 : ℚ) < (sumI cs : ℤ) := by exact_mod_cast hpos
      exact ne_of_gt this
    refine ⟨?_, ?_, ?_⟩
    · unfold countsToProbs
      have : cs.any (· < 0) = false := by
        simp only [List.any_eq_false, decide_eq_true_eq]
        intro c hc; have := hnn c hc; omega
      simp [this]
    · rw [sumQ_probOf, div_self hT]
    · intro c _
      by_cases h0 : c = 0
      · subst h0; simp [probOf, getQ]
      · simp only [probOf, h0, ↓reduceIte, getQ]
        field_simp
  refine ⟨fun n samples h => countOf_sum n samples h, part2, ?_⟩
  intro n samples h hne
  have hsum : sumI ((countOf n samples).map Int.ofNat) = (samples.length : ℤ) := by
    rw [sumI_map_ofNat, countOf_sum n samples h]
  have hpos : 0 < sumI ((countOf n samples).map Int.ofNat) := by
    rw [hsum]
    have : 0 < samples.length := List.length_pos_iff.2 hne
    omega
  have hnn : ∀ c ∈ (countOf n samples).map Int.ofNat, 0 ≤ c := by
    intro c hc
    simp only [List.mem_map] at hc
    obtain ⟨a, _, rfl⟩ := hc
    exact Int.natCast_nonneg a
  exact (part2 _ hnn hpos).2.1

/-! ## legality of a returned sample -/

/-- `selected_sample_legal`: for every filter, every set of heralds on distinct modes of the state,
every post-selection verdict and every sampled state, a state the (repaired) loop appends
(i) meets every herald, (ii) passes the post-selection, (iii) holds at least `filter` photons on top
of the photons the heralds expect; and what is appended once the heralded modes are removed has
(iv) `m − #heralds` modes, (v) exactly the photons outside the heralded modes, hence (vi) at least
`filter` photons — the documented meaning of `min_detected_photons_filter`, the one strong
simulation implements; (vii) with `keep_heralds` the state is appended unchanged. -/
theorem selected_sample_legal (filter : Nat) (heralds : List (Nat × Nat)) (ps : Bool) (st : List Nat)
    (hnd : (heralds.map (·.1)).Nodup) (hr : ∀ h ∈ heralds, h.1 < st.length)
    (h : shotOutcome true filter heralds ps st = .sel) :
    heraldsOk heralds st = true ∧ ps = true ∧
    filter + heraldPhotons heralds ≤ st.sum ∧
    (emitted heralds false st).length = st.length - heralds.length ∧
    (emitted heralds false st).sum = st.sum - heraldPhotons heralds ∧
    filter ≤ (emitted heralds false st).sum ∧
    emitted heralds true st = st := by
  unfold shotOutcome at h
  by_cases h1 : st.sum < effFilter true filter heralds
  · simp [h1] at h
  · simp only [h1, ↓reduceIte] at h
    by_cases h2 : (heraldsOk heralds st && ps) = true
    · simp only [Bool.and_eq_true] at h2
      have h3 : filter + heraldPhotons heralds ≤ st.sum := by
        simp only [effFilter, ↓reduceIte] at h1; omega
      obtain ⟨e1, e2⟩ := photonsIn_heralds st heralds hnd hr h2.1
      have l1 := removeFrom_length_add (heralds.map (·.1)) st 0
      have l2 := removeFrom_sum_add (heralds.map (·.1)) st 0
      rw [e2] at l1
      rw [e1] at l2
      have hem : (emitted heralds false st).length = st.length - heralds.length ∧
          (emitted heralds false st).sum = st.sum - heraldPhotons heralds := by
        cases heralds with
        | nil => simp [emitted, heraldPhotons]
        | cons a t =>
          simp only [emitted, List.isEmpty_cons, Bool.not_false, Bool.and_self, ↓reduceIte, removeModes]
          constructor <;> omega
      refine ⟨h2.1, h2.2, h3, hem.1, hem.2, ?_, ?_⟩
      · rw [hem.2]; omega
      · simp [emitted]
    · simp [h2] at h

/-- `sampler_filter_fails_on_old_code`: the code as it was (bare filter compared with the photon
number of the full state) appended states with fewer than `filter` photons outside the heralded
modes — witness: filter 1, a herald expecting one photon on mode 1, sampled state `|0,1>` is
returned as `|0>`.  (Replayed on the real code by corpus/C09/filter-heralds.json.) -/
theorem sampler_filter_fails_on_old_code :
    ¬ ∀ (filter : Nat) (heralds : List (Nat × Nat)) (ps : Bool) (st : List Nat),
      (heralds.map (·.1)).Nodup → (∀ h ∈ heralds, h.1 < st.length) →
      shotOutcome false filter heralds ps st = .sel → filter ≤ (emitted heralds false st).sum := by
  intro h
  have := h 1 [(1, 1)] true [0, 1] (by decide) (by decide) (by decide)
  revert this
  decide

/-! ## accounting by state, seeding, memoisation (history-independence)

`tally_counts`: whatever the order the two tests are made in the code, the three counters that feed the
performances are: states below the effective filter / above it and rejected by heralds or post-selection / above it
and selected -- a state failing BOTH is a physical rejection, as in strong simulation. -/

theorem tally_counts (filter : Nat) (heralds : List (Nat × Nat)) (psf : List Nat → Bool)
    (sts : List (List Nat)) (s : St) :
    let few := fun st : List Nat => decide (st.sum < filter + heraldPhotons heralds)
    let ok := fun st : List Nat => heraldsOk heralds st && psf st
    (tally true filter heralds psf s sts).notSelPhys = s.notSelPhys + sts.countP few ∧
    (tally true filter heralds psf s sts).notSel = s.notSel + sts.countP (fun st => !few st && !ok st) ∧
    (tally true filter heralds psf s sts).out = s.out + sts.countP (fun st => !few st && ok st) := by
  intro few ok
  induction sts generalizing s with
  | nil => simp [tally]
  | cons st rest ih =>
    have h := ih (classify s (shotOutcome true filter heralds (psf st) st))
    simp only [tally, List.foldl_cons] at h ⊢
    obtain ⟨h1, h2, h3⟩ := h
    rw [h1, h2, h3]
    simp only [List.countP_cons]
    by_cases hf : st.sum < filter + heraldPhotons heralds
    · have : few st = true := by simp [few, hf]
      simp [shotOutcome, effFilter, hf, classify, this]; omega
    · have hfew : few st = false := by simp [few, hf]
      by_cases hk : (heraldsOk heralds st && psf st) = true
      · have : ok st = true := hk
        simp [shotOutcome, effFilter, hf, hk, classify, hfew, this]; omega
      · have : ok st = false := by simpa [ok] using hk
        simp [shotOutcome, effFilter, hf, hk, classify, hfew, this]; omega

theorem physical_rejection_ignores_selection (filter : Nat) (heralds : List (Nat × Nat)) (ps ps' : Bool)
    (st : List Nat) :
    (shotOutcome true filter heralds ps st = .phys ↔ st.sum < filter + heraldPhotons heralds) ∧
    (shotOutcome true filter heralds ps st = .phys ↔ shotOutcome true filter heralds ps' st = .phys) := by
  constructor
  · unfold shotOutcome effFilter
    by_cases hf : st.sum < filter + heraldPhotons heralds
    · simp [hf]
    · simp only [↓reduceIte, hf]
      split <;> simp
  · unfold shotOutcome effFilter
    by_cases hf : st.sum < filter + heraldPhotons heralds
    · simp [hf]
    · simp only [↓reduceIte, hf]
      constructor <;> (intro h; split at h <;> simp at h)

/-- after `random_seed(s)` everything drawn is a function of `s` and of the draws asked for, whatever happened
before (any earlier seeding, any earlier draws) -/
theorem reseed_repeats_exactly (R : RngSpec) (w w' : Gens) (s : Nat) (ops : List ROp) :
    (SM.run (rstep R) w (.seed s :: ops)).2 = (SM.run (rstep R) w' (.seed s :: ops)).2 := by
  simp [SM.run, rstep]

theorem reseed_repeats_after_any_history (R : RngSpec) (w : Gens) (h₁ h₂ : List ROp) (s : Nat) (ops : List ROp) :
    (SM.run (rstep R) (SM.exec (rstep R) w h₁) (.seed s :: ops)).2 =
    (SM.run (rstep R) (SM.exec (rstep R) w h₂) (.seed s :: ops)).2 :=
  reseed_repeats_exactly R _ _ s ops

/-- a private generator that `random_seed` does not reach breaks it: second use of the same object -/
theorem private_generator_does_not_repeat :
    ∃ (R : RngSpec) (w : Gens) (s : Nat),
      (SM.run (rstepPrivate R) (SM.exec (rstepPrivate R) (w, none) [.seed s, .draw .np]) [.seed s, .draw .np]).2 ≠
      (SM.run (rstepPrivate R) (w, none) [.seed s, .draw .np]).2 := by
  refine ⟨⟨fun _ s => s, fun _ n => n + 1, fun _ n => n⟩, ⟨0, 0, 0⟩, 0, ?_⟩
  decide

example : (SM.run (rstep ⟨fun _ s => s, fun _ n => n + 1, fun _ n => n⟩) ⟨7, 8, 9⟩
    [.draw .py, .seed 3, .draw .py, .draw .np, .draw .py]).2 = [some 7, none, some 3, some 3, some 4] := by
  decide


/-- `memo_transparent`: when the key identifies the answer (`key q = key q' → f q = f q'`), a memoised function
answers every question of every history exactly as the function itself: what was asked before does not matter. -/
theorem memo_transparent {Q K V : Type} [DecidableEq K] (key : Q → K) (f : Q → V)
    (hkey : ∀ q q', key q = key q' → f q = f q') (tbl : List (K × V))
    (htbl : ∀ k v, (k, v) ∈ tbl → ∀ q, key q = k → f q = v) (qs : List Q) :
    (SM.run (memoStep key f) tbl qs).2 = qs.map f := by
  induction qs generalizing tbl with
  | nil => simp [SM.run]
  | cons q qs ih =>
    simp only [SM.run, List.map_cons]
    cases hf : findKey (key q) tbl with
    | some v =>
      have hv : f q = v := htbl _ _ (findKey_mem _ _ _ hf) q rfl
      simp only [memoStep, hf]
      rw [ih tbl htbl, hv]
    | none =>
      simp only [memoStep, hf]
      rw [ih]
      intro k v hm q' hq'
      simp only [List.mem_cons, Prod.mk.injEq] at hm
      rcases hm with ⟨rfl, rfl⟩ | hm
      · exact hkey q' q hq'
      · exact htbl k v hm q' hq'

/-- a key that does not identify the question (two detectors sharing a NAME, different wires) serves a stale
answer: the second question gets the first one's distribution -/
theorem memo_by_name_is_stale :
    ∃ (key : String × Nat → String) (f : String × Nat → Nat) (qs : List (String × Nat)),
      (SM.run (memoStep key f) [] qs).2 ≠ qs.map f := by
  refine ⟨fun q => q.1, fun q => q.2, [("PPNR", 2), ("PPNR", 8)], ?_⟩
  decide

example : (SM.run (memoStep (fun q : Nat × Nat => q) (fun q => q.1 * q.2) ) [] [(2, 3), (4, 5), (2, 3)]).2 = [6, 20, 6] := by
  decide



/-! ## EXTENSION: `NoisySamplingSimulator.samples` as a function of its random draws (`Model/C09Run.lean`)

  FULL STATEMENT aimed at: "if the draws of every random site (input emission, the backend per input state, the
  detectors per incoming state) are independent with the site's ideal law, the accepted samples are i.i.d. from the
  conditional strong-simulation law and the expected tallies give the physical / logical performances".

  PROVED below, for all configurations, limits, draw streams and laws:
   (1) `pooled_run_refines_lazy`: the run of the code's pooled provider (weights, batches of draws fetched ahead,
       pools emptied from their end) on streams `S` is the run of the LAZY provider — one draw per component, taken
       from the head of that component's stream when the shot needs it — on the re-ordered streams `lazyOf`;
   (2) `reorder_value_independent_permutation`: the re-ordering never looks at the values, keeps the length law,
       and hands out a permutation of a prefix of every stream (no draw used twice, none invented);
   (3) `replay_run_accounting`: whatever the provider, the returned samples are the selected, herald-stripped
       states among the detected states of the shots, in order, the counters count them, the limits hold and the
       loop has stopped for a limit;
   (4) `shot_law_is_strong_simulation_law`: one lazy shot with independent ideal draws has the law
       "mixture over the inputs of the convolution of the components' laws, pushed through the detectors";
       with the backend law `SimSpec.probsFock U` this is the `SimSpec` mixture of `probsTagged U`;
   (5) `accepted_samples_iid`: over `N` independent shots of law `d`, the accepted list is `out` with probability
       `C(N,k) a^k (1-a)^(N-k) ∏ conditioned(outᵢ)`: given their number the accepted samples are independent with
       the `conditioned` law of `SimSpec`;
   (6) `expected_tallies`: the expected numbers of selected / physically accepted / physically rejected shots are
       `N` times `mass retained`, `physPerf`, `1 - physPerf`; their ratios are the two performances;
   (7) `inputs_below_filter_only_scale`: dropping the inputs that cannot pass the photon filter and renormalising
       (the `_preprocess_input_state` / `cache_prob_table` step) multiplies every expectation carried by states
       passing the filter by the pre-performance — so the conditional law is unchanged and the physical
       performance is the product.
  NOT a theorem (`…`): … the passage from "the streams are independent with the ideal laws" to "the successive
  reads of the lazy provider are independent draws" (reading a product measure at distinct positions, chosen
  from what was read before — Fubini), and the invariance of a product law under the value-independent permutation
  of (2).  (1)–(3) reduce the code to the lazy reads, (4)–(7) compute with independent reads; the link between the
  two is the standard fact just named.  The threshold `p ≥ max_p / n` of `_preprocess_input_state` drops improbable
  inputs: the laws above are those of the TRIMMED mixture, equal to the full one when nothing is below the
  threshold. -/

/-- (1) the pooled provider refines the lazy provider on the re-ordered streams -/
theorem pooled_run_refines_lazy (c : SelCfg) (ms : Nat) (sh : Option Nat) (ge : Option String) (fuel : Nat)
    (p : Prov) (s : Core) (p' : Prov) (s' : Core)
    (h : loopG sfPool c ms sh ge fuel p s = .ok (p', s')) :
    ∃ q', loopG sfLazy c ms sh ge fuel (lazyOf p) s = .ok (q', s') ∧ ∀ k, q' k = lazyOf p' k :=
  loopG_sim Sim sfPool sfLazy sfPool_sim c ms sh ge fuel p (lazyOf p) s p' s' (sim_lazyOf p) h

/-- (2) the re-ordering of a stream: commutes with every relabelling of the values, its length depends on the
length of the stream only, and it is a permutation of a prefix of the stream -/
theorem reorder_value_independent_permutation (w : Option Nat) (s : List Fock) :
    (∀ g : Fock → Fock, reorder w (s.map g) = (reorder w s).map g) ∧
    (∀ s' : List Fock, s.length = s'.length → (reorder w s).length = (reorder w s').length) ∧
    (reorder w s).Perm (s.take (reorder w s).length) :=
  ⟨fun g => reorder_map g s w, fun s' h => reorder_length s s' h w, reorder_perm s w⟩

/-- (3) accounting of a run started on empty counters, for ANY provider -/
theorem replay_run_accounting {P : Type} (sf : P → Fock → Except String (Fock × P)) (c : SelCfg) (ms : Nat)
    (sh : Option Nat) (ge : Option String) (fuel : Nat) (p : P) (first : List InDraw) (gens : List (List InDraw))
    (asked : List Nat) (det : AL (List Fock)) (p' : P) (s' : Core)
    (h : loopG sf c ms sh ge fuel p ⟨[], [], 0, 0, 0, first, gens, asked, det⟩ = .ok (p', s')) :
    s'.out.reverse = s'.seen.reverse.filterMap (selOf c) ∧
    s'.shots = s'.seen.length ∧
    s'.notSel = (s'.seen.filter (isOutcome c .logic)).length ∧
    s'.notSelPhys = (s'.seen.filter (isOutcome c .phys)).length ∧
    s'.out.length ≤ ms ∧ (∀ k, sh = some k → s'.shots ≤ k) ∧
    (s'.out.length = ms ∨ sh = some s'.shots) := by
  have h0 : Acc c ms sh ⟨[], [], 0, 0, 0, first, gens, asked, det⟩ :=
    ⟨rfl, rfl, rfl, rfl, Nat.zero_le _, fun _ _ => Nat.zero_le _⟩
  obtain ⟨⟨a1, a2, a3, a4, a5, a6⟩, hstop⟩ := loopG_acc sf c ms sh ge fuel p _ p' s' h0 h
  refine ⟨?_, a2, a3, a4, a5, a6, ?_⟩
  · rw [a1, List.filterMap_reverse]
  · unfold condR at hstop
    cases hsh : sh with
    | none =>
      rw [hsh] at hstop
      simp only [Bool.and_true, decide_eq_false_iff_not, Nat.not_lt] at hstop
      left; omega
    | some k =>
      rw [hsh] at hstop
      simp only [Bool.and_eq_false_iff, decide_eq_false_iff_not, Nat.not_lt] at hstop
      have := a6 k hsh
      rcases hstop with h1 | h1
      · left; omega
      · right; congr 1; omega

/-- (4) the law of the detected state of one shot under independent ideal draws, and its identification with the
strong-simulation specification when the backend samples `SimSpec.probsFock U` -/
theorem shot_law_is_strong_simulation_law (m : ℕ) (inputs : List (ℚ × InDraw)) (bk detK : Fock → PM.Dist.D)
    (f : Fock → ℚ) (hne : ∀ p ∈ inputs, p.2 ≠ []) (hlen : ∀ k, ∀ p ∈ bk k, m ≤ p.1.length) :
    exShot inputs bk detK f = ex (shotLaw m inputs bk detK) f ∧
    (∀ (U : Matrix (Fin m) (Fin m) GQ),
      shotLaw m inputs (PM.SimSpec.probsFock U) detK =
        bind (PM.Dist.mix (inputs.map fun p => (p.1, PM.SimSpec.probsTagged U p.2))) detK) :=
  ⟨ex_shot_law m inputs bk detK f hne hlen, fun _ => rfl⟩

/-- (5) the accepted samples of `N` independent shots of law `d` -/
theorem accepted_samples_iid (sc : SelCfg) (ps : PM.SimSpec.PS) (hps : sc.psf = ps.eval) (d : PM.Dist.D)
    (hd : PM.Dist.mass d = 1) (ha : PM.Dist.mass (PM.SimSpec.retained (condOf sc ps) d) ≠ 0)
    (N : ℕ) (out : List Fock) :
    exN d N (fun seen => if seen.filterMap (selOf sc) = out then 1 else 0) =
      (N.choose out.length : ℚ) * PM.Dist.mass (PM.SimSpec.retained (condOf sc ps) d) ^ out.length *
        (1 - PM.Dist.mass (PM.SimSpec.retained (condOf sc ps) d)) ^ (N - out.length) *
        (out.map (PM.Dist.get (PM.SimSpec.conditioned (condOf sc ps) d))).prod := by
  rw [exN_accepted, muNone_eq sc ps hps d hd, prod_muSel sc ps hps d ha]
  ring

/-- (6) expected tallies of `N` independent shots and the two performances -/
theorem expected_tallies (sc : SelCfg) (ps : PM.SimSpec.PS) (hps : sc.psf = ps.eval) (d : PM.Dist.D)
    (hd : PM.Dist.mass d = 1) (N : ℕ) :
    exN d N (countP (isOutcome sc .sel)) = N * PM.Dist.mass (PM.SimSpec.retained (condOf sc ps) d) ∧
    exN d N (countP (fun t => !isOutcome sc .phys t)) = N * PM.SimSpec.physPerf (condOf sc ps) d ∧
    exN d N (countP (isOutcome sc .phys)) = N * (1 - PM.SimSpec.physPerf (condOf sc ps) d) ∧
    (0 < N → PM.SimSpec.physPerf (condOf sc ps) d ≠ 0 →
      exN d N (countP (isOutcome sc .sel)) / exN d N (countP (fun t => !isOutcome sc .phys t)) =
        PM.SimSpec.logicalPerf (condOf sc ps) d ∧
      exN d N (countP (fun t => !isOutcome sc .phys t)) / N = PM.SimSpec.physPerf (condOf sc ps) d) := by
  have hsel : ∀ t, isOutcome sc .sel t =
      (PM.SimSpec.physOk (condOf sc ps) t && PM.SimSpec.logicOk (condOf sc ps) t) := by
    intro t
    unfold isOutcome
    rw [hps, Bool.eq_iff_iff, decide_eq_true_eq]
    exact shotOutcome_sel_iff sc ps t
  have hphys : ∀ t, isOutcome sc .phys t = !PM.SimSpec.physOk (condOf sc ps) t := by
    intro t
    unfold isOutcome
    rw [hps, Bool.eq_iff_iff, decide_eq_true_eq, shotOutcome_phys_iff]
    simp
  have e1 : exN d N (countP (isOutcome sc .sel)) =
      N * PM.Dist.mass (PM.SimSpec.retained (condOf sc ps) d) := by
    rw [exN_countP d hd, ← ex_retained]
    congr 1
    apply ex_congr
    intro p _
    rw [hsel]
  have e2 : exN d N (countP (fun t => !isOutcome sc .phys t)) = N * PM.SimSpec.physPerf (condOf sc ps) d := by
    rw [exN_countP d hd, ← ex_physOk]
    congr 1
    apply ex_congr
    intro p _
    rw [hphys]
    simp
  have e3 : exN d N (countP (isOutcome sc .phys)) = N * (1 - PM.SimSpec.physPerf (condOf sc ps) d) := by
    rw [exN_countP d hd, ← ex_physOk]
    have : ex d (fun t => if isOutcome sc .phys t = true then (1 : ℚ) else 0) =
        ex d (fun _ => 1) - ex d (fun t => if PM.SimSpec.physOk (condOf sc ps) t = true then 1 else 0) := by
      rw [eq_sub_iff_add_eq, ← ex_add]
      apply ex_congr
      intro p _
      rw [hphys]
      cases PM.SimSpec.physOk (condOf sc ps) p.1 <;> simp
    rw [this, ← mass_eq_ex, hd]
  refine ⟨e1, e2, e3, ?_⟩
  intro hN hp
  have hN' : (N : ℚ) ≠ 0 := by exact_mod_cast (Nat.pos_iff_ne_zero.1 hN)
  rw [e1, e2]
  constructor
  · unfold PM.SimSpec.logicalPerf
    simp only [hp, ↓reduceIte]
    field_simp
  · field_simp

/-- (7) dropping the members of a mixed input that put no weight on the states carrying `g` (inputs with fewer
photons than the filter asks for) and renormalising the others by their total weight `P` divides the
expectation of `g` by `P`: with `g` the indicator of "passes the filter", "is retained", "is retained and
reported as `s`" this gives `physPerf full = P · physPerf trimmed`, `mass retained full = P · mass retained
trimmed`, hence the same conditional law and logical performance. -/
theorem inputs_below_filter_only_scale (l : List (ℚ × PM.Dist.D)) (keep : ℚ × PM.Dist.D → Bool)
    (g : Fock → ℚ) (P : ℚ) (hP : P ≠ 0) (hdrop : ∀ p ∈ l, keep p = false → ex p.2 g = 0) :
    ex (PM.Dist.mix l) g = P * ex (PM.Dist.mix ((l.filter keep).map fun p => (p.1 / P, p.2))) g :=
  ex_mix_trim l keep g P hP hdrop


/-! ## EXTENSION: the sample-drawing conversions (`Model/C09Conv.lean`) -/

/-- `BSDistribution.sample(count, non_null)` for every table, every draw sequence: a returned list has exactly
`count` samples, every sample is a key of the table and — with `non_null`, the default every conversion uses —
never the vacuum state. -/
theorem sample_total_and_support (vac : List Bool) (nonNull : Bool) (present : List Bool) (weights : List ℚ)
    (count : Nat) (draws r : List Nat) (h : sampleDist vac nonNull present weights count draws = .ok r) :
    r.length = count ∧
    ∀ i ∈ r, i < present.length ∧ present.getD i false = true ∧ (nonNull = true → vac.getD i false = false) :=
  sampleDist_ok vac nonNull present weights count draws r h

/-- `probs_to_samples` / `sample_count_to_samples`: the number of samples is the deduced request (for a count
table: the total of the table when no request is given — the `except RuntimeError` branch), every sample is a state
of the table (for a count table: one with a non-zero count) and holds at least one photon. -/
theorem conversions_to_samples_total (vac : List Bool) (count maxShots maxSamples : Option Nat) (draws r : List Nat) :
    (∀ probs : List ℚ, probsToSamples vac probs count maxShots maxSamples draws = .ok r →
      (∃ c, deduceCount count maxShots maxSamples = .ok c ∧ r.length = c) ∧
      ∀ i ∈ r, i < probs.length ∧ vac.getD i false = false) ∧
    (∀ counts : List ℤ, sampleCountToSamples vac counts count maxShots maxSamples draws = .ok r →
      ((∃ c, deduceCount count maxShots maxSamples = .ok c ∧ r.length = c) ∨
       ((∃ e, deduceCount count maxShots maxSamples = .error e) ∧ (r.length : ℤ) = sumI counts)) ∧
      ∀ i ∈ r, i < counts.length ∧ counts.getD i 0 ≠ 0 ∧ vac.getD i false = false) := by
  constructor
  · intro probs h
    unfold probsToSamples at h
    cases hd : deduceCount count maxShots maxSamples with
    | error e => rw [hd] at h; simp at h
    | ok c =>
      rw [hd] at h
      obtain ⟨h1, h2⟩ := sampleDist_ok _ _ _ _ _ _ _ h
      refine ⟨⟨c, rfl, h1⟩, ?_⟩
      intro i hi
      obtain ⟨a, _, b⟩ := h2 i hi
      exact ⟨by simpa using a, b rfl⟩
  · intro counts h
    unfold sampleCountToSamples at h
    cases hp : countsToProbs counts with
    | error e => rw [hp] at h; simp at h
    | ok ps =>
      rw [hp] at h
      simp only at h
      have hps : ps = counts.map (probOf (sumI counts)) := by
        unfold countsToProbs at hp
        by_cases hneg : counts.any (· < 0) = true
        · simp [hneg] at hp
        · simp only [hneg, Bool.false_eq_true, ↓reduceIte, Except.ok.injEq] at hp
          exact hp.symm
      have key : ∀ c : ℤ,
          (if c < 0 then Drawn.bad "negative count"
            else sampleDist vac true (ps.map Option.isSome) (ps.map getQ) c.toNat draws) = .ok r →
          0 ≤ c ∧ r.length = c.toNat ∧
            ∀ i ∈ r, i < counts.length ∧ counts.getD i 0 ≠ 0 ∧ vac.getD i false = false := by
        intro c hh
        by_cases hc : c < 0
        · rw [if_pos hc] at hh; exact absurd hh (by simp)
        · rw [if_neg hc] at hh
          obtain ⟨h1, h2⟩ := sampleDist_ok _ _ _ _ _ _ _ hh
          refine ⟨by omega, h1, ?_⟩
          intro i hi
          obtain ⟨a, b, c'⟩ := h2 i hi
          simp only [List.length_map] at a
          have hlen : i < counts.length := by rw [hps] at a; simpa using a
          refine ⟨hlen, ?_, c' rfl⟩
          rw [hps, List.map_map] at b
          rw [getD_eq_getElem' _ _ (by simpa using hlen)] at b
          simp only [List.getElem_map, Function.comp] at b
          rw [getD_eq_getElem' _ _ hlen]
          intro h0
          rw [h0] at b
          simp [probOf] at b
      cases hd : deduceCount count maxShots maxSamples with
      | ok c =>
        rw [hd] at h
        obtain ⟨_, h1, h2⟩ := key _ h
        exact ⟨Or.inl ⟨c, rfl, by simpa using h1⟩, h2⟩
      | error e =>
        rw [hd] at h
        obtain ⟨h0, h1, h2⟩ := key _ h
        refine ⟨Or.inr ⟨⟨e, rfl⟩, ?_⟩, h2⟩
        rw [h1]
        exact Int.toNat_of_nonneg h0

/-- **round trip** counts → probabilities → counts: turning a count table of total `T ≥ 1` into probabilities
(`sample_count_to_probs`; zero counts are entries of probability 0 here) and back with `probs_to_sample_count` for
the same total gives the table back EXACTLY when the perturbation is zero — whatever the pick stream and the
fall-back samples (neither the repair loop nor the fall-back runs). -/
theorem counts_probs_counts_roundtrip (cs : List ℤ) (hnn : ∀ c ∈ cs, 0 ≤ c) (hT : 0 < sumI cs)
    (picks fb : List Nat) :
    probsToSampleCount ((cs.map (probOf (sumI cs))).map getQ) (cs.map fun _ => 0) (sumI cs).toNat picks fb =
      .done false cs := by
  set T := sumI cs with hTdef
  have hTq : (0 : ℚ) < T := by exact_mod_cast hT
  have hTn : ((T.toNat : ℕ) : ℚ) = (T : ℚ) := by
    have : ((T.toNat : ℕ) : ℤ) = T := Int.toNat_of_nonneg hT.le
    exact_mod_cast this
  set ps := (cs.map (probOf T)).map getQ with hps
  have hpsnn : ∀ p ∈ ps, 0 ≤ p := by
    intro p hp
    simp only [hps, List.mem_map, exists_exists_and_eq_and] at hp
    obtain ⟨c, hc, rfl⟩ := hp
    exact getQ_probOf_nonneg T c hT (hnn c hc)
  have hsum : sumQ ps = 1 := by
    rw [hps, sumQ_probOf, div_self (ne_of_gt hTq)]
  have hns : (cs.map fun _ => (0 : ℚ)) = ps.map fun _ => 0 := by
    rw [hps, List.map_map, List.map_map]; rfl
  unfold probsToSampleCount
  have hc1 : ¬ T.toNat < 1 := by omega
  rw [if_neg hc1]
  have hlen : ¬ (cs.map fun _ => (0 : ℚ)).length ≠ ps.length := by simp [hps]
  rw [if_neg hlen, hns, perturb_zero ps hpsnn]
  simp only [hsum, one_ne_zero, ↓reduceIte, div_one, one_mul, List.map_id']
  have hq : ps.map (fun x => roundHalfEven (x * ((T.toNat : ℕ) : ℚ))) = cs := by
    rw [hps, List.map_map, List.map_map]
    conv_rhs => rw [← List.map_id cs]
    apply List.map_congr_left
    intro c _
    simp only [Function.comp, hTn, getQ_probOf_mul T c hT, roundHalfEven_int, id]
  obtain ⟨c1, hc1m, hc1⟩ := exists_pos_of_sumI_pos cs hT hnn
  have hmax : ¬ maxQ ps * ((T.toNat : ℕ) : ℚ) < 1 := by
    have hmem : getQ (probOf T c1) ∈ ps := by
      simp only [hps, List.mem_map, exists_exists_and_eq_and]
      exact ⟨c1, hc1m, rfl⟩
    have h1 := maxQ_ge ps _ hmem
    have h2 : getQ (probOf T c1) * (T : ℚ) = c1 := getQ_probOf_mul T c1 hT
    have h3 : (1 : ℚ) ≤ c1 := by exact_mod_cast hc1
    rw [hTn]
    have : getQ (probOf T c1) * (T : ℚ) ≤ maxQ ps * (T : ℚ) := mul_le_mul_of_nonneg_right h1 hTq.le
    linarith
  rw [if_neg hmax, hq]
  have hd : ((T.toNat : ℕ) : ℤ) - sumI cs = 0 := by
    rw [Int.toNat_of_nonneg hT.le]; omega
  simp only [hd, lt_self_iff_false, ↓reduceIte]


/-! ## EXTENSION: `Sampler` iterations (`Model/C09Iter.lean`) -/

/-- **every iteration of a local batch job runs under the limits and the configuration it describes**, for all
configurations, iteration lists and requests: the k-th `processor.samples` call gets `max_samples`, `max_shots`,
filter, input and noise from the k-th iteration where it names them and otherwise from the sampler / processor as
they were when the job started — in particular the `max_shots_per_call` of the sampler when neither the call nor
the iteration gives a shot limit (the repaired behaviour) — whatever the other iterations are; and the job leaves
the processor's configuration and the sampler's shot limit as it found them. -/
theorem iterations_run_under_their_own_limits (c : SCfg) (maxSamplesArg : Option Nat) (its : List Iter)
    (calls : List SCfg) (cf : SCfg) (h : samplesIterate true c none maxSamplesArg its = .ok (calls, cf)) :
    calls.map noParams = its.map (fun it => noParams (applyIt
      { c with maxSamples := some (maxSamplesArg.getD samplesMax) } it
      { c with maxSamples := some (maxSamplesArg.getD samplesMax) })) ∧
    (∀ (k : Nat) (call : SCfg) (it : Iter), calls[k]? = some call → its[k]? = some it →
      call.maxShots = (match it.maxShots with | some v => some v | none => c.maxShots) ∧
      call.maxSamples = (match it.maxSamples with | some v => some v | none => some (maxSamplesArg.getD samplesMax))) ∧
    cf = { c with maxSamples := some (maxSamplesArg.getD samplesMax) } := by
  unfold samplesIterate at h
  simp only [↓reduceIte] at h
  split at h
  · simp at h
  · simp only [Except.ok.injEq, Prod.mk.injEq] at h
    obtain ⟨h1, h2⟩ := h
    have hd : ({ c with maxSamples := some (maxSamplesArg.getD samplesMax), maxShots := c.maxShots } : SCfg) =
        { c with maxSamples := some (maxSamplesArg.getD samplesMax) } := rfl
    rw [hd] at h1 h2
    have hmap := runIts_noParams { c with maxSamples := some (maxSamplesArg.getD samplesMax) } its
      { c with maxSamples := some (maxSamplesArg.getD samplesMax) }
    rw [h1] at hmap
    refine ⟨hmap, ?_, ?_⟩
    · intro k call it hk hit
      have e : (calls.map noParams)[k]? = (its.map fun it => noParams (applyIt
          { c with maxSamples := some (maxSamplesArg.getD samplesMax) } it
          { c with maxSamples := some (maxSamplesArg.getD samplesMax) }))[k]? := by rw [hmap]
      simp only [List.getElem?_map, hk, hit, Option.map_some, Option.some.injEq] at e
      have e1 := congrArg SCfg.maxShots e
      have e2 := congrArg SCfg.maxSamples e
      simp only [noParams, applyIt] at e1 e2
      exact ⟨e1, e2⟩
    · rw [← h2, applyIt_noIter]

/-- circuit parameters: when every iteration names all the variable parameters (the documented use) or none, each
iteration runs on exactly the configuration "defaults overridden by this iteration" — no dependence on the
iterations before it. -/
theorem iterations_history_independent_when_parameters_full (n : Nat) (c : SCfg) (maxSamplesArg : Option Nat)
    (its : List Iter) (calls : List SCfg) (cf : SCfg) (hn : c.params.length = n)
    (hfull : ∀ it ∈ its, fullParams n it = true)
    (h : samplesIterate true c none maxSamplesArg its = .ok (calls, cf)) :
    calls = its.map (fun it => applyIt { c with maxSamples := some (maxSamplesArg.getD samplesMax) } it
      { c with maxSamples := some (maxSamplesArg.getD samplesMax) }) := by
  unfold samplesIterate at h
  simp only [↓reduceIte] at h
  split at h
  · simp at h
  · simp only [Except.ok.injEq, Prod.mk.injEq] at h
    obtain ⟨h1, _⟩ := h
    rw [← h1]
    exact runIts_full n { c with maxSamples := some (maxSamplesArg.getD samplesMax) } hn its
      { c with maxSamples := some (maxSamplesArg.getD samplesMax) } hn hfull

/-- the code as it was: a sampler built with `max_shots_per_call = 5` and holding one iteration ran that iteration
WITHOUT shot limit and came out of the job with its limit lost -/
theorem iterations_drop_shot_limit_on_old_code :
    samplesIterate false ⟨none, some 5, some 1, 0, 0, [7]⟩ none (some 100) [⟨none, none, none, none, none, some [(0, 8)]⟩] =
      .ok ([⟨some 100, none, some 1, 0, 0, [8]⟩], ⟨some 100, none, some 1, 0, 0, [7]⟩) ∧
    samplesIterate true ⟨none, some 5, some 1, 0, 0, [7]⟩ none (some 100) [⟨none, none, none, none, none, some [(0, 8)]⟩] =
      .ok ([⟨some 100, some 5, some 1, 0, 0, [8]⟩], ⟨some 100, some 5, some 1, 0, 0, [7]⟩) := by
  decide

/-- outside the documented use: an iteration naming only SOME circuit parameters keeps, for the others, the values the
previous iteration left (`default_it | it` replaces the whole `circuit_params` dictionary) -/
theorem partial_circuit_params_depend_on_history :
    (samplesIterate true ⟨none, none, some 1, 0, 0, [0, 0]⟩ none (some 10)
      [⟨none, none, none, none, none, some [(1, 9)]⟩, ⟨none, none, none, none, none, some [(0, 3)]⟩]).map (·.1.map (·.params)) =
      .ok [[0, 9], [3, 9]] ∧
    (samplesIterate true ⟨none, none, some 1, 0, 0, [0, 0]⟩ none (some 10)
      [⟨none, none, none, none, none, some [(0, 3)]⟩]).map (·.1.map (·.params)) = .ok [[3, 0]] := by
  decide


/-- **a one-slot cache whose key is the whole question is invisible**: whatever questions were asked before, every
answer is the function's value (`Source._prob_table` keyed by photon number and photon filter); with the
counter-example of a slot keyed by the photon number alone, which answers a question about filter 2 with the table of
filter 0. -/
theorem slot_cache_transparent {K V : Type} [DecidableEq K] (f : K → V) (qs : List K) :
    (SM.run (slotStep f) none qs).2 = qs.map f ∧
    (SM.run (slotStepBy (fun q : Nat × Nat => q.1) (fun q => q.1 * 10 + q.2)) none [(3, 0), (3, 2)]).2 ≠
      [(3, 0), (3, 2)].map (fun q => q.1 * 10 + q.2) := by
  constructor
  · have key : ∀ (qs : List K) (slot : Option (K × V)), SlotOk f slot → (SM.run (slotStep f) slot qs).2 = qs.map f := by
      intro qs
      induction qs with
      | nil => intro slot _; rfl
      | cons q rest ih =>
        intro slot hs
        obtain ⟨h1, h2⟩ := slotStep_ok f slot q hs
        simp only [SM.run, List.map_cons]
        rw [h2, ih _ h1]
    exact key qs none (by intro k v e; simp at e)
  · decide

/-! ## non-vacuity: the hypotheses of the theorems above are satisfiable and the conclusions are
about runs that really happen (closed terms evaluated by the kernel) -/

-- a history that hits the sample bound (2 outputs, third `sel` is ignored: the loop has stopped)
example : (loop ⟨2, some 5, false⟩ 0
    [⟨false, 2, .sel⟩, ⟨false, 2, .phys⟩, ⟨false, 2, .sel⟩, ⟨false, 2, .sel⟩]) =
    ⟨2, 3, 0, 1, 1, 2, none⟩ := by decide
-- a history that hits the shot bound first
example : (loop ⟨2, some 3, false⟩ 0
    [⟨false, 2, .logic⟩, ⟨false, 2, .phys⟩, ⟨false, 1, .sel⟩, ⟨false, 2, .sel⟩]) =
    ⟨1, 3, 1, 1, 1, 1, none⟩ := by decide
-- an empty batch from the generator stops the loop (`IndexError` in the code)
example : (loop ⟨2, none, false⟩ 0 [⟨false, 0, .sel⟩]).halt = some .exhausted := by decide
-- a generator request really occurs and is 1 ≤ 2 ≤ 2
example : (step ⟨2, some 5, false⟩ (loop ⟨2, some 5, false⟩ 0 []) ⟨false, 2, .sel⟩).2.asked = some 2 := by
  decide
-- perf: 1 selected, 1 logic-rejected, 1 phys-rejected → (2/3, 1/2)
example : perf (loop ⟨5, none, false⟩ 3 [⟨false, 0, .sel⟩, ⟨false, 0, .logic⟩, ⟨false, 0, .phys⟩]) =
    (2 / 3, 1 / 2) := by decide +kernel
-- `_compute_samples_with_perf` with filter 2 really shrinks the shot limit: ceil(10·(1/4)/(1-1/2)) = 5
example : computeSamplesWithPerf 2 7 (1 / 4) (1 / 2) (some 10) = .ok (5, some 5) := by decide +kernel
-- the pipeline returns results under the hypotheses of `samples_pipeline_bound`
example : samplesPipeline ⟨some 3, some 2, 0, 1, 0, fun n => n, false⟩
    [⟨false, 1, .sel⟩, ⟨false, 1, .sel⟩, ⟨false, 1, .sel⟩] =
    .result 2 1 1 (some ⟨2, 2, 0, 0, 2, 2, none⟩) := by decide +kernel
example : samplesPipeline ⟨none, some 2, 0, 1, 0, fun n => n, false⟩ [] = .error "TypeError" := by
  decide +kernel
example : samplesPipeline ⟨none, none, 0, 1, 0, fun n => n, false⟩ [] = .result 0 0 1 none := by
  decide +kernel
-- `probs_to_sample_count`: too few (2+2 = 4 < 5: ties round to even), too many (4+4 = 8 > 7), fall-back
example : probsToSampleCount [1 / 2, 1 / 2] [0, 0] 5 [0] [] = .done false [3, 2] := by decide +kernel
example : probsToSampleCount [1 / 2, 1 / 2] [0, 0] 7 [1] [] = .done false [4, 3] := by decide +kernel
example : probsToSampleCount [1 / 2, 1 / 4, 1 / 4] [-1, -1, -1] 3 [] [0, 0, 1] = .done true [2, 1, 0] := by
  decide +kernel
-- a stalled repair (the stream only ever picks a key that holds 0) and its fair completion
example : repairHigh [0, 1] [0, 9] 2 [0, 0, 0, 0] = none := by decide
example : repairHigh [0, 1] [0, 9] 2 [0, 0, 0, 1] = some [0, 7] := by decide
-- regression (corpus/C09/p2sc-excess-exceeds-largest-count.json): the rounded table holds 2 counts too many
-- while no state holds more than 1, so the excess has to be taken from two different states; a
-- one-shot "take it from the most populated state, clamped at 0" would leave a total of 6
example : probsToSampleCount [13 / 64, 1 / 8, 1 / 8, 1 / 8, 1 / 8, 1 / 8, 1 / 8, 3 / 64]
    [0, 0, 0, 0, 0, 0, 0, 0] 5 [0, 0, 3, 5] [] = .done false [0, 1, 1, 0, 1, 1, 1, 0] := by decide +kernel
example : ∃ r, repairHigh (keysOf [4, 4]) [4, 4] (sumI [4, 4] - (7 : Nat)) [0, 1] = some r ∧
    sumI r = (7 : Nat) ∧ ∀ c ∈ r, 0 ≤ c :=
  probs_to_sample_count_terminates_fair [4, 4] 7 [0, 1] (by decide) (by decide) (by decide) (by decide)
-- a selected state under the hypotheses of `selected_sample_legal` (herald expecting a photon)
example : shotOutcome true 1 [(1, 1)] true [1, 1, 0] = .sel ∧ emitted [(1, 1)] false [1, 1, 0] = [1, 0] := by
  decide
example : shotOutcome true 1 [(1, 1)] true [0, 1, 0] = .phys ∧ shotOutcome true 1 [(1, 1)] true [2, 0, 0] = .logic := by
  decide
-- conversions
example : (let s := tally true 1 [(1, 0)] (fun st => decide (0 < st.getD 0 0)) (init 0) [[0, 0, 0], [1, 0, 0], [1, 1, 0]]
    (s.notSelPhys, s.notSel, s.out)) = (1, 1, 1) := by decide
example : countOf 3 [0, 2, 2, 0, 0] = [3, 0, 2] := by decide
example : countsToProbs [3, 0, 2] = .ok [some (3 / 5), none, some (2 / 5)] := by decide +kernel
example : countsToProbs [3, -1] = .error "RuntimeError" := by decide +kernel
example : (perfectLoop 2500 2500 0) = (2500, [1000, 1000, 500]) := by decide +kernel


/-! ### non-vacuity of the extension theorems -/

/-- a small sampler configuration: photon filter 1, no herald, no post-selection, no detector -/
def exSel : SelCfg := ⟨1, [], true, fun _ => true, .none⟩
/-- a provider with three draws ready for the input `|1,0>` (weight 2: the first refill takes two of them) -/
def exProv : Prov := ⟨[], [([1, 0], 2)], [([1, 0], [[1, 0], [0, 1], [0, 0]])], []⟩
def exCore : Core := ⟨[], [], 0, 0, 0, [[[1, 0]], [[1, 0]]], [], [], []⟩

-- the pooled run of two shots succeeds (hypothesis of `pooled_run_refines_lazy` and `replay_run_accounting`):
-- the first refill fetches `[|1,0>, |0,1>]` and hands them out from the END
example : ∃ p' s', loopG sfPool exSel 2 (some 2) none 5 exProv exCore = .ok (p', s') ∧
    s'.out = [[1, 0], [0, 1]] ∧ s'.shots = 2 := ⟨_, _, rfl, rfl, rfl⟩
-- and the re-ordering of that stream is `[|0,1>, |1,0>]` followed by nothing (the third draw does not fill a batch
-- of 16)
example : reorder (some 2) [[1, 0], [0, 1], [0, 0]] = [[0, 1], [1, 0]] := by
  rw [reorder_eq, reorder_eq]; decide
-- `shot_law_is_strong_simulation_law`: its hypotheses hold for a one-component input and a two-mode backend law
example : (∀ p ∈ [((1 : ℚ), [[1, 0]])], p.2 ≠ []) ∧
    (∀ k, ∀ p ∈ (fun _ : Fock => [(([0, 1] : Fock), (1 : ℚ))]) k, 2 ≤ p.1.length) := by
  constructor
  · intro p hp; simp at hp; subst hp; simp
  · intro k p hp; simp at hp; subst hp; simp
-- `accepted_samples_iid` / `expected_tallies`: a law of mass 1 of which half is retained by the filter 1
example : exSel.psf = PM.SimSpec.PS.tt.eval ∧
    PM.Dist.mass [(([1, 0] : Fock), (1 / 2 : ℚ)), ([0, 0], 1 / 2)] = 1 ∧
    PM.Dist.mass (PM.SimSpec.retained (condOf exSel .tt) [(([1, 0] : Fock), (1 / 2 : ℚ)), ([0, 0], 1 / 2)]) = 1 / 2 := by
  refine ⟨rfl, by decide +kernel, by decide +kernel⟩
-- and the conclusion on it: two shots, accepted list `[|1,0>]` has probability C(2,1)·(1/2)·(1/2)·1 = 1/2
example : exN [(([1, 0] : Fock), (1 / 2 : ℚ)), ([0, 0], 1 / 2)] 2
    (fun seen => if seen.filterMap (selOf exSel) = [[1, 0]] then 1 else 0) = 1 / 2 := by decide +kernel
-- `inputs_below_filter_only_scale`: a vacuum member dropped, the remaining weight is 1/2
example : ((1 / 2 : ℚ) ≠ 0) ∧
    ∀ p ∈ [((1 / 2 : ℚ), [(([1] : Fock), (1 : ℚ))]), (1 / 2, [([0], 1)])],
      (fun q : ℚ × PM.Dist.D => decide (q.2 = [([1], 1)])) p = false →
        ex p.2 (fun t => if 1 ≤ t.sum then 1 else 0) = 0 := by
  refine ⟨by norm_num, ?_⟩
  decide +kernel


-- conversions: two samples asked from a table whose first state is the vacuum (never handed out) …
example : probsToSamples [true, false, false] [1 / 2, 1 / 4, 1 / 4] (some 2) none none [0, 1] = .ok [1, 2] := by
  decide +kernel
-- … a count table sampled for its own total (no request given), a zero count is no key …
example : sampleCountToSamples [false, false, false] [2, 0, 1] none none none [1, 0, 0] = .ok [2, 0, 0] := by
  decide +kernel
-- … and the round trip [2, 0, 1] → [2/3, ·, 1/3] → [2, 0, 1]
example : probsToSampleCount (([2, 0, 1] : List ℤ).map (probOf 3) |>.map getQ) [0, 0, 0] 3 [] [] =
    .done false [2, 0, 1] := by decide +kernel


-- iterations: a job of two iterations under the hypotheses of `iterations_run_under_their_own_limits` /
-- `iterations_history_independent_when_parameters_full` (one parameter, named by both iterations)
example : ∃ calls cf, samplesIterate true ⟨none, some 5, some 1, 0, 0, [7]⟩ none (some 100)
    [⟨none, some 2, none, none, none, some [(0, 8)]⟩, ⟨some 3, none, none, some 4, none, some [(0, 9)]⟩] = .ok (calls, cf) ∧
    calls.map (fun c => (c.maxSamples, c.maxShots)) = [(some 100, some 2), (some 3, some 5)] ∧
    (∀ it ∈ [(⟨none, some 2, none, none, none, some [(0, 8)]⟩ : Iter), ⟨some 3, none, none, some 4, none, some [(0, 9)]⟩],
      fullParams 1 it = true) :=
  ⟨_, _, rfl, by decide, by decide⟩
-- no limit anywhere: the documented RuntimeError
example : samplesIterate true ⟨none, none, none, 0, 0, []⟩ none none [noIter] = .error "RuntimeError" := by decide


/-! ## EXTENSION (round 5)

### (a) from "the draw streams are independent with the ideal laws" to "successive lazy reads are independent draws"

`exStreams μ len sites G` is the expectation of `G` over the JOINT law of the streams: site `k` holds `len k` independent
draws of `μ k`, the sites are independent.  A `Reader` is any strategy that decides which site to read next from the values
read so far (the lazy provider is one: `shotG_lazy_is_shotRd`). -/

/-- **Fubini for adaptive reading.**  Whatever the reading strategy, running it on independent product streams that are
long enough has the law of the iterated expectation in which every read is a fresh draw from the law of its site. -/
theorem adaptive_reading_of_product_streams {K ρ : Type} [DecidableEq K] (μ : K → PM.Dist.D)
    (hμ : ∀ k, PM.Dist.mass (μ k) = 1) (ks : List K) (hnd : ks.Nodup) (rd : Reader K ρ) (len : K → ℕ)
    (hfit : rd.Fits len) (hout : ∀ k, k ∉ ks → len k = 0) (g : ρ → ℚ) :
    exStreams μ len ks (fun q => match rd.run q with
      | some r => g r
      | none => 0) = rd.exR μ g :=
  adaptive_reading μ hμ ks hnd rd len hfit hout g

/-- one shot of the modelled loop body with the lazy provider IS the run of the reader `shotRd` on the joint streams
(backend streams of the provider, detector streams of the loop state): same detected state, same streams left -/
theorem lazy_shot_is_a_reader (c : SelCfg) (q : Fock → List Fock) (s : Core) (inp : InDraw) (rest : List InDraw)
    (q' : Fock → List Fock) (s' : Core) (h : shotG sfLazy c q s inp rest = .ok (q', s')) :
    ∃ st, (shotRd c.det inp).run (joint q s.det) = some (some st) ∧ s'.seen = st :: s.seen ∧
      (shotRd c.det inp).rest (joint q s.det) = some (joint q' s'.det) :=
  shotG_lazy_is_shotRd c q s inp rest q' s' h

/-- **successive lazy shots on independent streams are independent shots**: for the emitted inputs `inps`, backend
streams holding as many draws of `bk k` as `k` occurs among the components and detector streams holding one draw per
shot for every state `T` a merge can produce, the detected states of the shots have the law of `exShots` (shot after
shot: one fresh backend draw per component, merged, one fresh detector draw) — no hypothesis on the reads is left.
`exShot_eq_shotRd` identifies one factor with the one-shot law `exShot` of theorem (4) of round 4. -/
theorem lazy_shots_are_independent_draws (bk detK : Fock → PM.Dist.D) (hbk : ∀ k, PM.Dist.mass (bk k) = 1)
    (hdet : ∀ st, PM.Dist.mass (detK st) = 1) (dm : DetMode) (inps : List InDraw) (bks T : List Fock)
    (hbn : bks.Nodup) (hTn : T.Nodup) (hb : ∀ k ∈ inps.flatten, k ∈ bks)
    (hT : ∀ inp ∈ inps, ∀ vs st, CompVals bk inp vs → mergeAll vs = some st → st ∈ T)
    (F : List (Option Fock) → ℚ) :
    exStreams (siteLaw bk detK) (shotsLen T inps) (shotSites bks T) (fun q => match (shotsRd dm inps).run q with
      | some l => F l
      | none => 0) = exShots bk detK dm inps F :=
  lazy_shots_independent_closed bk detK hbk hdet dm inps bks T hbn hTn hb hT F

theorem one_shot_reader_has_the_shot_law (inputs : List (ℚ × InDraw)) (bk detK : Fock → PM.Dist.D) (f : Fock → ℚ) :
    exShot inputs bk detK f = (inputs.map fun p => p.1 * (shotRd .random p.2).exR (siteLaw bk detK) (fun o =>
      match o with
      | some x => f x
      | none => 0)).sum :=
  exShot_eq_shotRd inputs bk detK f

/-! ### (b) the pooled provider's re-ordering does not change the law of an independent stream

`reorder_value_independent_permutation` (round 4) says WHAT the re-ordering is; this says that it is harmless: if the
backend stream of one input state holds `n` independent draws of law `d`, the sequence the pooled provider hands out
(complete batches, each from its end, the incomplete tail unused) is `reorderLen w n` independent draws of `d`. -/
theorem reordered_stream_has_the_same_law (d : PM.Dist.D) (hd : PM.Dist.mass d = 1) (w : Option Nat) (n : ℕ)
    (F : List Fock → ℚ) :
    exN d n (fun s => F (reorder w s)) = exN d (reorderLen w n) F ∧
    (∀ s : List Fock, (reorder w s).length = reorderLen w s.length) :=
  ⟨exN_reorder d hd w n F, reorder_length_eq w⟩

/-! ### (c) the `Sampler` job glue (`Model/C09Job.lean`) -/

/-- the primitive run is one the processor offers, the method itself when it is offered; there is none only when the
processor offers nothing -/
theorem job_primitive_is_offered (avail : List Cmd) (m : Cmd) :
    (∀ p, primitiveOf avail m = some p → p ∈ avail ∧ (m ∈ avail → p = m)) ∧
    (primitiveOf avail m = none ↔ avail = []) :=
  ⟨fun p h => primitiveOf_mem avail m p h, primitiveOf_none avail m⟩

/-- **the sampler's `max_shots_per_call` reaches the processor or the converter, whatever the user passes**: for every
method, offered primitive set, positional arguments and keywords for which the job runs, a `samples` request carries
exactly the sampler's shot limit, a `probs` request derives its precision from it, and when samples / counts are made
from probabilities the number handed back never exceeds it. -/
theorem job_requests_keep_max_shots_per_call (avail : List Cmd) (method : Cmd) (c : SCfg)
    (args : List (Option Nat)) (kw : Kw) (pl : Plan) (h : jobPlan avail method c [] args kw = .ok pl) :
    (pl.prim = .samples → ∃ ms, pl.call = some (.samples ms c.maxShots)) ∧
    (pl.prim = .probs → pl.call = some (.probs c.maxShots)) ∧
    (∀ s, c.maxShots = some s → method ≠ .probs → pl.prim = .probs →
      ∀ kv ∈ pl.conv, ∀ n, convertedCount kv = .ok n → n ≤ s) :=
  jobPlan_keeps_max_shots avail method c args kw pl h

/-- `Sampler.probs` on a processor that only samples: `PROBS_SIMU_SAMPLE_COUNT` samples under the sampler's shot limit,
and the converter (`samples_to_probs`) gets no keyword -/
theorem probs_from_samples_request (avail : List Cmd) (c : SCfg) (kw : Kw) (pl : Plan)
    (hp : primitiveOf avail .probs = some .samples) (h : jobPlan avail .probs c [] [] kw = .ok pl) :
    pl.call = some (.samples probsSimuCount c.maxShots) ∧ pl.conv = [(none, none)] :=
  jobPlan_probs_from_samples avail c kw pl hp h

/-- the count deduced from the converter's keywords is within every limit given -/
theorem converted_count_within_limits (kv : Option (Option Nat) × Option (Option Nat)) (n : Nat)
    (h : convertedCount kv = .ok n) :
    (∀ s, kv.2.join = some s → n ≤ s) ∧ (∀ m, kv.1.join = some m → n ≤ m) :=
  deduceCount_le _ _ n h

-- non-vacuity
example : ∃ pl, jobPlan [.probs] .samples ⟨none, some 5, none, 0, 0, []⟩ [] [some 100] ⟨none, none, false⟩ = .ok pl ∧
    pl.prim = .probs ∧ pl.conv = [(some (some 100), some (some 5))] ∧ convertedCount (some (some 100), some (some 5)) = .ok 5 :=
  ⟨_, rfl, rfl, rfl, rfl⟩
example : ∃ pl, jobPlan [.samples] .probs ⟨none, some 7, none, 0, 0, []⟩ [] [] ⟨none, none, false⟩ = .ok pl ∧
    pl.call = some (.samples 10000 (some 7)) := ⟨_, rfl, rfl⟩
example : primitiveOf [.samples] .probs = some .samples := rfl
-- a keyword the job cannot place is refused, a second positional argument goes to the converter
example : jobPlan [.samples] .samples ⟨none, none, none, 0, 0, []⟩ [] [some 3] ⟨none, some (some 2), false⟩ =
    .error "RuntimeError" := rfl
example : reorderLen none 250 = 210 := by
  rw [reorderLen_eq]; simp only [minS, maxS, grow]; rw [reorderLen_eq]; simp only [minS, maxS, grow]
  rw [reorderLen_eq]; decide
-- `lazy_shots_are_independent_draws`: hypotheses hold for one shot of a one-component input with a two-state backend law
example : (∀ k ∈ ([[[1, 0]]] : List InDraw).flatten, k ∈ [[1, 0]]) := by decide


/-! ## EXTENSION (round 6): the joint law over all pools, and the whole loop with its stopping rule

Round 5 left three gaps: `pooled_run_refines_lazy` + `reordered_stream_has_the_same_law` were per stream and not
composed; `lazy_shots_are_independent_draws` was for a GIVEN list of inputs and a FIXED number of shots.  Here:

 (a) `pooled_run_succeeds_iff_lazy`: the refinement holds in both directions (the pooled provider fails exactly when
     the lazy provider finds the re-ordered stream empty), so the two runs have the same value for EVERY observable;
 (b) `pooled_run_has_the_lazy_law` / `…_with_detector_streams`: ONE statement over all pools — on independent ideal
     streams (site `k` holds `n k` independent draws of `bk k`, sites independent) the run of the pooled provider
     has the law of the run of the lazy provider on independent ideal streams of `reorderLen (weight k) (n k)`
     draws (after what the pools already hold);
 (c) `lazy_loop_is_a_reader`: the whole loop `loopG sfLazy` — the generator's batches, the shots, the stop when
     `max_samples` are selected or `max_shots` shots are done — IS the run of the reading strategy `loopRd`;
 (d) `sampling_loop_law_lazy`, `sampling_loop_law_pooled`: hence (Fubini for adaptive reading) its law on independent
     ideal streams is `exLoop`: every shot a fresh independent draw of the one-shot law of its emitted input, the loop
     stopping by its own rule (`sampling_loop_law_unfolds` spells the recursion out); for the pooled provider
     (the code) the same, provided the pools hand out enough draws;
 (e) `stopped_loop_returns_first_accepted_of_iid_shots`: when the emitted inputs share the one-shot law `d`, the
     samples returned under the stopping rule are the first `max_samples` accepted ones among `max_shots`
     independent shots of law `d` — the stopping rule does not bias them.

`okVal F r` is `F` of the final loop state of a finished run and 0 for a run that ends in an error (a stream ran out,
an error of the code); `noDet` forgets the detector draws left over. -/

/-- (a) the pooled provider and the lazy provider on the re-ordered streams finish together, in the same loop state -/
theorem pooled_run_succeeds_iff_lazy (c : SelCfg) (ms : Nat) (sh : Option Nat) (ge : Option String) (fuel : Nat)
    (p : Prov) (s s' : Core) :
    (∃ p', loopG sfPool c ms sh ge fuel p s = .ok (p', s')) ↔
      (∃ q', loopG sfLazy c ms sh ge fuel (lazyOf p) s = .ok (q', s')) :=
  loopG_pool_iff_lazy c ms sh ge fuel p s s'

/-- (b) **the joint law over all pools** (backend streams; any loop state, so any detector streams) -/
theorem pooled_run_has_the_lazy_law (bk : Fock → PM.Dist.D) (hbk : ∀ k, PM.Dist.mass (bk k) = 1) (ks : List Fock)
    (n : Fock → ℕ) (pools : AL (List Fock)) (weights : AL Nat) (reqs : List (Fock × Nat))
    (c : SelCfg) (ms : Nat) (sh : Option Nat) (ge : Option String) (fuel : Nat) (s : Core) (F : Core → ℚ) :
    exStreams bk n ks (fun S => okVal F (loopG sfPool c ms sh ge fuel (poolProv pools weights reqs ks S) s)) =
      exStreams bk (fun k => reorderLen (aget k weights) (n k)) ks
        (fun R => okVal F (loopG sfLazy c ms sh ge fuel (fun k => agetD k pools [] ++ R k) s)) :=
  pooled_run_joint bk hbk ks n pools weights reqs c ms sh ge fuel s F

/-- (b') the same with the detector streams drawn too (sites `shotSites bks T`) -/
theorem pooled_run_has_the_lazy_law_with_detector_streams (bk detK : Fock → PM.Dist.D)
    (hbk : ∀ k, PM.Dist.mass (bk k) = 1) (len : Site → ℕ)
    (pools : AL (List Fock)) (weights : AL Nat) (reqs : List (Fock × Nat)) (bks T : List Fock)
    (c : SelCfg) (ms : Nat) (sh : Option Nat) (ge : Option String) (fuel : Nat) (s : Core) (F : Core → ℚ) :
    exStreams (siteLaw bk detK) len (shotSites bks T) (fun Q => okVal F
        (loopG sfPool c ms sh ge fuel (poolProv pools weights reqs bks (fun k => Q (.bk k)))
          { s with det := detOf T Q })) =
      exStreams (siteLaw bk detK) (siteLenT weights len) (shotSites bks T) (fun Q => okVal F
        (loopG sfLazy c ms sh ge fuel (fun k => agetD k pools [] ++ Q (.bk k)) { s with det := detOf T Q })) :=
  pooled_loop_joint bk detK hbk len pools weights reqs bks T c ms sh ge fuel s F

/-- (c) the whole loop of the lazy provider is the run of the reading strategy `loopRd` on the joint streams -/
theorem lazy_loop_is_a_reader (c : SelCfg) (ms : Nat) (sh : Option Nat) (ge : Option String) (F : Core → ℚ)
    (fuel : Nat) (q : Fock → List Fock) (s : Core) :
    okVal (fun r => F (noDet r)) (loopG sfLazy c ms sh ge fuel q s) =
      valR F ((loopRd c ms sh ge fuel (noDet s)).run (joint q s.det)) :=
  loopG_lazy_is_loopRd c ms sh ge F fuel q s

/-- the recursion defining the law `exLoop` of the loop -/
theorem sampling_loop_law_unfolds (bk detK : Fock → PM.Dist.D) (c : SelCfg) (ms : Nat) (sh : Option Nat)
    (ge : Option String) (fuel : Nat) (s : Core) (F : Core → ℚ) :
    exLoop bk detK c ms sh ge 0 s F = 0 ∧
    exLoop bk detK c ms sh ge (fuel + 1) s F =
      if !condR ms sh s then F s
      else
        match nextShot ms sh ge s with
        | .error _ => 0
        | .ok (s1, inp, rest) =>
          (shotRd c.det inp).exR (siteLaw bk detK) fun o =>
            match o with
            | none => 0
            | some st => exLoop bk detK c ms sh ge fuel (afterShot c s1 rest st) F :=
  ⟨rfl, rfl⟩

/-- (d) **the law of the sampling loop, stopping rule included, on independent ideal streams** (lazy provider) -/
theorem sampling_loop_law_lazy (bk detK : Fock → PM.Dist.D) (hbk : ∀ k, PM.Dist.mass (bk k) = 1)
    (hdet : ∀ st, PM.Dist.mass (detK st) = 1)
    (c : SelCfg) (ms : Nat) (sh : Option Nat) (ge : Option String) (fuel : Nat) (s : Core) (bks T : List Fock)
    (hbn : bks.Nodup) (hTn : T.Nodup) (len : Site → ℕ)
    (hlen : ∀ x, shotsLen T (s.batch ++ s.gens.flatten) x ≤ len x)
    (hout : ∀ x, x ∉ shotSites bks T → len x = 0)
    (hT : ∀ inp ∈ s.batch ++ s.gens.flatten, ∀ vs st, CompVals bk inp vs → mergeAll vs = some st → st ∈ T)
    (F : Core → ℚ) :
    exStreams (siteLaw bk detK) len (shotSites bks T) (fun Q => okVal (fun r => F (noDet r))
        (loopG sfLazy c ms sh ge fuel (fun k => Q (.bk k)) { s with det := detOf T Q })) =
      exLoop bk detK c ms sh ge fuel (noDet s) F :=
  lazy_loop_law bk detK hbk hdet c ms sh ge fuel s bks T hbn hTn len hlen hout hT F

/-- (d') **the same for the code's pooled provider** (pools empty at the start, weights as they are) -/
theorem sampling_loop_law_pooled (bk detK : Fock → PM.Dist.D) (hbk : ∀ k, PM.Dist.mass (bk k) = 1)
    (hdet : ∀ st, PM.Dist.mass (detK st) = 1)
    (c : SelCfg) (ms : Nat) (sh : Option Nat) (ge : Option String) (fuel : Nat) (s : Core) (bks T : List Fock)
    (hbn : bks.Nodup) (hTn : T.Nodup) (weights : AL Nat) (reqs : List (Fock × Nat)) (len : Site → ℕ)
    (hlen : ∀ x, shotsLen T (s.batch ++ s.gens.flatten) x ≤ siteLenT weights len x)
    (hout : ∀ x, x ∉ shotSites bks T → len x = 0)
    (hT : ∀ inp ∈ s.batch ++ s.gens.flatten, ∀ vs st, CompVals bk inp vs → mergeAll vs = some st → st ∈ T)
    (F : Core → ℚ) :
    exStreams (siteLaw bk detK) len (shotSites bks T) (fun Q => okVal (fun r => F (noDet r))
        (loopG sfPool c ms sh ge fuel (poolProv [] weights reqs bks (fun k => Q (.bk k)))
          { s with det := detOf T Q })) =
      exLoop bk detK c ms sh ge fuel (noDet s) F :=
  pooled_loop_law bk detK hbk hdet c ms sh ge fuel s bks T hbn hTn weights reqs len hlen hout hT F


/-- (e) **the stopping rule does not bias the returned samples**: when every emitted input still in the batch has the
one-shot law `d` (hypothesis `H`; e.g. `single_component_input_has_the_backend_law`), the loop with
`max_samples = ms` and `max_shots = K` returns — for every observable `G` of the returned list — what one gets by
drawing ALL the `K - shots` remaining shots independently from `d` and keeping the first `ms - |out|` accepted
ones (`stoppedOut`). -/
theorem stopped_loop_returns_first_accepted_of_iid_shots (bk detK : Fock → PM.Dist.D) (d : PM.Dist.D)
    (hd : PM.Dist.mass d = 1) (c : SelCfg) (ms K : Nat) (ge : Option String) (G : List Fock → ℚ)
    (fuel : ℕ) (s : Core) (hf : K - s.shots < fuel) (hb : K - s.shots ≤ s.batch.length)
    (H : ∀ inp ∈ s.batch, ∀ g : Option Fock → ℚ,
      (shotRd c.det inp).exR (siteLaw bk detK) g = ex d (fun t => g (some t))) :
    exLoop bk detK c ms (some K) ge fuel s (fun s' => G s'.out) =
      exN d (K - s.shots) (fun seen => G (stoppedOut c ms s.out seen)) ∧
    (∀ seen, stoppedOut c ms s.out seen =
      ((seen.filterMap (selOf c)).take (ms - s.out.length)).reverse ++ s.out) :=
  ⟨stopped_loop_iid bk detK d hd c ms K ge G (K - s.shots) fuel s rfl hf hb H, fun _ => rfl⟩

/-- (e') **the law of the returned samples under the stopping rule**: started on empty counters, the loop returns
exactly `o` (in the order of the shots) with probability `stopW r N ms |o| · ∏ᵢ μ(oᵢ)` — a function of the NUMBER
of samples times the product of the one-shot acceptance probabilities (`r` = one-shot rejection probability, `N` =
shots allowed): given their number, the returned samples are independent, each with the conditional law; below
`ms` the weight is the binomial one; and in `SimSpec` terms the product is
`(mass retained)^|o| · ∏ᵢ conditioned(oᵢ)` — the law strong simulation reports. -/
theorem returned_samples_law_under_the_stopping_rule (bk detK : Fock → PM.Dist.D) (d : PM.Dist.D)
    (hd : PM.Dist.mass d = 1) (c : SelCfg) (ms K : Nat) (ge : Option String)
    (fuel : ℕ) (s : Core) (hs : s.out = []) (hf : K - s.shots < fuel) (hb : K - s.shots ≤ s.batch.length)
    (H : ∀ inp ∈ s.batch, ∀ g : Option Fock → ℚ,
      (shotRd c.det inp).exR (siteLaw bk detK) g = ex d (fun t => g (some t)))
    (o : List Fock) :
    exLoop bk detK c ms (some K) ge fuel s (fun s' => if s'.out.reverse = o then 1 else 0) =
      stopW (muNone d (selOf c)) (K - s.shots) ms o.length * (o.map (muSel d (selOf c))).prod ∧
    (o.length < ms → stopW (muNone d (selOf c)) (K - s.shots) ms o.length =
      ((K - s.shots).choose o.length : ℚ) * muNone d (selOf c) ^ (K - s.shots - o.length)) ∧
    (∀ ps : PM.SimSpec.PS, c.psf = ps.eval → PM.Dist.mass (PM.SimSpec.retained (condOf c ps) d) ≠ 0 →
      muNone d (selOf c) = 1 - PM.Dist.mass (PM.SimSpec.retained (condOf c ps) d) ∧
      (o.map (muSel d (selOf c))).prod =
        PM.Dist.mass (PM.SimSpec.retained (condOf c ps) d) ^ o.length *
          (o.map (PM.Dist.get (PM.SimSpec.conditioned (condOf c ps) d))).prod) := by
  refine ⟨?_, fun h => stopW_lt _ _ _ _ h, fun ps hps ha => ⟨muNone_eq c ps hps d hd, prod_muSel c ps hps d ha o⟩⟩
  rw [stopped_loop_iid bk detK d hd c ms K ge (fun out => if out.reverse = o then 1 else 0) (K - s.shots) fuel s rfl
    hf hb H, ← exN_first_accepted d hd (selOf c) (K - s.shots) ms o]
  apply exN_congr'
  intro l
  unfold stoppedOut
  rw [hs]
  simp only [List.length_nil, Nat.sub_zero, List.append_nil, List.reverse_reverse]

/-- an emitted input of one component under detectors that return the state as it is (no detector / PNR): its
one-shot law is the backend's law for that component — hypothesis `H` of (e), (e') holds with `d = bk k` -/
theorem single_component_input_has_the_backend_law (bk detK : Fock → PM.Dist.D) (k : Fock)
    (g : Option Fock → ℚ) :
    (shotRd .none [k]).exR (siteLaw bk detK) g = ex (bk k) (fun t => g (some t)) :=
  shotRd_single_none bk detK k g

/-! ### non-vacuity of the round-6 theorems -/

/-- a backend that answers `|1,0>` or `|0,1>` with probability 1/2 each, whatever the input -/
def exBk : Fock → PM.Dist.D := fun _ => [([1, 0], 1 / 2), ([0, 1], 1 / 2)]
def exDetK : Fock → PM.Dist.D := fun st => [(st, 1)]
/-- two emitted inputs `|1,0>` in the first batch -/
def exCore2 : Core := ⟨[], [], 0, 0, 0, [[[1, 0]], [[1, 0]]], [], [], []⟩

theorem exBk_mass : ∀ k, PM.Dist.mass (exBk k) = 1 := by
  intro k
  show PM.Dist.mass [(([1, 0] : Fock), (1 / 2 : ℚ)), ([0, 1], 1 / 2)] = 1
  decide +kernel

theorem exDetK_mass : ∀ st, PM.Dist.mass (exDetK st) = 1 := by
  intro st
  simp [exDetK, PM.Dist.mass]

-- hypothesis `H` of (e), (e') on `exCore2` (photon filter 1, no detectors): `d = exBk |1,0>`
example : ∀ inp ∈ exCore2.batch, ∀ g : Option Fock → ℚ,
    (shotRd exSel.det inp).exR (siteLaw exBk exDetK) g = ex (exBk [1, 0]) (fun t => g (some t)) := by
  intro inp hinp g
  have : inp = [[1, 0]] := by
    simp only [exCore2, List.mem_cons, List.not_mem_nil, or_false, or_self] at hinp
    exact hinp
  subst this
  exact shotRd_single_none exBk exDetK [1, 0] g
-- and the other hypotheses: 2 shots allowed, 2 inputs in the batch, fuel 5
example : 2 - exCore2.shots < 5 ∧ 2 - exCore2.shots ≤ exCore2.batch.length ∧ exCore2.out = [] := by decide
-- the weight of "one sample returned although two were wanted": C(2,1)·r, and of "two returned": 1
example : stopW (1 / 2) 2 2 1 = 1 ∧ stopW (1 / 2) 2 2 2 = 1 ∧ stopW (1 / 2) 3 1 1 = 7 / 4 := by
  refine ⟨?_, ?_, ?_⟩ <;> (simp only [stopW]; norm_num)


-- hypotheses of `sampling_loop_law_lazy` / `sampling_loop_law_pooled` on `exCore2`: the input states are `|1,0>`, the
-- states that may reach the detectors are the two answers of the backend
theorem exCore2_merges : ∀ inp ∈ exCore2.batch ++ exCore2.gens.flatten, ∀ vs st, CompVals exBk inp vs →
    mergeAll vs = some st → st ∈ [([1, 0] : Fock), [0, 1]] := by
  intro inp hinp vs st hcv hm
  have hi : inp = [[1, 0]] := by
    simp only [exCore2, List.flatten_nil, List.append_nil, List.mem_cons, List.not_mem_nil, or_false,
      or_self] at hinp
    exact hinp
  subst hi
  unfold CompVals at hcv
  cases hcv with
  | cons h1 h2 =>
    cases h2
    obtain ⟨w, hw⟩ := h1
    simp only [exBk, List.mem_cons, Prod.mk.injEq, List.not_mem_nil, or_false] at hw
    rcases hw with ⟨rfl, _⟩ | ⟨rfl, _⟩
    · have e : mergeAll [[1, 0]] = some [1, 0] := by decide
      rw [e] at hm
      cases hm
      decide
    · have e : mergeAll [[0, 1]] = some [0, 1] := by decide
      rw [e] at hm
      cases hm
      decide

/-- stream lengths for the pooled provider with weight 2 for `|1,0>`: two backend draws (one complete batch), two
detector draws for each of the two states -/
def exLen : Site → ℕ
  | .bk k => if k = [1, 0] then 2 else 0
  | .det st => if st ∈ [([1, 0] : Fock), [0, 1]] then 2 else 0

theorem exLen_enough : ∀ x, shotsLen [[1, 0], [0, 1]] (exCore2.batch ++ exCore2.gens.flatten) x ≤
    siteLenT [([1, 0], 2)] exLen x := by
  intro x
  cases x with
  | bk k =>
    by_cases hk : k = [1, 0]
    · subst hk
      have e : reorderLen (aget [1, 0] [(([1, 0] : Fock), 2)]) 2 = 2 := by
        rw [reorderLen_eq]
        simp only [aget, findKey, ↓reduceIte, Option.getD_some, minS, maxS, grow]
        rw [show (2 - min 2 2000) = 0 by decide, reorderLen_zero]
        decide
      simp only [siteLenT, exLen, ↓reduceIte, e]
      decide
    · have hc : (exCore2.batch ++ exCore2.gens.flatten).flatten.count k = 0 := by
        apply List.count_eq_zero.mpr
        intro hmem
        simp only [exCore2, List.flatten_nil, List.append_nil, List.flatten_cons, List.mem_append, List.mem_cons,
          List.not_mem_nil, or_false, or_self] at hmem
        exact hk hmem
      simp only [shotsLen, hc, Nat.zero_le]
  | det st => exact Nat.le_refl _

theorem exLen_out : ∀ x, x ∉ shotSites [[1, 0]] [[1, 0], [0, 1]] → exLen x = 0 := by
  intro x hx
  cases x with
  | bk k =>
    have hk : k ≠ [1, 0] := fun e => hx ((bk_mem_shotSites _ _ k).2 (by rw [e]; decide))
    simp only [exLen, hk, ↓reduceIte]
  | det st =>
    have hst : st ∉ [([1, 0] : Fock), [0, 1]] := fun e => hx ((det_mem_shotSites _ _ st).2 e)
    simp only [exLen, hst, ↓reduceIte]

-- the instance of `sampling_loop_law_pooled`: the code's provider on streams of 2 backend draws and 2 + 2 detector
-- draws, `max_samples = 2`, `max_shots = 2`, any observable
example (F : Core → ℚ) :
    exStreams (siteLaw exBk exDetK) exLen (shotSites [[1, 0]] [[1, 0], [0, 1]]) (fun Q =>
        okVal (fun r => F (noDet r)) (loopG sfPool exSel 2 (some 2) none 5
          (poolProv [] [([1, 0], 2)] [] [[1, 0]] (fun k => Q (.bk k))) { exCore2 with det := detOf [[1, 0], [0, 1]] Q })) =
      exLoop exBk exDetK exSel 2 (some 2) none 5 (noDet exCore2) F :=
  sampling_loop_law_pooled exBk exDetK exBk_mass exDetK_mass exSel 2 (some 2) none 5 exCore2 [[1, 0]]
    [[1, 0], [0, 1]] (by decide) (by decide) [([1, 0], 2)] [] exLen exLen_enough exLen_out exCore2_merges F
-- … and the value of the right-hand side for "two samples are returned": both shots are accepted (each answer
-- holds one photon, the filter asks for one)
example : exLoop exBk exDetK exSel 2 (some 2) none 5 (noDet exCore2) (fun s => if s.out.length = 2 then 1 else 0) = 1 := by
  decide +kernel
-- `sampling_loop_law_lazy` on the streams of `shotsLen` themselves
example (F : Core → ℚ) :
    exStreams (siteLaw exBk exDetK) (shotsLen [[1, 0], [0, 1]] (exCore2.batch ++ exCore2.gens.flatten))
        (shotSites [[1, 0]] [[1, 0], [0, 1]]) (fun Q =>
        okVal (fun r => F (noDet r)) (loopG sfLazy exSel 2 (some 2) none 5 (fun k => Q (.bk k))
          { exCore2 with det := detOf [[1, 0], [0, 1]] Q })) =
      exLoop exBk exDetK exSel 2 (some 2) none 5 (noDet exCore2) F :=
  sampling_loop_law_lazy exBk exDetK exBk_mass exDetK_mass exSel 2 (some 2) none 5 exCore2 [[1, 0]]
    [[1, 0], [0, 1]] (by decide) (by decide) _ (fun _ => Nat.le_refl _)
    (shotsLen_out [[1, 0]] [[1, 0], [0, 1]] _ (by decide)) exCore2_merges F
-- `pooled_run_has_the_lazy_law`: its hypothesis (laws of mass 1) holds for `exBk`; the lengths handed out: a
-- stream of 3 draws under weight 2 gives one complete batch
example : reorderLen (some 2) 3 = 2 := by
  rw [reorderLen_eq]
  simp only [Option.getD_some, minS, maxS, grow]
  rw [reorderLen_eq]
  decide


/-! ### wave 10: hypothesis `H` of (e), (e') discharged for one-component inputs; its necessity -/

/-- (e) with hypothesis `H` DISCHARGED: every emitted input still in the batch is the one-component input `[k]`
(perfect source / indistinguishable photons) and the detectors return the state as it is (`c.det = .none`); only the
backend's law for `k` must have mass 1.  `stoppedOut` is written out. -/
theorem stopped_loop_single_component_inputs (bk detK : Fock → PM.Dist.D) (k : Fock)
    (hk : PM.Dist.mass (bk k) = 1) (c : SelCfg) (hc : c.det = .none) (ms K : Nat) (ge : Option String)
    (G : List Fock → ℚ) (fuel : ℕ) (s : Core) (hf : K - s.shots < fuel) (hb : K - s.shots ≤ s.batch.length)
    (hin : ∀ inp ∈ s.batch, inp = [k]) :
    exLoop bk detK c ms (some K) ge fuel s (fun s' => G s'.out) =
      exN (bk k) (K - s.shots) (fun seen =>
        G (((seen.filterMap (selOf c)).take (ms - s.out.length)).reverse ++ s.out)) :=
  (stopped_loop_returns_first_accepted_of_iid_shots bk detK (bk k) hk c ms K ge G fuel s hf hb
    (fun inp hi g => by rw [hin inp hi, hc]; exact single_component_input_has_the_backend_law bk detK k g)).1

/-- (e') with hypothesis `H` discharged in the same way, and composed with its `SimSpec` clause into ONE equation:
P(returned = o) = stopW(1 - a, K - shots, ms, |o|) · a^|o| · ∏ᵢ conditioned(oᵢ), `a` = mass retained by strong
simulation's selection of the backend law of `k`. -/
theorem returned_samples_law_single_component_inputs (bk detK : Fock → PM.Dist.D) (k : Fock)
    (hk : PM.Dist.mass (bk k) = 1) (c : SelCfg) (hc : c.det = .none) (ms K : Nat) (ge : Option String)
    (fuel : ℕ) (s : Core) (hs : s.out = []) (hf : K - s.shots < fuel) (hb : K - s.shots ≤ s.batch.length)
    (hin : ∀ inp ∈ s.batch, inp = [k]) (o : List Fock) :
    exLoop bk detK c ms (some K) ge fuel s (fun s' => if s'.out.reverse = o then 1 else 0) =
      stopW (muNone (bk k) (selOf c)) (K - s.shots) ms o.length * (o.map (muSel (bk k) (selOf c))).prod ∧
    (∀ ps : PM.SimSpec.PS, c.psf = ps.eval → PM.Dist.mass (PM.SimSpec.retained (condOf c ps) (bk k)) ≠ 0 →
      exLoop bk detK c ms (some K) ge fuel s (fun s' => if s'.out.reverse = o then 1 else 0) =
        stopW (1 - PM.Dist.mass (PM.SimSpec.retained (condOf c ps) (bk k))) (K - s.shots) ms o.length *
          (PM.Dist.mass (PM.SimSpec.retained (condOf c ps) (bk k)) ^ o.length *
            (o.map (PM.Dist.get (PM.SimSpec.conditioned (condOf c ps) (bk k)))).prod)) := by
  have h := returned_samples_law_under_the_stopping_rule bk detK (bk k) hk c ms K ge fuel s hs hf hb
    (fun inp hi g => by rw [hin inp hi, hc]; exact single_component_input_has_the_backend_law bk detK k g) o
  refine ⟨h.1, fun ps hps ha => ?_⟩
  obtain ⟨h1, h2⟩ := h.2.2 ps hps ha
  rw [h.1, h1, h2]

-- non-vacuity: all hypotheses hold on `exCore2` / `exSel` / `exBk`
example (o : List Fock) :
    exLoop exBk exDetK exSel 2 (some 2) none 5 exCore2 (fun s' => if s'.out.reverse = o then 1 else 0) =
      stopW (muNone (exBk [1, 0]) (selOf exSel)) (2 - exCore2.shots) 2 o.length *
        (o.map (muSel (exBk [1, 0]) (selOf exSel))).prod :=
  (returned_samples_law_single_component_inputs exBk exDetK [1, 0] (exBk_mass _) exSel rfl 2 2 none 5 exCore2 rfl
    (by decide) (by decide) (by decide) o).1

/-- the backend that returns its input -/
def bkId : Fock → PM.Dist.D := fun k => [(k, 1)]

/-- NECESSITY of hypothesis `H` of (e'): on the batch `[|1,0>], [|0,0>]` (filter 1, identity backend) every other
hypothesis holds and `H` holds for the FIRST input with `d = bkId |1,0>`, yet the closed form gives 1 for
"`|1,0>, |1,0>` is returned" while the loop's law gives 0 (the second shot is rejected). -/
theorem closed_form_needs_a_shared_one_shot_law :
    exLoop bkId exDetK exSel 2 (some 2) none 5 ⟨[], [], 0, 0, 0, [[[1, 0]], [[0, 0]]], [], [], []⟩
        (fun s' => if s'.out.reverse = [[1, 0], [1, 0]] then 1 else 0) = 0 ∧
      stopW (muNone (bkId [1, 0]) (selOf exSel)) 2 2 2 *
        (([[1, 0], [1, 0]] : List Fock).map (muSel (bkId [1, 0]) (selOf exSel))).prod = 1 ∧
      PM.Dist.mass (bkId [1, 0]) = 1 ∧
      (∀ g : Option Fock → ℚ, (shotRd exSel.det [[1, 0]]).exR (siteLaw bkId exDetK) g =
        ex (bkId [1, 0]) (fun t => g (some t))) := by
  refine ⟨by decide +kernel, by decide +kernel, by decide +kernel, fun g => ?_⟩
  exact single_component_input_has_the_backend_law bkId exDetK [1, 0] g


/-! ### what is still NOT a theorem after round 6 (validated by the correspondence only)

  … the EMISSION of the inputs as a random site: `exLoop` is the law for GIVEN emitted inputs (the batches the
    generator handed back); an emitted input is a list of Fock states while a `Reader` reads Fock states, so the
    average over i.i.d. emissions from the trimmed mixture — which would turn the `d` of (e), (e') into the mixture
    law `exShot` of theorem (4) for a noisy source — is not composed.  (e), (e') therefore ask that the inputs of the
    batch share one one-shot law (`single_component_input_has_the_backend_law` is the proved instance);
    WAVE 10: `stopped_loop_single_component_inputs` / `returned_samples_law_single_component_inputs` are (e), (e')
    with `H` discharged for batches of one one-component input without detectors, and
    `closed_form_needs_a_shared_one_shot_law` shows `H` cannot be dropped;
  … (e), (e') without shot limit, or across generator calls (the `K - shots` inputs must be in the current batch);
    without shot limit the law is `exLoop` only — a closed form needs an infinite sum;
  … the randomness of the draws `prepare` moves into the pools before the loop (`sampling_loop_law_pooled` starts on
    empty pools; `pooled_run_has_the_lazy_law` takes the pools' content as given values);
  … that the sites' ideal laws are the laws of the native sampler, of `Source.generate_samples` and of
    `simulate_detectors_sample` (external; goodness-of-fit parts E/E2/E3 of the harness). -/

end PM.C09
