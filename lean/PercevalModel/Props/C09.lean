/-
  C09 — property theorems about the model `Model/C09.lean` of the sampling bookkeeping.

  PROVED here (for every outcome sequence, batch-size sequence, cancel pattern, perturbation, pick
  sequence, count): the limits of `_noisy_sampling` and of the `samples` glue, the exact stopping
  condition, the performance formulas, the total of `probs_to_sample_count` (with termination of
  its repair loop under every fair pick sequence), totals of the samples/counts/probs conversions.

  NOT a theorem (validated statistically by `harness/c09.py`, labelled VALIDATION in the evidence):
  samples follow the distribution strong simulation computes; performances estimate the same
  quantities; seed reproducibility of the Python-layer random paths.
-/
import PercevalModel.Lemmas.C09
import Mathlib.Algebra.Order.Field.Rat
import Mathlib.Tactic.FieldSimp
import Mathlib.Tactic.Positivity
import Mathlib.Tactic.Linarith
import Mathlib.Tactic.Ring

set_option linter.unusedSimpArgs false

namespace PM.C09

/-! ## the `_noisy_sampling` loop -/

/-- `noisy_loop_bounds`: whatever the per-shot outcomes, the batch sizes handed back by the
generator and the cancel answers are, after any number of iterations
* at most `max_samples` states are in the output,
* at most `max_shots` shots were taken (when a shot limit is given),
* there are no more outputs than shots, every shot being classified exactly once,
* hence at most `min(max_samples, max_shots)` outputs (`None` = no limit). -/
theorem noisy_loop_bounds (c : Cfg) (firstBatch : Nat) (ops : List Shot)
    (s : St) (hs : s = loop c firstBatch ops) :
    s.out ≤ c.maxSamples ∧
    (∀ k, c.maxShots = some k → s.shots ≤ k) ∧
    s.out ≤ s.shots ∧
    s.shots = s.out + s.notSel + s.notSelPhys ∧
    (∀ L, limit (some c.maxSamples) c.maxShots = some L → s.out ≤ L) := by
  have h := inv_loop c firstBatch ops
  rw [← hs] at h
  refine ⟨h.out_le, h.shots_le, ?_, h.account, ?_⟩
  · have := h.account; omega
  · intro L hL
    have h1 := h.out_le
    have h3 := h.account
    cases hsh : c.maxShots with
    | none =>
      simp [limit, hsh] at hL; omega
    | some k =>
      have h2 := h.shots_le k hsh
      simp [limit, hsh] at hL; omega

/-- `noisy_loop_stops_exactly`: the loop is stopped exactly when the sample bound is reached, the
shot bound is reached, the callback cancelled, or the generator handed back nothing
(`IndexError`); once stopped nothing changes any more; and as long as it is not stopped every
iteration so far was a shot (it never idles or stops early). -/
theorem noisy_loop_stops_exactly (c : Cfg) (firstBatch : Nat) (ops : List Shot)
    (s : St) (hs : s = loop c firstBatch ops) :
    (stopped c s = true ↔
      (s.out = c.maxSamples ∨ (∃ k, c.maxShots = some k ∧ s.shots = k) ∨ s.halt ≠ none)) ∧
    (stopped c s = true → ∀ more, loop c firstBatch (ops ++ more) = s) ∧
    (stopped c s = false → s.shots = ops.length) := by
  have h := inv_loop c firstBatch ops
  rw [← hs] at h
  refine ⟨?_, ?_, ?_⟩
  · constructor
    · intro hst
      by_cases hh : s.halt = none
      · have hc : cond c s = false := by
          simp [stopped, hh] at hst; exact hst
        by_cases ho : s.out = c.maxSamples
        · exact Or.inl ho
        · right; left
          have ho' : s.out < c.maxSamples := by have := h.out_le; omega
          cases hsh : c.maxShots with
          | none => simp [cond, hsh, ho'] at hc
          | some k =>
            refine ⟨k, rfl, ?_⟩
            have := h.shots_le k hsh
            simp [cond, hsh, ho'] at hc
            omega
      · exact Or.inr (Or.inr hh)
    · rintro (ho | ⟨k, hk, hs⟩ | hh)
      · simp [stopped, cond, ho]
      · simp [stopped, cond, hk, hs]
      · cases hx : s.halt with
        | none => exact absurd hx hh
        | some x => simp [stopped, hx]
  · intro hst more
    rw [hs] at hst ⊢
    show PM.SM.exec (step c) (init firstBatch) (ops ++ more) = _
    rw [PM.SM.exec_append]
    exact exec_stopped c _ hst more
  · intro hst
    rw [hs] at hst ⊢
    have := (running_shots c (init firstBatch) ops hst).2
    simpa [init, loop] using this

/-- `generator_requests_bounded`: whenever the loop asks the generator for a new batch, it asks
for at least one input and for no more than what is still missing from either limit. -/
theorem generator_requests_bounded (c : Cfg) (firstBatch : Nat) (ops : List Shot) (op : Shot)
    (s : St) (hs : s = loop c firstBatch ops) :
    ∀ r, (step c s op).2.asked = some r →
      1 ≤ r ∧ r ≤ c.maxSamples - s.out ∧ (∀ k, c.maxShots = some k → r ≤ k - s.shots) := by
  intro r hr
  have h := inv_loop c firstBatch ops
  rw [← hs] at h
  clear hs
  by_cases hs : stopped c s = true
  · rw [step_stopped c s op hs] at hr; simp at hr
  · have hc : cond c s = true := by
      simp [stopped] at hs; exact hs.2
    obtain ⟨h1, h2⟩ := (cond_true_iff c s).1 hc
    have hr' : r = nbGen c s := by
      unfold step at hr
      simp only [hs, Bool.false_eq_true, ↓reduceIte] at hr
      by_cases hcan : (c.hasCallback && op.cancel) = true
      · simp [hcan] at hr
      · simp only [hcan, Bool.false_eq_true, ↓reduceIte] at hr
        by_cases he : (s.idx == s.batchLen) = true
        · simp only [he, ↓reduceIte] at hr
          split at hr <;> simp at hr <;> exact hr.symm
        · simp only [he, Bool.false_eq_true, ↓reduceIte] at hr
          split at hr <;> simp at hr
    subst hr'
    cases hsh : c.maxShots with
    | none =>
      simp [nbGen, batchSize, hsh]; omega
    | some k =>
      have := h2 k hsh
      simp [nbGen, batchSize, hsh]; omega

/-! ## performance estimates -/

/-- `perf_formulas`: at the end of any history, `shots = selected + not_selected +
not_selected_physical`; with at least one output `physical_perf` is the fraction of shots that
passed the photon filter, `logical_perf` the fraction of those that were selected, both lie in
`(0, 1]` and their product is the overall yield `selected / shots`; without output both are 0. -/
theorem perf_formulas (c : Cfg) (firstBatch : Nat) (ops : List Shot)
    (s : St) (hs : s = loop c firstBatch ops) :
    s.shots = s.out + s.notSel + s.notSelPhys ∧
    (s.out = 0 → perf s = (0, 0)) ∧
    (0 < s.out →
      (perf s).1 = ((s.shots : ℚ) - s.notSelPhys) / s.shots ∧
      (perf s).2 = (s.out : ℚ) / ((s.shots : ℚ) - s.notSelPhys) ∧
      0 < (perf s).1 ∧ (perf s).1 ≤ 1 ∧ 0 < (perf s).2 ∧ (perf s).2 ≤ 1 ∧
      (perf s).1 * (perf s).2 = (s.out : ℚ) / s.shots) := by
  have h := (inv_loop c firstBatch ops).account
  rw [← hs] at h
  refine ⟨h, ?_, ?_⟩
  · intro h0; simp [perf, h0]
  · intro hpos
    have e1 : ((s.out + s.notSel : ℕ) : ℚ) = (s.shots : ℚ) - s.notSelPhys := by
      rw [h]; push_cast; ring
    have e2 : ((s.out + s.notSel + s.notSelPhys : ℕ) : ℚ) = (s.shots : ℚ) := by rw [h]
    have ho : (0 : ℚ) < s.out := by exact_mod_cast hpos
    have hns : (0 : ℚ) ≤ s.notSel := Nat.cast_nonneg _
    have hnp : (0 : ℚ) ≤ s.notSelPhys := Nat.cast_nonneg _
    have hsh : (s.shots : ℚ) = s.out + s.notSel + s.notSelPhys := by rw [h]; push_cast; ring
    have hA : (0 : ℚ) < (s.shots : ℚ) - s.notSelPhys := by rw [hsh]; linarith
    have hB : (0 : ℚ) < s.shots := by rw [hsh]; linarith
    simp only [perf, hpos, ↓reduceIte, e1, e2]
    refine ⟨trivial, trivial, by positivity, ?_, by positivity, ?_, ?_⟩
    · rw [div_le_one hB]; linarith
    · rw [div_le_one hA, hsh]; linarith
    · field_simp

/-! ## `compute_samples`, `_compute_samples_with_perf`, the `samples` glue -/

/-- the shot limit handed to the loop is never larger than the one requested, as long as the
probabilities passed in are probabilities (`P(n ≥ filter) ≤ P(n > 0)`) -/
theorem computeSamplesWithPerf_le (filter prepare : Nat) (pp zpp : ℚ) (sh : Nat)
    (h0 : 0 ≤ pp) (h1 : pp ≤ 1 - zpp) (p' : Nat) (sh' : Option Nat)
    (h : computeSamplesWithPerf filter prepare pp zpp (some sh) = .ok (p', sh')) :
    p' ≤ prepare ∧ ∃ k, sh' = some k ∧ k ≤ sh := by
  unfold computeSamplesWithPerf at h
  by_cases hf : 2 ≤ filter
  · simp only [hf, ↓reduceIte] at h
    by_cases hz : zpp = 1
    · simp [hz] at h
    · simp only [hz, ↓reduceIte] at h
      have hden : 0 < 1 - zpp := by
        rcases lt_or_eq_of_le (le_trans h0 h1) with h2 | h2
        · exact h2
        · exfalso; apply hz; linarith
      have hr : pp / (1 - zpp) ≤ 1 := (div_le_one hden).2 h1
      have hv : ((sh : ℚ) * (pp / (1 - zpp))).ceil ≤ (sh : ℤ) := by
        rw [Rat.ceil_le_iff]
        have : (0 : ℚ) ≤ sh := Nat.cast_nonneg _
        have : (sh : ℚ) * (pp / (1 - zpp)) ≤ sh * 1 := mul_le_mul_of_nonneg_left hr this
        simpa using this
      split at h
      · simp at h
      · simp only [Except.ok.injEq, Prod.mk.injEq] at h
        obtain ⟨rfl, rfl⟩ := h
        exact ⟨Nat.min_le_right _ _, _, rfl, by omega⟩
  · simp only [hf, ↓reduceIte, Except.ok.injEq, Prod.mk.injEq] at h
    obtain ⟨rfl, rfl⟩ := h
    exact ⟨Nat.le_refl _, sh, rfl, Nat.le_refl _⟩

/-- `samples_pipeline_bound`: through `compute_samples`, `_compute_samples_with_perf` and the loop,
for every `(max_samples, max_shots)` including 0 and `None`, every outcome history and every first
batch, the number of returned samples is at most `min(max_samples, max_shots)`. -/
theorem samples_pipeline_bound (i : SamplesIn) (ops : List Shot)
    (h0 : 0 ≤ i.prePerf) (h1 : i.prePerf ≤ 1 - i.zpp)
    (n : Nat) (ph lg : ℚ) (st : Option St)
    (h : samplesPipeline i ops = .result n ph lg st) :
    ∀ L, limit i.maxSamples i.maxShots = some L → n ≤ L := by
  intro L hL
  unfold samplesPipeline at h
  split at h
  · simp at h
  · simp only [SamplesOut.result.injEq] at h; omega
  · simp only [SamplesOut.result.injEq] at h; omega
  · rename_i p hcs
    split at h
    · simp at h
    · simp only [SamplesOut.result.injEq] at h; omega
    · rename_i p' sh' hcp
      split at h
      · simp at h
      · rename_i ms hms
        dsimp only at h
        split at h
        · simp at h
        · simp only [SamplesOut.result.injEq] at h
          obtain ⟨rfl, _, _, _⟩ := h
          have hb := noisy_loop_bounds ⟨ms, sh', i.hasCallback⟩ (i.firstBatch (p' + 1)) ops _ rfl
          simp only at hb
          obtain ⟨b1, b2, b3, _, _⟩ := hb
          cases hsh : i.maxShots with
          | none =>
            simp [limit, hms, hsh] at hL; omega
          | some k =>
            obtain ⟨_, k', hk', hle⟩ :=
              computeSamplesWithPerf_le i.filter (p + 1) i.prePerf i.zpp k h0 h1 (p' + 1) sh'
                (by rw [← hsh]; exact hcp)
            have := b2 k' hk'
            simp [limit, hms, hsh] at hL; omega

/-- the perfect fast path acquires exactly the requested number of samples, in requests of at
most 1000 (given enough iterations — `n` always suffices) -/
theorem perfect_path_total (n : Nat) :
    (perfectLoop n n 0).1 = n ∧ ∀ k ∈ (perfectLoop n n 0).2, 1 ≤ k ∧ k ≤ 1000 := by
  have key : ∀ fuel acq, acq ≤ n → n - acq ≤ fuel →
      (perfectLoop n fuel acq).1 = n ∧ ∀ k ∈ (perfectLoop n fuel acq).2, 1 ≤ k ∧ k ≤ 1000 := by
    intro fuel
    induction fuel with
    | zero =>
      intro acq h1 h2
      simp [perfectLoop]; omega
    | succ f ih =>
      intro acq h1 h2
      unfold perfectLoop
      by_cases hlt : acq < n
      · simp only [hlt, ↓reduceIte]
        obtain ⟨e1, e2⟩ := ih (acq + min 1000 (n - acq)) (by omega) (by omega)
        refine ⟨e1, ?_⟩
        intro k hk
        simp only [List.mem_cons] at hk
        rcases hk with rfl | hk
        · omega
        · exact e2 k hk
      · simp [hlt]; omega
  exact key n 0 (Nat.zero_le _) (by omega)

/-! ## `_deduce_count` -/

/-- `deduce_count_spec`: an explicit count wins; otherwise both limits give their minimum;
otherwise the only non-zero limit; and the quirk of the code as it is:
`max_shots = 0` with no `max_samples` is a `RuntimeError` (`0 or None`). -/
theorem deduce_count_spec :
    (∀ c sh ms, deduceCount (some c) sh ms = .ok c) ∧
    (∀ sh ms, deduceCount none (some sh) (some ms) = .ok (min ms sh)) ∧
    (∀ ms, deduceCount none none (some ms) = .ok ms) ∧
    (∀ sh, deduceCount none (some (sh + 1)) none = .ok (sh + 1)) ∧
    deduceCount none (some 0) none = .error "RuntimeError" ∧
    deduceCount none none none = .error "RuntimeError" := by
  refine ⟨fun _ _ _ => rfl, fun _ _ => rfl, ?_, fun _ => rfl, rfl, rfl⟩
  intro ms; cases ms <;> rfl

end PM.C09
