/-
  C18 — property theorems (model: `Model/C18.lean`, helpers: `Lemmas/C18.lean`).

  "A local job runs once and ends in exactly one truthful final state."

  `step true`  = `perceval/runtime/local_job.py` with `fixes/C18-status-sync.diff` applied (main model);
  `step false` = the code as it stood on the pinned tree (`LocalJob.status` dereferences
                 `self._worker.is_alive()` although `_worker` is `None` during `execute_sync`).

  A history is a word over caller events (execSync/execAsync/statusQuery/cancel/getResults) and task
  events (tStart/tProgress/tReturn/tRaise) plus `tPropagate` (the user's progress callback lets the
  exception of the last caller action escape).  `after fixed cfg w` is the job after the history `w`
  from a freshly constructed job, `outs fixed cfg w` what each event answered.  Every theorem below is
  for ALL configurations and ALL histories (all interleavings of the two event streams), or for all
  job states where it is stated for one step.  Theorems that carry `(fixed : Bool)` hold for both
  versions of the code.  The two clauses the pinned tree violates are stated as `Prop`s of the flag,
  proved for `true` and refuted with a concrete history for `false`.

  Granularity: in the first parts the atomic steps are whole API calls and whole task steps.  The last part
  ("Round 4", model `Model/C18Race.lean`) removes that for the asynchronous run: there the atoms are single
  accesses to the memory the caller thread and the worker thread share, and the theorems are for ALL schedules
  of those accesses (one caller thread; `execute_async` itself atomic; no user callback) — for the code with
  `fixes/C18-status-race.diff`, with the negation proved for the code before it.
-/
import PercevalModel.Lemmas.C18
import PercevalModel.Lemmas.C18Ext
import PercevalModel.Lemmas.C18Race
import PercevalModel.Lemmas.C18More
import PercevalModel.Lemmas.C18Refine
import PercevalModel.Lemmas.C18W10

namespace PM.C18
open PM.SM

/-! ## sample data for the non-vacuity examples and the witnesses -/

/-- `LocalJob(task, command_param_names=["k1"])` with a progress callback installed -/
def cfg0 : Cfg := { paramNames := [1], command0 := [], mapping0 := [], hasMap := false, cb0 := true }
/-- the same with a result mapping function and a mapping argument -/
def cfg1 : Cfg := { paramNames := [1], command0 := [], mapping0 := [(2, some 3)], hasMap := true, cb0 := true }
/-- `execute(5)` -/
def call0 : Call := { args := [some 5], kwargs := [], cbKw := false }
/-- `{'results': 7}` -/
def ret0 : Ret := .dict (.nat 7)

/-! ## the task runs exactly once -/

/-- After any history the task function has been entered at most once, and exactly once as soon as it
has been started (it is active or has ended). -/
theorem runs_exactly_once (fixed : Bool) (cfg : Cfg) (w : List Ev) :
    (after fixed cfg w).fnCalls ≤ 1 ∧
    ((after fixed cfg w).fnCalls = 1 ↔
      (after fixed cfg w).phase = .active ∨ (after fixed cfg w).phase = .done) := by
  rcases (inv_after fixed cfg w).cases with h | h | h | h | h | h | h <;> simp_all

/-- Over any history at most one execute call is accepted. -/
theorem execute_accepted_at_most_once (fixed : Bool) (cfg : Cfg) (w : List Ev) :
    List.count Out.accepted (outs fixed cfg w) ≤ 1 := by
  have := count_accepted_run fixed cfg w (inv_init cfg)
  unfold outs
  split at this <;> omega

/-- Once an execute call has been accepted every further one is refused with the
"already executed" assertion (or cannot be issued at all), whatever the interleaving. -/
theorem second_execute_refused (fixed : Bool) (cfg : Cfg) (w : List Ev) (c : Call) (async : Bool)
    (h : (after fixed cfg w).phase ≠ .idle) :
    let e := if async then Ev.execAsync c else Ev.execSync c
    (step fixed cfg (after fixed cfg w) e).2 = .disabled ∨
      (step fixed cfg (after fixed cfg w) e).2 = .exc .assertion := by
  have hinv := inv_after fixed cfg w
  generalize after fixed cfg w = s at h hinv
  have key : ∀ a, callerEnabled s = true → (notePending s (execEntry cfg s c a)).2 = .exc .assertion := by
    intro a hen
    rw [notePending_snd]
    rcases execEntry_cases cfg s c a hinv hen with ⟨_, he⟩ | ⟨hi, _⟩ | ⟨hi, _⟩
    · rw [he]
    · exact absurd hi h
    · exact absurd hi h
  cases async
  · simp only [Bool.false_eq_true, if_false, step]
    split
    · next hen => exact .inr (key false hen)
    · exact .inl rfl
  · simp only [if_true, step]
    split
    · next hen => exact .inr (key true hen)
    · exact .inl rfl

/-- The task function is entered only after an execute call was accepted. -/
theorem task_starts_only_after_accepted (fixed : Bool) (cfg : Cfg) (w : List Ev)
    (h : (after fixed cfg w).fnCalls = 1) : Out.accepted ∈ outs fixed cfg w := by
  have hp : (after fixed cfg w).phase ≠ .idle := by
    rcases ((runs_exactly_once fixed cfg w).2.mp h) with h | h <;> simp [h]
  rcases accepted_before_start fixed cfg w (inv_init cfg) hp with h | h
  · exact absurd rfl h
  · exact h

example : (after true cfg0 [.execSync call0, .tStart, .tReturn ret0]).fnCalls = 1 := by decide
example : (after true cfg0 [.execAsync call0, .tStart, .tProgress 3]).phase = .active := by decide

/-! ## reported as running until the task returns -/

/-- From the acceptance of the execute call until the task is left, a status query (whenever the
caller is able to issue one: always for `execute_async`, from inside the progress callback for
`execute_sync`) answers RUNNING and changes nothing. -/
def RunningUntilReturn (fixed : Bool) : Prop :=
  ∀ (cfg : Cfg) (w : List Ev),
    ((after fixed cfg w).phase = .ready ∨ (after fixed cfg w).phase = .active) →
    callerEnabled (after fixed cfg w) = true →
    step fixed cfg (after fixed cfg w) .statusQuery =
      (after fixed cfg w, .status .running (after fixed cfg w).msg (after fixed cfg w).progress)

theorem running_until_return : RunningUntilReturn true := by
  intro cfg w hp hen
  have hinv := inv_after true cfg w
  generalize after true cfg w = s at hp hen hinv
  have hst : s.status = .running := by
    rcases hinv.cases with h | h | h | h | h | h | h <;> simp_all [callerEnabled]
  simp only [step, hen, if_true]
  rcases actStatus_cases true hinv.noRepair with he | ⟨hf, _⟩
  · rw [he, hst]; rfl
  · cases hf

/-- On the pinned tree the query raises `AttributeError` inside the progress callback of
`execute_sync(5)`. -/
theorem running_until_return_fails_on_current_code : ¬ RunningUntilReturn false := by
  intro h
  have := h cfg0 [.execSync call0, .tStart, .tProgress 4] (by decide) (by decide)
  revert this
  decide

/-- A final status is reported exactly when the task has ended — never earlier, never later. -/
theorem final_status_iff_task_ended (fixed : Bool) (cfg : Cfg) (w : List Ev) :
    (after fixed cfg w).status.isFinal = true ↔ (after fixed cfg w).phase = .done :=
  (inv_after fixed cfg w).final_iff

example : (after true cfg0 [.execSync call0, .tStart, .tProgress 4]).phase = .active ∧
    callerEnabled (after true cfg0 [.execSync call0, .tStart, .tProgress 4]) = true := by decide

/-! ## exactly one truthful final state -/

/-- The cancel flag is set exactly when a `cancel()` call was performed. -/
theorem cancel_flag_truthful (fixed : Bool) (cfg : Cfg) (w : List Ev) :
    (after fixed cfg w).cancelReq = true ↔ Out.done ∈ outs fixed cfg w := by
  have := cancelReq_run fixed cfg w (inv_init cfg)
  simpa [init, after, outs] using this

/-- Let the task be active after `w1`.  If it then returns `r`, the job is — after any continuation
`w2` whatsoever — SUCCESS (no stop message) when no cancel had been requested before the return,
CANCELED ("User has canceled the job") when one had, and it holds the task's value `r` (untouched, or
converted exactly once by the mapping function).  If it raises, the job is ERROR with
`<type>: <message>` of that exception.  `St` being an enumeration, exactly one of the three. -/
theorem final_truthful (fixed : Bool) (cfg : Cfg) (w1 w2 : List Ev)
    (h : (after fixed cfg w1).phase = .active) :
    (∀ r, (after fixed cfg (w1 ++ .tReturn r :: w2)).phase = .done ∧
          (after fixed cfg (w1 ++ .tReturn r :: w2)).status =
            (if (after fixed cfg w1).cancelReq then .canceled else .success) ∧
          (after fixed cfg (w1 ++ .tReturn r :: w2)).msg =
            (if (after fixed cfg w1).cancelReq then .canceled else .none) ∧
          Holds cfg r (after fixed cfg (w1 ++ .tReturn r :: w2))) ∧
    (∀ c m, (after fixed cfg (w1 ++ .tRaise c m :: w2)).phase = .done ∧
          (after fixed cfg (w1 ++ .tRaise c m :: w2)).status = .error ∧
          (after fixed cfg (w1 ++ .tRaise c m :: w2)).msg = .task c m) := by
  have hinv := inv_after fixed cfg w1
  have hmap := (mapInv_after fixed cfg w1).2 (by rw [h]; simp)
  have key := final_truthful_state fixed cfg (after fixed cfg w1) hinv hmap h w2
  unfold after at *
  simp only [exec_append, exec_cons]
  exact key

example : (after true cfg0 [.execAsync call0, .tStart, .cancel]).phase = .active ∧
    (after true cfg0 [.execAsync call0, .tStart, .cancel]).cancelReq = true := by decide
example : (after true cfg0 [.execAsync call0, .tStart, .cancel, .tReturn ret0, .statusQuery]).status = .canceled := by
  decide
example : (after true cfg0 [.execAsync call0, .tStart, .tReturn ret0, .cancel, .statusQuery]).status = .success := by
  decide
example : (after true cfg0 [.execSync call0, .tStart, .tRaise 0 1, .getResults]).msg = .task 0 1 := by decide

/-- Cancel requested, then the task RAISES (it never returns): the truthful final state is ERROR with
`<type>: <message>` of the exception — "failed with the exception's type and message if the task
raised"; CANCELED is for a task that *returned* after the request.  Whatever the history `w1` before
(any number of cancels, from the caller thread or from inside the callback) and `w2` after. -/
theorem cancel_then_raise_is_error (fixed : Bool) (cfg : Cfg) (w1 w2 : List Ev) (c m : Nat)
    (h : (after fixed cfg w1).phase = .active) (_hc : (after fixed cfg w1).cancelReq = true) :
    (after fixed cfg (w1 ++ .tRaise c m :: w2)).status = .error ∧
    (after fixed cfg (w1 ++ .tRaise c m :: w2)).msg = .task c m :=
  ((final_truthful fixed cfg w1 w2 h).2 c m).2

example : (after true cfg0 [.cancel, .execSync call0, .tStart]).phase = .active ∧
    (after true cfg0 [.cancel, .execSync call0, .tStart]).cancelReq = true := by decide
example : (outs true cfg0 [.execAsync call0, .tStart, .tProgress 3, .cancel, .tRaise 0 1, .statusQuery, .cancel,
    .statusQuery]).drop 5 = [.status .error (.task 0 1) 3, .done, .status .error (.task 0 1) 3] := by decide

/-! ## results: refused while running, the same converted value ever after -/

/-- While the task has not ended `get_results()` is refused with "still running" (or cannot be issued)
— repaired code. -/
theorem results_refused_while_running (cfg : Cfg) (w : List Ev) (h : (after true cfg w).phase ≠ .done) :
    (step true cfg (after true cfg w) .getResults).2 = .disabled ∨
      (step true cfg (after true cfg w) .getResults).2 = .exc .stillRunning := by
  have hinv := inv_after true cfg w
  generalize after true cfg w = s at h hinv
  have hnf : s.status.isFinal = false := by
    cases hf : s.status.isFinal
    · rfl
    · exact absurd (hinv.final_iff.mp hf) h
  simp only [step]
  split
  · refine .inr ?_
    rw [notePending_snd, actGet_eq]
    rcases getRes_cases true hinv.noRepair with ⟨hf, _⟩ | ⟨_, he⟩ | ⟨hf, _⟩ | ⟨hf, _⟩
    · cases hf
    · rw [he]
    · rw [hnf] at hf; cases hf
    · rw [hnf] at hf; cases hf
  · exact .inl rfl

/-- Both versions of the code: no event hands a value to the caller before the task has ended; a value
is received only from `get_results()` after the end or as the return value of `execute_sync`. -/
theorem no_value_before_the_end (fixed : Bool) (cfg : Cfg) (w : List Ev) (e : Ev) (v : Ret)
    (hv : resultOf (step fixed cfg (after fixed cfg w) e).2 = some v) :
    (after fixed cfg w).phase = .done ∨ ∃ r, (step fixed cfg (after fixed cfg w) e).2 = .finished r :=
  (result_settles fixed cfg _ e (inv_after fixed cfg w) hv).2

/-- Over any history, all values ever received — from any number of `get_results()` calls and from
`execute_sync` itself — are the same value: the conversion is applied once. -/
theorem results_idempotent (fixed : Bool) (cfg : Cfg) (w : List Ev) :
    ∀ o1 ∈ outs fixed cfg w, ∀ o2 ∈ outs fixed cfg w, ∀ v1 v2,
      resultOf o1 = some v1 → resultOf o2 = some v2 → v1 = v2 := by
  have key : ∀ (w : List Ev) (s : State), Inv s →
      ∀ o1 ∈ (run (step fixed cfg) s w).2, ∀ o2 ∈ (run (step fixed cfg) s w).2, ∀ v1 v2,
        resultOf o1 = some v1 → resultOf o2 = some v2 → v1 = v2 := by
    intro w
    induction w with
    | nil => intro s _ o1 h1; simp [run] at h1
    | cons e w ih =>
      intro s hs o1 h1 o2 h2 v1 v2 hv1 hv2
      rw [run_cons] at h1 h2
      simp only [List.mem_cons] at h1 h2
      have hs' := inv_step fixed cfg s e hs
      rcases h1 with rfl | h1 <;> rcases h2 with rfl | h2
      · rw [hv1] at hv2; exact Option.some.inj hv2
      · exact (settled_run fixed cfg w hs' (result_settles fixed cfg s e hs hv1).1 o2 h2 v2 hv2).symm
      · exact settled_run fixed cfg w hs' (result_settles fixed cfg s e hs hv2).1 o1 h1 v1 hv1
      · exact ih _ hs' o1 h1 o2 h2 v1 v2 hv1 hv2
  exact key w _ (inv_init cfg)

/-- What is received after a normal return is the task's value: as it is without a mapping function,
converted with the job's mapping arguments (once) with one. -/
theorem results_value (fixed : Bool) (cfg : Cfg) (w1 w2 : List Ev) (r v : Ret)
    (h : (after fixed cfg w1).phase = .active)
    (hv : (step fixed cfg (after fixed cfg (w1 ++ .tReturn r :: w2)) .getResults).2 = .results v) :
    (cfg.hasMap = false ∧ v = r) ∨
      (cfg.hasMap = true ∧ convertRet (after fixed cfg (w1 ++ .tReturn r :: w2)).mapping r = some v) := by
  obtain ⟨hd, _, _, hh⟩ := (final_truthful fixed cfg w1 w2 h).1 r
  have hinv := inv_after fixed cfg (w1 ++ .tReturn r :: w2)
  generalize after fixed cfg (w1 ++ .tReturn r :: w2) = t at hv hd hh hinv
  obtain ⟨r', mp, cr, p, _, h2, h3⟩ := done_step fixed cfg t .getResults hinv hd
  obtain ⟨rfl, rfl⟩ := h3 v (by rw [hv]; rfl)
  rcases hh with ⟨a, b⟩ | ⟨a, b, c⟩
  · rcases h2 with ⟨h2, h4⟩ | ⟨h2, _, h4⟩
    · exact .inl ⟨by rw [← a, ← h4], by rw [h2, b]⟩
    · exact .inr ⟨by rw [← a, h2], by rw [← b]; exact h4⟩
  · rcases h2 with ⟨h2, _⟩ | ⟨h2, _⟩
    · exact .inr ⟨a, by rw [h2]; exact c⟩
    · rw [b] at h2; cases h2

example : (after true cfg1 [.execSync call0, .tStart]).phase = .active ∧
    (step true cfg1 (after true cfg1 ([.execSync call0, .tStart] ++ .tReturn ret0 :: [.getResults])) .getResults).2 =
      .results (.dict (.mapped (.nat 7) [(2, some 3)])) := by decide
example : resultOf (.finished (some (.val ret0))) = some ret0 := rfl

/-! ## the user's progress callback: sees the progress, does not alter the outcome -/

/-- In every job state: a progress report of the active task reaches the user's callback (with that
value) unless a cancel has been requested, in which case the cancel request is relayed to the task
instead. -/
theorem callback_sees_progress (fixed : Bool) (cfg : Cfg) (s : State) (p : Nat)
    (ha : s.phase = .active) :
    (∀ id, s.cancelReq = false → s.userCb = some id →
      (step fixed cfg s (.tProgress p)).2 = .progressed (some id) p false ∧
      (step fixed cfg s (.tProgress p)).1.cbLog = s.cbLog ++ [(id, p)]) ∧
    (s.cancelReq = true → (step fixed cfg s (.tProgress p)).2 = .progressed none p true) := by
  constructor
  · intro id hc hu
    simp [step, ha, taskProgress, hc, hu]
  · intro hc
    simp [step, ha, taskProgress, hc]

/-- Over any history the user callbacks have seen exactly the progress values the job passed on, in
order. -/
theorem callback_log_complete (fixed : Bool) (cfg : Cfg) (w : List Ev) :
    (after fixed cfg w).cbLog = (outs fixed cfg w).filterMap seen := by
  have := cbLog_run fixed cfg w (inv_init cfg)
  simpa [init, after, outs] using this

/-- A status query (`job.status`, `is_running`, `is_complete`, …) at any point of any history — in
particular from inside the progress callback — changes neither the job nor what any later event
answers. -/
def StatusQueryTransparent (fixed : Bool) : Prop :=
  ∀ (cfg : Cfg) (w1 w2 : List Ev),
    after fixed cfg (w1 ++ .statusQuery :: w2) = after fixed cfg (w1 ++ w2) ∧
    (run (step fixed cfg) (after fixed cfg (w1 ++ [.statusQuery])) w2).2 =
      (run (step fixed cfg) (after fixed cfg w1) w2).2

theorem callback_transparent : StatusQueryTransparent true := by
  intro cfg w1 w2
  have hinv := inv_after true cfg w1
  have hs : (step true cfg (after true cfg w1) .statusQuery).1 = after true cfg w1 := by
    generalize after true cfg w1 = s at hinv
    simp only [step]
    split
    · rcases actStatus_cases true hinv.noRepair with he | ⟨hf, _⟩
      · rw [he]; rfl
      · cases hf
    · rfl
  unfold after at *
  rw [exec_append, exec_append, exec_append, exec_cons, hs]
  exact ⟨rfl, by simp [exec_cons, exec_nil, hs]⟩

/-- On the pinned tree: `execute_sync(5)`, the callback reads `job.status` and does not catch the
`AttributeError`; the task does not catch it either: the job ends ERROR instead of SUCCESS. -/
theorem callback_transparent_fails_on_current_code : ¬ StatusQueryTransparent false := by
  intro h
  have := (h cfg0 [.execSync call0, .tStart, .tProgress 4] [.tPropagate, .tReturn ret0]).1
  revert this
  decide

/-- the witness, spelled out: the job is ERROR with the `AttributeError` as stop message and
`execute_sync` returns `None` instead of the task's results; with the repair the same history (the
`tPropagate` is then impossible) ends SUCCESS -/
theorem current_code_status_query_breaks_job :
    (after false cfg0 [.execSync call0, .tStart, .tProgress 4, .statusQuery, .tPropagate]).status = .error ∧
    (after false cfg0 [.execSync call0, .tStart, .tProgress 4, .statusQuery, .tPropagate]).msg = .caller .attribute ∧
    (outs false cfg0 [.execSync call0, .tStart, .tProgress 4, .statusQuery, .tPropagate]).getLast? =
      some (.finished (some (.val .none))) ∧
    (after true cfg0 [.execSync call0, .tStart, .tProgress 4, .statusQuery, .tPropagate, .tReturn ret0]).status =
      .success := by
  decide

/-- Any read-only action (`status`, `get_results()`, a nested execute call) performed while the task
is in flight leaves the job untouched; the only trace is the harness-side record `pending` of the
exception it raised (`RuntimeError` "still running" / `AssertionError`).  As long as the callback does
not let that exception escape (no `tPropagate` in the continuation), the final state and every later
answer are the same as without the action.  Repaired code. -/
theorem observation_in_callback_transparent (cfg : Cfg) (w1 w2 : List Ev) (e : Ev)
    (hr : readOnly e = true)
    (hp : (after true cfg w1).phase = .ready ∨ (after true cfg w1).phase = .active)
    (hw : Ev.tPropagate ∉ w2) :
    clr (after true cfg (w1 ++ e :: w2)) = clr (after true cfg (w1 ++ w2)) ∧
    (run (step true cfg) (after true cfg (w1 ++ [e])) w2).2 =
      (run (step true cfg) (after true cfg w1) w2).2 := by
  have hinv := inv_after true cfg w1
  have h1 := readOnly_inflight cfg _ e hinv hr hp
  obtain ⟨h2, h3⟩ := run_clr_rel true cfg w2 hw _ _ h1
  unfold after at *
  rw [exec_append, exec_append, exec_append, exec_cons]
  exact ⟨h2, by simpa [exec_cons, exec_nil] using h3⟩

example : readOnly .getResults = true ∧
    (after true cfg0 [.execSync call0, .tStart, .tProgress 4]).phase = .active ∧
    Ev.tPropagate ∉ [Ev.tReturn ret0] := by decide

/-! ## unknown arguments are rejected before the task starts -/

/-- A keyword argument that is neither a command parameter, nor a declared positional name, nor a
mapping parameter (nor `max_samples`) always makes `_handle_params` raise. -/
theorem unknown_kwarg_is_rejected (names : List Key) (cmd map : Dict) (c : Call) (k : Key)
    (hk : k ∈ keys c.kwargs) (h1 : k ∉ keys cmd) (h2 : k ∉ names) (h3 : k ∉ keys map)
    (h4 : k ≠ maxSamples) : (handleParams names cmd map c).2.2 ≠ none := by
  rw [handleParams_eq]
  split
  · simp
  · simp only
    have hc : k ∉ keys (posArgs c.kwargs names (popExtra names map c.args).2 cmd).1 := by
      intro h
      rcases keys_posArgs _ _ _ _ h with h | h
      · exact h1 h
      · exact h2 h
    have hm : k ∉ keys (popExtra names map c.args).1 := by
      intro h
      rcases keys_popExtra _ _ _ h with h | h
      · exact h3 h
      · exact h4 h
    have := fill_keeps _ _ k (fill_keeps _ _ k hk hc) hm
    generalize (fill (popExtra names map c.args).1
      (fill (posArgs c.kwargs names (popExtra names map c.args).2 cmd).1 c.kwargs).2).2 = kw2 at this
    cases kw2 with
    | nil => simp [keys] at this
    | cons x xs => simp

/-- Positional arguments: a job knows its declared positional names plus at most ONE trailing
`max_samples`.  Two or more positional arguments beyond the declared names always make
`_handle_params` raise (whatever the dictionaries and keyword arguments are). -/
theorem surplus_positional_is_rejected (names : List Key) (cmd map : Dict) (c : Call)
    (h : names.length + 2 ≤ c.args.length) : (handleParams names cmd map c).2.2 ≠ none := by
  rw [handleParams_eq]
  have hlen : names.length < (popExtra names map c.args).2.length := by
    rw [popExtra_length names map c.args (by omega)]; omega
  have hp := posArgs_surplus c.kwargs names (popExtra names map c.args).2 cmd hlen
  split
  · simp
  · next hn => exact absurd hn hp

/-- The rejection is of the right kind: never "accepted with the surplus dropped" — the positional
loop raises before the keyword arguments are even looked at, so nothing of the call is routed to the
mapping dictionary beyond the popped last argument. -/
theorem surplus_positional_raises_in_loop (names : List Key) (cmd map : Dict) (c : Call)
    (h : names.length + 2 ≤ c.args.length) :
    (handleParams names cmd map c).2.2 = some .index ∨ (handleParams names cmd map c).2.2 = some .twice := by
  rw [handleParams_eq]
  have hlen : names.length < (popExtra names map c.args).2.length := by
    rw [popExtra_length names map c.args (by omega)]; omega
  have hp := posArgs_surplus c.kwargs names (popExtra names map c.args).2 cmd hlen
  have hk := posArgs_exc c.kwargs names (popExtra names map c.args).2 cmd
  split
  · next e he => rw [he] at hk; simpa using hk
  · next hn => exact absurd hn hp

/-- Whenever `_handle_params` raises, the execute call raises, no task is started and the job stays as
it was (WAITING, task not entered): it can still be executed properly afterwards. -/
theorem unknown_args_rejected_before_start (fixed : Bool) (cfg : Cfg) (w : List Ev) (c : Call)
    (async : Bool)
    (hrej : (handleParams cfg.paramNames (after fixed cfg w).command (after fixed cfg w).mapping c).2.2 ≠ none) :
    let e := if async then Ev.execAsync c else Ev.execSync c
    (step fixed cfg (after fixed cfg w) e).2 ≠ .accepted ∧
    (step fixed cfg (after fixed cfg w) e).1.phase = (after fixed cfg w).phase ∧
    (step fixed cfg (after fixed cfg w) e).1.status = (after fixed cfg w).status ∧
    (step fixed cfg (after fixed cfg w) e).1.fnCalls = (after fixed cfg w).fnCalls := by
  have hinv := inv_after fixed cfg w
  generalize after fixed cfg w = s at hrej hinv
  have key : ∀ a, callerEnabled s = true →
      (notePending s (execEntry cfg s c a)).2 ≠ .accepted ∧
      (notePending s (execEntry cfg s c a)).1.phase = s.phase ∧
      (notePending s (execEntry cfg s c a)).1.status = s.status ∧
      (notePending s (execEntry cfg s c a)).1.fnCalls = s.fnCalls := by
    intro a hen
    rcases execEntry_cases cfg s c a hinv hen with ⟨_, he⟩ | ⟨_, cmd, map, e, ucb, he, _⟩ | ⟨_, hn, _⟩
    · rw [he]; obtain ⟨p, hp⟩ := notePending_eq s s (.exc .assertion); rw [hp]; simp
    · rw [he]; obtain ⟨p, hp⟩ := notePending_eq s { s with userCb := ucb, command := cmd, mapping := map } (.exc e)
      rw [hp]; simp
    · exact absurd hn hrej
  cases async
  · simp only [Bool.false_eq_true, if_false, step]
    split
    · next hen => exact key false hen
    · simp
  · simp only [if_true, step]
    split
    · next hen => exact key true hen
    · simp

example : (handleParams [1] [] [] { args := [some 5], kwargs := [(6, some 1)], cbKw := false }).2.2 = some .unused := by
  decide
example : (outs true cfg0 [.execSync { args := [some 5], kwargs := [(6, some 1)], cbKw := false },
    .execSync call0, .tStart, .tReturn ret0]) =
    [.exc .unused, .accepted, .started [(1, some 5)], .finished (some (.val ret0))] := by decide

/-- History level: in ANY state reached by ANY history, an execute call carrying an unknown keyword
argument or two or more surplus positional arguments is refused, starts nothing and leaves status,
phase and the number of task entries as they were. -/
theorem unknown_args_never_start_the_task (fixed : Bool) (cfg : Cfg) (w : List Ev) (c : Call) (async : Bool)
    (hunk : cfg.paramNames.length + 2 ≤ c.args.length ∨
      ∃ k, k ∈ keys c.kwargs ∧ k ∉ keys (after fixed cfg w).command ∧ k ∉ cfg.paramNames ∧
        k ∉ keys (after fixed cfg w).mapping ∧ k ≠ maxSamples) :
    let e := if async then Ev.execAsync c else Ev.execSync c
    (step fixed cfg (after fixed cfg w) e).2 ≠ .accepted ∧
    (step fixed cfg (after fixed cfg w) e).1.phase = (after fixed cfg w).phase ∧
    (step fixed cfg (after fixed cfg w) e).1.status = (after fixed cfg w).status ∧
    (step fixed cfg (after fixed cfg w) e).1.fnCalls = (after fixed cfg w).fnCalls := by
  apply unknown_args_rejected_before_start
  rcases hunk with h | ⟨k, hk, h1, h2, h3, h4⟩
  · exact surplus_positional_is_rejected _ _ _ _ h
  · exact unknown_kwarg_is_rejected _ _ _ _ k hk h1 h2 h3 h4

/-- two surplus positionals: `LocalJob(f, command_param_names=['k1']).execute_sync(5, 6, 7)` -/
example : (handleParams [1] [] [] { args := [some 5, some 6, some 7], kwargs := [], cbKw := false }).2.2 = some .index := by
  decide
/-- ONE surplus positional is not unknown: it is the trailing `max_samples` -/
example : (handleParams [1] [] [] { args := [some 5, some 6], kwargs := [], cbKw := false }) =
    ([(1, some 5)], [(maxSamples, some 6)], none) := by decide
example : (outs true cfg0 [.execAsync { args := [some 5, some 6, some 7], kwargs := [], cbKw := false }, .statusQuery,
    .execSync call0, .tStart, .tReturn ret0]) =
    [.exc .index, .status .waiting .none 0, .accepted, .started [(1, some 5)], .finished (some (.val ret0))] := by decide

/-! ## a keyword argument the job cannot use is rejected, whatever VALUE the preset fixes -/

/-- A keyword argument can only fill a slot that is still OPEN (`None`) in the command or in the mapping
dictionary.  A keyword naming a parameter that has no open slot — its value is FIXED by a preset, by
whatever value (0, an empty string, … are values like any other: `PyVal = Option Nat`, the test is
`is None`), or by the positional `max_samples` of this very call — always makes `_handle_params` raise
("unused", or "passed twice"/IndexError from the positional loop).  Subsumes `unknown_kwarg_is_rejected`
(a name that occurs nowhere has no open slot). -/
theorem fixed_preset_keyword_is_rejected (names : List Key) (cmd map : Dict) (c : Call) (k : Key)
    (hk : k ∈ keys c.kwargs) (h1 : (k, none) ∉ cmd) (h2 : (k, none) ∉ map)
    (h3 : k ≠ maxSamples ∨ c.args.length ≤ names.length ∨ c.args.getLast?.getD none ≠ none) :
    (handleParams names cmd map c).2.2 ≠ none := by
  rw [handleParams_eq]
  split
  · simp
  · simp only
    have hc := posArgs_no_open c.kwargs names (popExtra names map c.args).2 cmd k hk h1
    have hm := popExtra_no_open names map c.args k h2 h3
    have := fill_keeps_fixed _ _ k (fill_keeps_fixed _ _ k hk hc) hm
    generalize (fill (popExtra names map c.args).1
      (fill (posArgs c.kwargs names (popExtra names map c.args).2 cmd).1 c.kwargs).2).2 = kw2 at this
    cases kw2 with
    | nil => simp [keys] at this
    | cons x xs => simp

/-- History level: in ANY state reached by ANY history, an execute call with a keyword argument for
which the job has no open slot is refused, starts nothing and leaves status, phase and the number of
task entries as they were. -/
theorem fixed_preset_keyword_never_starts_the_task (fixed : Bool) (cfg : Cfg) (w : List Ev) (c : Call)
    (async : Bool) (k : Key) (hk : k ∈ keys c.kwargs)
    (h1 : (k, none) ∉ (after fixed cfg w).command) (h2 : (k, none) ∉ (after fixed cfg w).mapping)
    (h3 : k ≠ maxSamples ∨ c.args.length ≤ cfg.paramNames.length ∨ c.args.getLast?.getD none ≠ none) :
    let e := if async then Ev.execAsync c else Ev.execSync c
    (step fixed cfg (after fixed cfg w) e).2 ≠ .accepted ∧
    (step fixed cfg (after fixed cfg w) e).1.phase = (after fixed cfg w).phase ∧
    (step fixed cfg (after fixed cfg w) e).1.status = (after fixed cfg w).status ∧
    (step fixed cfg (after fixed cfg w) e).1.fnCalls = (after fixed cfg w).fnCalls := by
  apply unknown_args_rejected_before_start
  exact fixed_preset_keyword_is_rejected _ _ _ _ k hk h1 h2 h3

/-- non-vacuity: the preset fixes the value 0 (Python: `0`, falsy), the caller passes the same name by keyword -/
example : (4 : Key) ∈ keys [(4, some 7)] ∧ ((4 : Key), (none : PyVal)) ∉ [((4 : Key), (some 0 : PyVal))] ∧
    (handleParams [1] [(4, some 0)] [] { args := [some 5], kwargs := [(4, some 7)], cbKw := false }).2.2 = some .unused := by
  decide
/-- … and for the conversion's dictionary, and for a `max_samples` already given positionally -/
example : (handleParams [1] [] [(2, some 0)] { args := [some 5], kwargs := [(2, some 7)], cbKw := false }).2.2 = some .unused ∧
    (handleParams [1] [] [(0, none)] { args := [some 5, some 0], kwargs := [(0, some 7)], cbKw := false }).2.2 = some .unused := by
  decide
example : (outs true { cfg0 with command0 := [(4, some 0)] }
    [.execSync { args := [some 5], kwargs := [(4, some 7)], cbKw := false }, .statusQuery,
     .execSync call0, .tStart, .tReturn ret0]) =
    [.exc .unused, .status .waiting .none 0, .accepted, .started [(4, some 0), (1, some 5)],
     .finished (some (.val ret0))] := by decide

/-- `_handle_params` is blind to the VALUES it routes: it distinguishes `None` from not-`None` and
nothing else.  Renaming the non-`None` values of the presets, of the positional and of the keyword
arguments by any function (say one that sends 5 to 0) renames the routed values and changes neither
where they go nor whether the call is refused, nor the exception. -/
theorem handle_params_blind_to_values (f : Nat → Nat) (names : List Key) (cmd map : Dict) (c : Call) :
    handleParams names (vmap f cmd) (vmap f map) (c.vmap f) =
      (vmap f (handleParams names cmd map c).1, vmap f (handleParams names cmd map c).2.1,
       (handleParams names cmd map c).2.2) := by
  rw [handleParams_eq, handleParams_eq]
  simp only [Call.vmap, popExtra_vmap, posArgs_vmap]
  cases (posArgs c.kwargs names (popExtra names map c.args).2 cmd).2 with
  | some e => rfl
  | none =>
    simp only [fill_vmap, isEmpty_vmap]

/-- In particular: whether a call is refused, and with which exception, does not depend on WHICH values
the presets fix or the caller passes (only on which of them are `None`). -/
theorem rejection_independent_of_values (f : Nat → Nat) (names : List Key) (cmd map : Dict) (c : Call) :
    (handleParams names (vmap f cmd) (vmap f map) (c.vmap f)).2.2 = (handleParams names cmd map c).2.2 := by
  rw [handle_params_blind_to_values]

/-! ## several jobs in one process -/

/-- A job of a process that holds any other jobs (in any state) — whatever is done to those jobs and
however many further jobs are created, interleaved in any way with its own events — ends in the state,
and gives the answers, of the single-job machine run over its own events alone.  Every theorem of this
file therefore holds for every job of every multi-job process history. -/
theorem job_independent_of_other_jobs (fixed : Bool) (P : Proc) (W : List PEv) (i : Nat) (cfg : Cfg)
    (s : State) (h : P[i]? = some (cfg, s)) :
    (exec (pstep fixed) P W)[i]? = some (cfg, exec (step fixed cfg) s (proj i W)) ∧
    answersTo i (run (pstep fixed) P W).2 = (run (step fixed cfg) s (proj i W)).2 :=
  proc_run_proj fixed W P i cfg s h

/-- In particular a job created in ANY process (after any jobs with any past) is a fresh job: its
state and its answers after any process history are `after`/`outs` of its own events — arguments
routed for, results held by, cancels requested on and statuses of other jobs never reach it. -/
theorem fresh_job_unaffected_by_process_history (fixed : Bool) (P : Proc) (cfg : Cfg) (W : List PEv) :
    (exec (pstep fixed) P (.create cfg :: W))[P.length]? = some (cfg, after fixed cfg (proj P.length W)) ∧
    answersTo P.length (run (pstep fixed) P (.create cfg :: W)).2 = outs fixed cfg (proj P.length W) := by
  have h : (P ++ [(cfg, init cfg)])[P.length]? = some (cfg, init cfg) := by simp
  obtain ⟨h1, h2⟩ := proc_run_proj fixed W _ _ cfg (init cfg) h
  refine ⟨?_, ?_⟩
  · rw [exec_cons]; exact h1
  · rw [run_cons]; exact h2

/-- job 0 routes `k1 = 5` and ends; job 1 (same declared name, called without argument, in flight
while job 0 is executed) receives nothing of it and is not cancelled by the cancel on job 0 -/
example : answersTo 1 (run (pstep true) [] [.create cfg0, .create cfg0,
      .on 1 (.execAsync { args := [], kwargs := [], cbKw := false }), .on 1 .tStart,
      .on 0 .cancel, .on 0 (.execSync call0), .on 0 .tStart, .on 0 (.tReturn ret0),
      .on 1 (.tProgress 2), .on 1 (.tReturn ret0), .on 1 .statusQuery]).2 =
    [.accepted, .started [], .progressed (some 1) 2 false, .finished none, .status .success .none 8] := by decide

/-! # Extension (model: `Model/C18Ext.lean`, helpers: `Lemmas/C18Ext.lean`)

`Job.__call__`, `Job.name`, the string forms of the status, the one-shot conversion for both result shapes
(`results` / iterated `results_list`), the `Sampler` presets, the task side of the cancel relay. -/

/-! ## string forms of the status, `Job.__call__`, `Job.name` -/

/-- The five status strings are pairwise different: the string a caller reads (`job.status()`,
`str(job.status)`) determines the status. -/
theorem status_name_injective (a b : St) (h : a.name = b.name) : a = b := by
  cases a <;> cases b <;> first | rfl | (revert h; decide)

/-- The truthful final state in the words the caller reads: after a return `"CANCELED"` iff a cancel was
requested before it, else `"SUCCESS"`; after a raise `"ERROR"`; both string forms agree; whatever happens
afterwards. -/
theorem status_string_truthful (fixed : Bool) (cfg : Cfg) (w1 w2 : List Ev)
    (h : (after fixed cfg w1).phase = .active) :
    (∀ r, statusCall (after fixed cfg (w1 ++ .tReturn r :: w2)) =
            (if (after fixed cfg w1).cancelReq then "CANCELED" else "SUCCESS") ∧
          statusStr (after fixed cfg (w1 ++ .tReturn r :: w2)) = statusCall (after fixed cfg (w1 ++ .tReturn r :: w2))) ∧
    (∀ c m, statusCall (after fixed cfg (w1 ++ .tRaise c m :: w2)) = "ERROR" ∧
          statusStr (after fixed cfg (w1 ++ .tRaise c m :: w2)) = "ERROR") := by
  obtain ⟨h1, h2⟩ := final_truthful fixed cfg w1 w2 h
  refine ⟨fun r => ⟨?_, rfl⟩, fun c m => ?_⟩
  · unfold statusCall
    rw [(h1 r).2.1]
    split <;> rfl
  · unfold statusCall statusStr
    rw [(h2 c m).2.1]
    exact ⟨rfl, rfl⟩

/-- While the task is in flight the string a status query yields is `"RUNNING"` (repaired code). -/
theorem status_string_running (cfg : Cfg) (w : List Ev)
    (hp : (after true cfg w).phase = .ready ∨ (after true cfg w).phase = .active)
    (hen : callerEnabled (after true cfg w) = true) :
    statusCall (step true cfg (after true cfg w) .statusQuery).1 = "RUNNING" := by
  have hinv := inv_after true cfg w
  rw [running_until_return cfg w hp hen]
  generalize after true cfg w = s at hp hen hinv
  have hst : s.status = .running := by
    rcases hinv.cases with h | h | h | h | h | h | h <;> simp_all [callerEnabled]
  simp [statusCall, hst, St.name]

/-- `job(*args, **kwargs)` IS `job.execute_sync(*args, **kwargs)`: same new state, same answer, in every
state. -/
theorem call_is_execute_sync (fixed : Bool) (cfg : Cfg) (x : XState) (c : Call) :
    xstep fixed cfg x (.call c) = xstep fixed cfg x (.job (.execSync c)) := rfl

/-- Reading and setting the job's name — anywhere in any history, also from inside the progress callback
and while the task runs — is invisible to the job machine: the job after an extended history is the job
after the history with the name operations erased (and `__call__` read as `execute_sync`), and it gave
the same answers.  Hence every theorem of this file holds for histories with name operations and
`__call__` in them. -/
theorem name_ops_transparent (fixed : Bool) (cfg : Cfg) (w : List XEv) :
    (exec (xstep fixed cfg) (xinit cfg) w).job = after fixed cfg (eraseX w) ∧
    (run (xstep fixed cfg) (xinit cfg) w).2.filterMap baseOut = outs fixed cfg (eraseX w) :=
  xrun_proj fixed cfg w (xinit cfg)

/-- The setter: a non-empty string becomes the name, the empty string becomes `"unnamed"`, anything that
is not a string raises TypeError and leaves the name; the getter returns the current name. -/
theorem name_setter_spec (fixed : Bool) (cfg : Cfg) (x : XState) (hen : callerEnabled x.job = true) :
    (∀ s : String, s.length > 0 →
      xstep fixed cfg x (.setName (some s)) = ({ x with name := s }, .nameSet)) ∧
    xstep fixed cfg x (.setName (some "")) = ({ x with name := "unnamed" }, .nameSet) ∧
    xstep fixed cfg x (.setName none) = (x, .typeError) ∧
    xstep fixed cfg x .getName = (x, .name x.name) := by
  refine ⟨fun s hs => ?_, ?_, ?_, ?_⟩
  · simp [xstep, hen, setName, hs]
  · simp [xstep, hen, setName]
  · simp [xstep, hen, setName]
  · simp [xstep, hen]

/-- No event of the job machine touches the name: a fresh job is called `"Job"` until the setter is used. -/
theorem name_unaffected_by_job_events (fixed : Bool) (cfg : Cfg) (w : List Ev) (x : XState) :
    (exec (xstep fixed cfg) x (w.map .job)).name = x.name := by
  induction w generalizing x with
  | nil => rfl
  | cons e w ih => rw [List.map_cons, exec_cons, ih]; rfl

example : (run (xstep true cfg0) (xinit cfg0)
    [.getName, .setName (some ""), .getName, .setName none, .call call0, .job .tStart, .prog 4 .none,
     .setName (some "run 1"), .job (.tReturn ret0), .getName]).2 =
    [.name "Job", .nameSet, .name "unnamed", .typeError, .job .accepted, .job (.started [(1, some 5)]),
     .reply (.progressed (some 1) 4 false) .none (some false), .nameSet,
     .job (.finished (some (.val ret0))), .name "run 1"] := by decide

/-! ## one-shot conversion, both result shapes -/

/-- conversion depth of a payload: how many times the mapping function was applied -/
def Val.depth : Val → Nat
  | .nat _ => 0
  | .mapped v _ => v.depth + 1

/-- the conversion depths of the payloads of a result, in order -/
def Ret.depths : Ret → List Nat
  | .dict v => [v.depth]
  | .dlist l => l.map (·.2.depth)
  | _ => []

/-- the iteration dictionaries of a result -/
def Ret.iterations : Ret → List Dict
  | .dlist l => l.map (·.1)
  | _ => []

/-- EVERY value a caller ever receives after a normal return — from whatever event hands it out, at whatever
later point of whatever history — is the task's value `r` itself (no mapping function) or `r` converted ONCE
with the job's mapping arguments.  (`results_value` for every value-giving event, not only `get_results`.) -/
theorem value_received (fixed : Bool) (cfg : Cfg) (w1 w2 : List Ev) (r v : Ret) (e : Ev)
    (h : (after fixed cfg w1).phase = .active)
    (hv : resultOf (step fixed cfg (after fixed cfg (w1 ++ .tReturn r :: w2)) e).2 = some v) :
    (cfg.hasMap = false ∧ v = r) ∨
      (cfg.hasMap = true ∧ convertRet (after fixed cfg (w1 ++ .tReturn r :: w2)).mapping r = some v) := by
  obtain ⟨hd, _, _, hh⟩ := (final_truthful fixed cfg w1 w2 h).1 r
  have hinv := inv_after fixed cfg (w1 ++ .tReturn r :: w2)
  generalize after fixed cfg (w1 ++ .tReturn r :: w2) = t at hv hd hh hinv
  obtain ⟨r', mp, cr, p, _, h2, h3⟩ := done_step fixed cfg t e hinv hd
  obtain ⟨rfl, rfl⟩ := h3 v hv
  rcases hh with ⟨a, b⟩ | ⟨a, b, c⟩
  · rcases h2 with ⟨h2, h4⟩ | ⟨h2, _, h4⟩
    · exact .inl ⟨by rw [← a, ← h4], by rw [h2, b]⟩
    · exact .inr ⟨by rw [← a, h2], by rw [← b]; exact h4⟩
  · rcases h2 with ⟨h2, _⟩ | ⟨h2, _⟩
    · exact .inr ⟨a, by rw [h2]; exact c⟩
    · rw [b] at h2; cases h2

/-- The same for the value `execute_sync` itself returns (the step that ends the task). -/
theorem value_returned_by_execute_sync (fixed : Bool) (cfg : Cfg) (w1 : List Ev) (r v : Ret)
    (h : (after fixed cfg w1).phase = .active)
    (hv : resultOf (step fixed cfg (after fixed cfg w1) (.tReturn r)).2 = some v) :
    (cfg.hasMap = false ∧ v = r) ∨
      (cfg.hasMap = true ∧ convertRet (after fixed cfg (w1 ++ [.tReturn r])).mapping r = some v) := by
  obtain ⟨_, _, _, hh⟩ := (final_truthful fixed cfg w1 [] h).1 r
  have hs := (result_settles fixed cfg _ _ (inv_after fixed cfg w1) hv).1
  have hst : after fixed cfg (w1 ++ [.tReturn r]) = (step fixed cfg (after fixed cfg w1) (.tReturn r)).1 := by
    unfold after; rw [exec_append, exec_cons, exec_nil]
  rw [hst] at hh ⊢
  generalize (step fixed cfg (after fixed cfg w1) (.tReturn r)).1 = t at hs hh
  obtain ⟨_, hm, hr⟩ := hs
  rcases hh with ⟨a, b⟩ | ⟨a, _, c⟩
  · exact .inl ⟨by rw [← a, hm], by rw [← hr, b]⟩
  · exact .inr ⟨a, by rw [← hr]; exact c⟩

/-- The conversion, shape by shape: `{'results': x}` becomes `{'results': f(x, **mapping)}`; an iterated
result `{'results_list': [{'iteration': it_i, 'results': x_i}]}` keeps its length, order and iteration
dictionaries, and entry `i` becomes `f(x_i, **mapping overridden by it_i)`; a value of neither shape cannot
be converted. -/
theorem convert_shapes (mapping : Dict) :
    (∀ x, convertRet mapping (.dict x) = some (.dict (.mapped x mapping))) ∧
    (∀ l, convertRet mapping (.dlist l) =
      some (.dlist (l.map fun e => (e.1, .mapped e.2 (overrideWith mapping e.1))))) ∧
    (∀ n, convertRet mapping (.plain n) = none) ∧ convertRet mapping .none = none :=
  ⟨fun _ => rfl, fun _ => rfl, fun _ => rfl, rfl⟩

/-- The override of one iteration: exactly the keys of the job's mapping arguments, in the same order (an
iteration key the mapping does not have is not passed on); a key the iteration has takes the iteration's
value (even `None`), any other keeps the job's. -/
theorem override_spec (mapping it : Dict) :
    keys (overrideWith mapping it) = keys mapping ∧
    ∀ k v, (k, v) ∈ overrideWith mapping it ↔ ∃ v0, (k, v0) ∈ mapping ∧ v = (it.lookup k).getD v0 := by
  refine ⟨by simp [keys, overrideWith, Function.comp_def], fun k v => ?_⟩
  simp only [overrideWith, List.mem_map, Prod.mk.injEq, Prod.exists]
  constructor
  · rintro ⟨a, b, hm, rfl, rfl⟩; exact ⟨b, hm, rfl⟩
  · rintro ⟨v0, hm, rfl⟩; exact ⟨k, v0, hm, rfl, rfl⟩

/-- ONE-SHOT, both shapes: whatever value `v` a caller receives after the task returned `r` (any event, any
later point, any number of earlier `get_results()` calls) has the iteration dictionaries of `r` and, payload by
payload, the conversion depth of `r` plus exactly one with a mapping function, plus zero without — never two
(a second conversion of an iterated result would show as depth + 2 in every entry). -/
theorem one_shot_conversion (fixed : Bool) (cfg : Cfg) (w1 w2 : List Ev) (r v : Ret) (e : Ev)
    (h : (after fixed cfg w1).phase = .active)
    (hv : resultOf (step fixed cfg (after fixed cfg (w1 ++ .tReturn r :: w2)) e).2 = some v) :
    v.iterations = r.iterations ∧
    v.depths = r.depths.map (· + (if cfg.hasMap then 1 else 0)) := by
  rcases value_received fixed cfg w1 w2 r v e h hv with ⟨hm, rfl⟩ | ⟨hm, hc⟩
  · simp [hm]
  · rw [hm]
    cases r with
    | none => cases hc
    | plain n => cases hc
    | dict x =>
      obtain rfl := Option.some.inj hc
      simp [Ret.iterations, Ret.depths, Val.depth]
    | dlist l =>
      obtain rfl := Option.some.inj hc
      simp [Ret.iterations, Ret.depths, Val.depth, Function.comp_def]

/-- the conversion is not applied to a converted result again: `_get_results` after `_get_results` -/
theorem convert_twice (s s2 : State) (h : convert s = some s2) : convert s2 = some s2 := by
  rcases convert_cases h with ⟨hm, rfl⟩ | ⟨_, r2, _, rfl⟩
  · simp [convert, hm]
  · simp [convert]

/-- iterated result with a mapping function, `get_results()` three times, once from `execute_sync` -/
example : (outs true cfg1 [.execSync call0, .tStart,
      .tReturn (.dlist [([(2, some 9)], .nat 1), ([], .nat 2)]), .getResults, .getResults]).drop 2 =
    [.finished (some (.val (.dlist [([(2, some 9)], .mapped (.nat 1) [(2, some 9)]), ([], .mapped (.nat 2) [(2, some 3)])]))),
     .results (.dlist [([(2, some 9)], .mapped (.nat 1) [(2, some 9)]), ([], .mapped (.nat 2) [(2, some 3)])]),
     .results (.dlist [([(2, some 9)], .mapped (.nat 1) [(2, some 9)]), ([], .mapped (.nat 2) [(2, some 3)])])] := by
  decide
example : (after true cfg1 [.execAsync call0, .tStart]).phase = .active ∧
    resultOf (step true cfg1 (after true cfg1 ([.execAsync call0, .tStart] ++
      .tReturn (.dlist [([], .nat 2)]) :: [.getResults])) .getResults).2 =
      some (.dlist [([], .mapped (.nat 2) [(2, some 3)])]) := by decide

/-! ## the jobs `Sampler` creates -/

/-- Argument routing for the four presets `Sampler._create_job` passes, for EVERY value: what
`_handle_params` leaves in the command dictionary (the task's keyword arguments), in the mapping dictionary
(the conversion's) and whether it raises — for no argument, one positional, `max_samples=` by keyword, both,
two positionals.  In words: on a sampling backend `max_samples` reaches the task whether passed positionally
or by keyword and passing it both ways is refused; on a probs backend it reaches the conversion; a probs job
on a sampling backend runs with the preset count unless a positional argument overrides it. -/
theorem sampler_preset_routing (P : Preset) (cb : Bool) (h : How) :
    handleParams (P.cfg cb).paramNames (P.cfg cb).command0 (P.cfg cb).mapping0 h.call = P.route h := by
  rcases P with _ | sh | n | cv <;> rcases h with _ | a | v | ⟨a, v⟩ | ⟨a, b⟩ <;>
    first
    | rfl
    | (cases a <;> rfl)
    | (cases sh <;> rfl)
    | (cases sh <;> cases a <;> rfl)
    | simp [handleParams, popExtra, How.call, posArgs, Preset.route, Preset.cfg, dhas, dset, fill]

/-- History level: a job created by `Sampler`, executed (synchronously or in a thread) with `max_samples`
passed in any of the five ways: when the routing table says "accepted" the task function is entered with
exactly the command dictionary of the table as keyword arguments; when it says "raises", the call raises that
exception and the task cannot be started. -/
theorem sampler_job_task_receives (fixed : Bool) (P : Preset) (cb async : Bool) (h : How) :
    let e := if async then Ev.execAsync h.call else Ev.execSync h.call
    ((P.route h).2.2 = none →
      outs fixed (P.cfg cb) [e, .tStart] = [.accepted, .started (P.route h).1]) ∧
    (∀ x, (P.route h).2.2 = some x →
      outs fixed (P.cfg cb) [e, .tStart] = [.exc x, .disabled]) := by
  have hr := sampler_preset_routing P cb h
  rcases hroute : P.route h with ⟨cmd, map, ex⟩
  rw [hroute] at hr
  have := fresh_call_outs fixed (P.cfg cb) h.call async cmd map ex hr
  refine ⟨fun hn => ?_, fun x hx => ?_⟩
  · simp only at hn; subst hn; exact this
  · simp only at hx; subst hx; exact this

/-- `Sampler(probs backend).sample_count(n)` with iterations: the conversion of iteration `i` receives
`max_samples` = the iteration's own `max_samples` if it has one, else `n`, and `max_shots` = the iteration's own
if it has one, else the Sampler's — exactly these two keyword arguments, for every `n`, every Sampler
`max_shots` and every list of iterations. -/
theorem sampler_iterated_conversion (n : Nat) (sh : PyVal) (l : List (Dict × Val)) :
    (handleParams [] [] [(maxSamples, none), (maxShots, sh)] (How.pos (some n)).call).2.1 =
      [(maxSamples, some n), (maxShots, sh)] ∧
    convertRet [(maxSamples, some n), (maxShots, sh)] (.dlist l) =
      some (.dlist (l.map fun e => (e.1, .mapped e.2
        [(maxSamples, (e.1.lookup maxSamples).getD (some n)), (maxShots, (e.1.lookup maxShots).getD sh)]))) := by
  refine ⟨?_, rfl⟩
  have := sampler_preset_routing (.sampleViaProbs sh) false (.pos (some n))
  simp only [Preset.cfg] at this
  rw [this]; rfl

example : outs true ((Preset.samplesNative true).cfg false) [.execSync (How.kw (some 50)).call, .tStart] =
    [.accepted, .started [(maxSamples, some 50)]] := by decide
example : outs true ((Preset.probsViaSamples 10000).cfg false) [.execAsync (How.kw (some 50)).call, .tStart] =
    [.exc .unused, .disabled] := by decide

/-! ## the task side of the cancel relay -/

/-- `check_cancel.cancel_requested` applied to what `LocalJob._progress_cb` returns: true whenever a cancel
was requested (the relay `{'cancel_requested': True}` is what the test looks for — the two files agree);
otherwise the verdict on what the user's callback returned, and false when there is no user callback. -/
theorem check_cancel_spec (s : State) (u : Reply) :
    cancelRequested (jobReply s u) =
      if s.cancelReq then some true
      else if s.userCb.isSome then cancelRequested u else some false := by
  unfold jobReply
  cases s.cancelReq <;> cases s.userCb <;> simp [cancelRequested]

/-- In the machine: the answer to a progress report carries the relay exactly when the job's cancel flag
is set, and then `cancel_requested` says yes. -/
theorem relay_reaches_the_task (fixed : Bool) (cfg : Cfg) (x : XState) (p : Nat) (u : Reply)
    (ha : x.job.phase = .active) (hc : x.job.cancelReq = true) :
    (xstep fixed cfg x (.prog p u)).2 = .reply (.progressed none p true) (.dict (some true)) (some true) := by
  simp [xstep, ha, step, taskProgress, hc, jobReply, cancelRequested]

/-- Every history of the closed loop (cooperative task + caller, any schedule) is a history of the job machine:
all theorems above apply to it. -/
theorem coop_histories_are_histories (fixed : Bool) (cfg : Cfg) (pr : Prog) (W : List CEv) :
    ∃ w, (exec (cstep fixed cfg pr) (cinit cfg pr) W).job = after fixed cfg w :=
  creach fixed cfg pr W _ ⟨[], rfl⟩

/-- CANCEL TAKES EFFECT.  A cooperative task (one that tests `cancel_requested` on what every progress call
returns, policy raise or stop) is in flight and a cancel has been requested.  Whatever the caller does meanwhile
and whatever the user's callback returns, after at most TWO further steps of the task it has ended, and the job
is CANCELED or ERROR — never SUCCESS — for good. -/
theorem coop_cancel_takes_effect (fixed : Bool) (cfg : Cfg) (pr : Prog) (W1 W2 : List CEv)
    (hp : pr.policy ≠ .ignore)
    (ha : (exec (cstep fixed cfg pr) (cinit cfg pr) W1).job.phase = .active)
    (hc : (exec (cstep fixed cfg pr) (cinit cfg pr) W1).job.cancelReq = true)
    (h2 : 2 ≤ ticks W2) :
    (exec (cstep fixed cfg pr) (cinit cfg pr) (W1 ++ W2)).job.phase = .done ∧
    ((exec (cstep fixed cfg pr) (cinit cfg pr) (W1 ++ W2)).job.status = .canceled ∨
     (exec (cstep fixed cfg pr) (cinit cfg pr) (W1 ++ W2)).job.status = .error) := by
  rw [exec_append]
  have hi : MapInv cfg (exec (cstep fixed cfg pr) (cinit cfg pr) W1).job :=
    inv_exec (cstep fixed cfg pr) (fun c => MapInv cfg c.job) (fun c e h => cstep_mapInv fixed cfg pr c e h)
      _ ⟨inv_init cfg, fun _ => rfl⟩ W1
  apply coop_end fixed cfg pr hp W2 _ hi ha hc
  have : need (exec (cstep fixed cfg pr) (cinit cfg pr) W1) ≤ 2 := by unfold need; split <;> omega
  omega

/-- What the end looks like, policy by policy, in every state in which the task has seen the request:
`raise RuntimeError("Cancel requested")` → ERROR with exactly that type and message; `break` → the job is CANCELED
when `cancel()` had been called and holds the partial result — and SUCCESS with the partial result when only the
user's callback asked for the stop (quirk of the code as it is: the relay protocol is open to the callback). -/
theorem coop_end_by_policy (fixed : Bool) (cfg : Cfg) (pr : Prog) (c : CState) (u : Reply)
    (hi : MapInv cfg c.job) (ha : c.job.phase = .active) (hs : c.seen = .stop) :
    (pr.policy = .raise →
      (cstep fixed cfg pr c (.tick u)).1.job.phase = .done ∧
      (cstep fixed cfg pr c (.tick u)).1.job.status = .error ∧
      (cstep fixed cfg pr c (.tick u)).1.job.msg = .task clsRuntime txtCancelRequested) ∧
    (pr.policy = .stop →
      (cstep fixed cfg pr c (.tick u)).1.job.phase = .done ∧
      (cstep fixed cfg pr c (.tick u)).1.job.status = (if c.job.cancelReq then .canceled else .success) ∧
      Holds cfg pr.partialResult (cstep fixed cfg pr c (.tick u)).1.job) := by
  have hmap := hi.2 (by rw [ha]; simp)
  have key := final_truthful_state fixed cfg c.job hi.1 hmap ha []
  simp only [exec_nil] at key
  constructor
  · intro hp
    simp only [cstep, nextTaskEv, ha, hs, hp]
    exact key.2 _ _
  · intro hp
    simp only [cstep, nextTaskEv, ha, hs, hp]
    obtain ⟨a, b, _, d⟩ := key.1 pr.partialResult
    exact ⟨a, b, d⟩

/-- cancel from the caller thread after the first report; the task sees it at the second report and raises /
stops; the third and fourth report are never made -/
example : (run (cstep true cfg0 { reports := [1, 2, 3, 4], result := ret0, partialResult := .dict (.nat 0), policy := .raise })
      (cinit cfg0 { reports := [1, 2, 3, 4], result := ret0, partialResult := .dict (.nat 0), policy := .raise })
      [.caller (.execAsync call0), .tick .none, .tick .none, .caller .cancel, .tick .none, .tick .none, .tick .none,
       .caller .statusQuery]).2 =
    [.accepted, .started [(1, some 5)], .progressed (some 1) 1 false, .done, .progressed none 2 true,
     .finished none, .disabled, .status .error (.task clsRuntime txtCancelRequested) 2] := by decide
example : (run (cstep true cfg0 { reports := [1, 2, 3, 4], result := ret0, partialResult := .dict (.nat 0), policy := .stop })
      (cinit cfg0 { reports := [1, 2, 3, 4], result := ret0, partialResult := .dict (.nat 0), policy := .stop })
      [.caller (.execAsync call0), .tick .none, .tick .none, .caller .cancel, .tick .none, .tick .none,
       .caller .getResults]).2 =
    [.accepted, .started [(1, some 5)], .progressed (some 1) 1 false, .done, .progressed none 2 true,
     .finished none, .results (.dict (.nat 0))] := by decide
/-- the quirk: the user's callback returns `{'cancel_requested': True}`, nobody calls `cancel()` -/
example : (run (cstep true cfg0 { reports := [1, 2], result := ret0, partialResult := .dict (.nat 0), policy := .stop })
      (cinit cfg0 { reports := [1, 2], result := ret0, partialResult := .dict (.nat 0), policy := .stop })
      [.caller (.execAsync call0), .tick .none, .tick (.dict (some true)), .tick .none, .caller .statusQuery]).2 =
    [.accepted, .started [(1, some 5)], .progressed (some 1) 1 false, .finished none, .status .success .none 8] := by
  decide

/-- NO SPURIOUS STOP.  Along any closed-loop history in which nobody calls `cancel()` and the user's callback never
returns a cancel request (nor an object `cancel_requested` cannot read) — whatever else the caller does, in any
interleaving — the cooperative task never sees a stop request, and when it has ended it has made ALL its progress
reports and returned its full result: the job is SUCCESS and holds that result (once-converted at most). -/
theorem coop_no_spurious_stop (fixed : Bool) (cfg : Cfg) (pr : Prog) (W : List CEv)
    (hq : ∀ e ∈ W, quietEv e = true) :
    (exec (cstep fixed cfg pr) (cinit cfg pr) W).seen = .go ∧
    (exec (cstep fixed cfg pr) (cinit cfg pr) W).job.cancelReq = false ∧
    ((exec (cstep fixed cfg pr) (cinit cfg pr) W).job.phase = .done →
      (exec (cstep fixed cfg pr) (cinit cfg pr) W).job.status = .success ∧
      Holds cfg pr.result (exec (cstep fixed cfg pr) (cinit cfg pr) W).job ∧
      (exec (cstep fixed cfg pr) (cinit cfg pr) W).todo = []) := by
  have h0 : Quiet cfg pr (cinit cfg pr) :=
    ⟨⟨inv_init cfg, fun _ => rfl⟩, rfl, rfl, fun h => by simp [cinit, init] at h⟩
  exact (quiet_exec fixed cfg pr W _ hq h0).2

example : (∀ e ∈ [CEv.caller (.execSync call0), .tick .none, .tick (.dict none), .caller .statusQuery, .tick (.dict (some false)),
      .tick .none], quietEv e = true) ∧
    (exec (cstep true cfg0 { reports := [1, 2], result := ret0, partialResult := .none, policy := .raise })
      (cinit cfg0 { reports := [1, 2], result := ret0, partialResult := .none, policy := .raise })
      [.caller (.execSync call0), .tick .none, .tick (.dict none), .caller .statusQuery, .tick (.dict (some false)),
       .tick .none]).job.phase = .done := by decide

/-! # Round 4: the asynchronous run under EVERY schedule of single shared-memory accesses
(model: `Model/C18Race.lean`, helpers: `Lemmas/C18Race.lean`)

The theorems above take whole API calls and whole task steps as atoms.  Here the atoms are single accesses to the
memory the caller thread and the worker thread share (`_status`, `_stop_message`, `_running_progress`, `_results`,
`_cancel_requested`, liveness of the thread); a schedule is a word over `REv`, `rafter fixed cfg w` the job after it.
`fixed = true` is the code with `fixes/C18-status-race.diff` (the liveness test of `LocalJob.status` first),
`fixed = false` the code before it: there a status query that reads RUNNING, is overtaken by the worker's last steps
and then finds the thread dead "repairs" the final status to SUCCESS. -/

/-- sample schedule: the task raises while a status query is between its two tests -/
def raceWitness : List REv :=
  [.exec call0, .w, .begin .status, .c, .task (.raise 0 1), .w, .w, .w, .c, .c, .c, .c, .c, .c, .c]

/-- EXACTLY ONE TRUTHFUL FINAL STATE, FOR ALL SCHEDULES.  Whenever the worker thread has ended with outcome `o`
(returned `r` with the cancel flag it read, or raised), status and stop message are the truthful ones, the thread is
reported dead, a successful job shows full progress — and nothing that anybody does afterwards, in any order, changes
outcome, status or message. -/
theorem race_final_state_truthful (cfg : Cfg) (w : List REv) (o : Outcome)
    (h : (rafter true cfg w).wpc = .dead o) :
    (rafter true cfg w).st = o.st ∧ (rafter true cfg w).msg = o.msg ∧ (rafter true cfg w).alive = false ∧
    (o.st = .success → (rafter true cfg w).prog = 8) ∧
    ∀ w2, (rafter true cfg (w ++ w2)).wpc = .dead o ∧ (rafter true cfg (w ++ w2)).st = o.st ∧
      (rafter true cfg (w ++ w2)).msg = o.msg := by
  have hi := rinv_after cfg w
  have hw := hi.1
  simp only [wShape, h] at hw
  refine ⟨hw.1, hw.2.1, hw.2.2.1, hw.2.2.2.2, fun w2 => ?_⟩
  obtain ⟨hf, hi2⟩ := fate_exec cfg w2 _ hi o (by simp [h, WPc.fate])
  simp only [rafter, exec_append] at *
  have hpc2 := dead_exec cfg o w2 _ hi h
  have hw2 := hi2.1
  simp only [wShape, hpc2] at hw2
  exact ⟨hpc2, hw2.1, hw2.2.1⟩

/-- A FINAL STATUS IS ABSORBING, FOR ALL SCHEDULES: once `_status` holds SUCCESS, ERROR or CANCELED (from the very
access that wrote it, while the worker is still finishing `stop_run`), no continuation of the schedule changes it. -/
def RaceStatusAbsorbing (fixed : Bool) : Prop :=
  ∀ (cfg : Cfg) (w1 w2 : List REv), (rafter fixed cfg w1).st.isFinal = true →
    (rafter fixed cfg (w1 ++ w2)).st = (rafter fixed cfg w1).st

theorem race_status_absorbing : RaceStatusAbsorbing true := by
  intro cfg w1 w2 hf
  have hi := rinv_after cfg w1
  obtain ⟨o, h1, h2, _, _⟩ := wShape_final hi.1 hf
  obtain ⟨hf2, hi2⟩ := fate_exec cfg w2 _ hi o h1
  simp only [rafter, exec_append] at *
  rw [h2]
  -- the status after `w2` is final or running; with the fate decided and the status already written it is `o.st`
  have hw2 := hi2.1
  have hp2 := notPreFinal_exec cfg w2 _ hi (by assumption)
  exact wShape_st_of_fate hw2 hf2 hp2

/-- THE CODE BEFORE THE FIX VIOLATES IT: `execute_async(5)`; the worker enters the task; `job.status` reads
`_status.running == True`; the task raises, the worker writes ERROR and the message and exits; the status query goes
on, finds the thread dead and calls `stop_run()`: the job that failed is SUCCESS for good, message `None`. -/
theorem race_status_absorbing_fails_on_current_code : ¬ RaceStatusAbsorbing false := by
  intro h
  have := h cfg0 (raceWitness.take 8) (raceWitness.drop 8)
  revert this
  decide

theorem current_code_reports_failed_task_as_success :
    (rafter false cfg0 raceWitness).wpc = .dead (.raised 0 1) ∧ (rafter false cfg0 raceWitness).st = .success ∧
    (rafter false cfg0 raceWitness).msg = .none ∧
    (routs false cfg0 raceWitness).getLast? = some (.step .rProg (some (.status .success .none 8))) ∧
    .step .rProg (some (.status .error (.task 0 1) 0)) ∈ routs true cfg0 raceWitness := by
  decide

/-- REPORTED AS RUNNING UNTIL THE WORKER WRITES THE END, FOR ALL SCHEDULES: from the acceptance of `execute_async`
until the worker's own write of the final status, `_status` is RUNNING and there is no stop message — whatever the
caller does meanwhile; in particular the liveness repair of `LocalJob.status` never fires (`rep1..3` unreachable). -/
theorem race_running_until_written (cfg : Cfg) (w : List REv)
    (hs : (rafter true cfg w).started = true) (hp : (rafter true cfg w).wpc.preFinal = true) :
    (rafter true cfg w).st = .running ∧ (rafter true cfg w).msg = .none ∧ (rafter true cfg w).alive = true := by
  have hw := (rinv_after cfg w).1
  generalize rafter true cfg w = s at *
  unfold wShape at hw
  split at hw
  · rename_i hpc; rw [hpc] at hp; simp [WPc.preFinal] at hp
  · rename_i hpc; rw [hpc] at hp; simp [WPc.preFinal] at hp
  · rename_i hpc; rw [hpc] at hp; simp [WPc.preFinal] at hp
  · rename_i hpc; rw [hpc] at hp; simp [WPc.preFinal] at hp
  · rename_i hpc; rw [hpc] at hp; simp [WPc.preFinal] at hp
  · simp [hw.1, hw.2.1, hw.2.2, hs]

theorem race_repair_never_fires (cfg : Cfg) (w : List REv) (k : Cont) :
    (rafter true cfg w).cpc ≠ .rep1 k ∧ (rafter true cfg w).cpc ≠ .rep2 k ∧ (rafter true cfg w).cpc ≠ .rep3 k := by
  have hc := (rinv_after cfg w).2.1
  refine ⟨fun h => ?_, fun h => ?_, fun h => ?_⟩ <;> simp [cShape, h] at hc

/-- NO OBSERVATION IS EVER WRONG, FOR ALL SCHEDULES (the reads of one `job.status` observation are three separate
accesses).  In any reachable state, when the caller's step completes an observation `(a, m, p)`: a final `a` is the
truthful status of the outcome already decided at the worker; `m` is `None` (the worker may not have written the
message yet — `stop_run` writes the status first, as the code does) or the truthful message. -/
theorem race_observation_truthful (cfg : Cfg) (w : List REv) (acc : Acc) (a : St) (m : Msg) (p : Nat)
    (h : (rstep true cfg (rafter true cfg w) .c).2 = .step acc (some (.status a m p))) :
    (a.isFinal = true → ∃ o, (rafter true cfg w).wpc.fate = some o ∧ a = o.st) ∧
    (m = .none ∨ ∃ o, (rafter true cfg w).wpc.fate = some o ∧ m = o.msg) := by
  have hc := (rinv_after cfg w).2.1
  generalize rafter true cfg w = s at *
  simp only [rstep] at h
  unfold callerStep at h
  split at h
  all_goals (rename_i hpc; try (repeat' split at h) <;> try (simp at h; done))
  simp only [ROut.step.injEq, Option.some.injEq, Out.status.injEq] at h
  obtain ⟨_, rfl, rfl, _⟩ := h
  simp only [cShape, hpc] at hc
  refine ⟨fun ha => ?_, ?_⟩
  · obtain ⟨o, h1, h2, _⟩ := hc.1 ha; exact ⟨o, h1, h2⟩
  · rcases hc.2 with h | ⟨o, h1, h2, _⟩
    · exact Or.inl h
    · exact Or.inr ⟨o, h1, h2⟩

/-- THE OUTCOME IS THE TASK'S.  A task that raises ends ERROR with its own type and text, under every schedule,
whatever the cancel flag: from the raise on, the decided outcome is `raised cls text` and stays so. -/
theorem race_raise_is_error (cfg : Cfg) (w1 w2 : List REv) (c t : Nat)
    (h : (rafter true cfg w1).wpc = .inTask) :
    (rafter true cfg (w1 ++ .task (.raise c t) :: w2)).wpc.fate = some (.raised c t) := by
  have hi := rinv_after cfg w1
  have hstd : (rafter true cfg w1).started = true := by
    cases hq : (rafter true cfg w1).started
    · rw [hi.2.2.1 hq] at h; simp at h
    · rfl
  have hw := hi.1
  simp only [wShape, h] at hw
  simp only [rafter, exec_append, exec_cons] at *
  have hal : (exec (rstep true cfg) (rinit cfg) w1).alive = true := by rw [hw.2.2]; exact hstd
  refine (fate_exec cfg w2 _ (rinv_step cfg _ _ hi) _ ?_).1
  simp [rstep, taskStep, h, hstd, hal, WPc.fate]

/-- CANCELED iff cancellation was requested before the task returned, at access granularity:
(1) `cancel()` completed before the task's return ⇒ the decided outcome is `returned r true` (CANCELED) for good;
(2) no `cancel()` at all ⇒ never CANCELED;
(3) once the worker has read the flag as unset (`stop1 r false`), a later `cancel()` does not turn SUCCESS into CANCELED.
Between the task's return and the worker's read of the flag both are possible (the example below). -/
theorem race_cancel_before_return (cfg : Cfg) (w1 w2 : List REv) (r : Ret)
    (h : (rafter true cfg w1).wpc = .inTask) (hc : (rafter true cfg w1).cancelReq = true) (o : Outcome)
    (hd : (rafter true cfg (w1 ++ .task (.ret r) :: w2)).wpc.fate = some o) :
    o = .returned r true := by
  have hi := rinv_after cfg w1
  have hstd : (rafter true cfg w1).started = true := by
    cases hq : (rafter true cfg w1).started
    · rw [hi.2.2.1 hq] at h; simp at h
    · rfl
  have hw := hi.1
  simp only [wShape, h] at hw
  simp only [rafter, exec_append, exec_cons] at *
  have h1 : CancelledRet r (rstep true cfg (exec (rstep true cfg) (rinit cfg) w1) (.task (.ret r))).1 := by
    have hal : (exec (rstep true cfg) (rinit cfg) w1).alive = true := by rw [hw.2.2]; exact hstd
    left
    simp [rstep, taskStep, h, hstd, hal, hc]
  obtain ⟨h2, _⟩ := cancelledRet_exec cfg r w2 _ (rinv_step cfg _ _ hi) h1
  rcases h2 with ⟨_, h2 | h2⟩ | h2
  · rw [h2] at hd; simp [WPc.fate] at hd
  · rw [h2] at hd; simp [WPc.fate] at hd
  · rw [h2] at hd; exact (Option.some.inj hd).symm

theorem race_never_canceled_without_cancel (cfg : Cfg) (w : List REv) (r : Ret)
    (hc : (rafter true cfg w).cancelReq = false) : (rafter true cfg w).wpc.fate ≠ some (.returned r true) := by
  intro h
  have := (rinv_after cfg w).2.2.2.1 r h
  rw [hc] at this; simp at this

theorem race_cancel_after_flag_read_is_success (cfg : Cfg) (w1 w2 : List REv) (r : Ret)
    (h : (rafter true cfg w1).wpc = .stop1 r false) :
    (rafter true cfg (w1 ++ w2)).wpc.fate = some (.returned r false) := by
  simp only [rafter, exec_append]
  exact (fate_exec cfg w2 _ (rinv_after cfg w1) _ (by simp [h, WPc.fate])).1

/-- between the return and the worker's read of the flag, `cancel()` still makes the job CANCELED … -/
example : (rafter true cfg0 [.exec call0, .w, .task (.ret ret0), .begin .cancel, .c, .w, .w, .w, .w, .w]).st = .canceled := by
  decide
/-- … after the read it does not -/
example : (rafter true cfg0 [.exec call0, .w, .task (.ret ret0), .w, .w, .begin .cancel, .c, .w, .w, .w, .w]).st = .success ∧
    (rafter true cfg0 [.exec call0, .w, .task (.ret ret0), .w, .w]).wpc = .stop1 ret0 false := by decide
example : (rafter true cfg0 [.exec call0, .w]).wpc = .inTask ∧
    (rafter true cfg0 [.exec call0, .w, .begin .cancel, .c]).cancelReq = true ∧
    (rafter true cfg0 [.exec call0, .w, .begin .cancel, .c]).wpc = .inTask := by decide

/-- RESULTS UNDER EVERY SCHEDULE.  In any reachable state, when a step of `get_results()` hands out a value `v`:
the worker has written the final status before (so the task has ended — no value while it runs), and if the task
returned `r`, `v` is `r` or `r` converted exactly once with the job's mapping arguments. -/
theorem race_results_value (cfg : Cfg) (w : List REv) (acc : Acc) (v : Ret)
    (h : (rstep true cfg (rafter true cfg w) .c).2 = .step acc (some (.results v))) :
    (rafter true cfg w).wpc.preFinal = false ∧
    ∀ r c, (rafter true cfg w).wpc.fate = some (.returned r c) →
      v = r ∨ convertRet (rafter true cfg w).mapping r = some v := by
  have hi := rinv_after cfg w
  obtain ⟨_, hc, _, _, hres⟩ := hi
  generalize rafter true cfg w = s at *
  simp only [rstep] at h
  unfold callerStep at h
  split at h
  all_goals (rename_i hpc; try (repeat' split at h) <;> try (simp at h; done))
  · -- conversion performed now
    rename_i hmp _ r' hcv
    simp only [ROut.step.injEq, Option.some.injEq, Out.results.injEq] at h
    obtain ⟨_, rfl⟩ := h
    simp only [cShape, hpc] at hc
    refine ⟨hc.1, fun r c hf => ?_⟩
    rcases hres.2 r c hf with hh | hh
    · right; rw [← hh]; exact hcv
    · rw [hmp] at hh; simp at hh
  · simp only [ROut.step.injEq, Option.some.injEq, Out.results.injEq] at h
    obtain ⟨_, rfl⟩ := h
    simp only [cShape, hpc] at hc
    refine ⟨hc.1, fun r c hf => ?_⟩
    rcases hres.2 r c hf with hh | hh
    · exact Or.inl hh
    · exact Or.inr hh.2

example : (routs true cfg1 [.exec call0, .w, .task (.ret ret0), .begin .get, .c, .c, .w, .w, .w, .w, .w, .w,
      .begin .get, .c, .c, .c, .c, .c, .begin .get, .c, .c, .c, .c, .c]).filterMap (fun o => match o with
        | .step _ (some (.results v)) => some (some v) | .step _ (some (.exc .stillRunning)) => some none | _ => none) =
    [none, some (.dict (.mapped (.nat 7) [(2, some 3)])), some (.dict (.mapped (.nat 7) [(2, some 3)]))] := by decide

/-! # Wave 7: bounded termination at access granularity (helpers: `Lemmas/C18More.lean`)

The theorems of round 4 are safety statements (whatever is written is truthful and stays).  These add the
liveness side, for ALL schedules: once the task function is left the worker needs at most 6 of its own steps to
write the final state and end, whatever the caller does in between (`race_worker_ends`, `race_return_completes`,
`race_raise_completes`); every API call of the caller ends within 10 of its own steps whatever the worker does
(`race_api_call_wait_free`, both versions of the code: no call waits for the other thread); and the cancel clause
is closed into an equation: the outcome is CANCELED iff the flag was set at the access where the worker reads it
(`race_canceled_iff_flag_at_read`). -/

/-- THE WORKER ENDS.  Once the task function has been left (returned or raised; `WPc.left`), any continuation of the
schedule that grants the worker the accesses it still has to perform (`WPc.togo`, at most 6) — interleaved at will with
steps of the caller, new API calls, refused `execute_async` calls — ends with the thread dead and the final state of
ONE outcome `o` in memory; if the outcome was already decided at the worker (`fate`), it is that one. -/
theorem race_worker_ends (cfg : Cfg) (w1 w2 : List REv)
    (hl : (rafter true cfg w1).wpc.left = true) (hn : (rafter true cfg w1).wpc.togo ≤ wCount w2) :
    ∃ o, (rafter true cfg (w1 ++ w2)).wpc = .dead o ∧ (rafter true cfg (w1 ++ w2)).st = o.st ∧
      (rafter true cfg (w1 ++ w2)).msg = o.msg ∧ (rafter true cfg (w1 ++ w2)).alive = false ∧
      (∀ o', (rafter true cfg w1).wpc.fate = some o' → o = o') :=
  more_worker_ends cfg w1 w2 hl hn

/-- the bound is uniform: six steps of the worker always suffice -/
theorem race_worker_togo_le_six (pc : WPc) : pc.togo ≤ 6 := togo_le pc

/-- A RETURN IS FOLLOWED BY SUCCESS OR CANCELED WITHIN SIX STEPS OF THE WORKER, FOR ALL SCHEDULES.  The task (in
flight) returns `r`; whatever is interleaved, after six accesses of the worker the thread is dead and the job is
SUCCESS with no message or CANCELED with 'User has canceled the job'; CANCELED only if `cancel()` has written the
flag, and CANCELED whenever it had done so before the return. -/
theorem race_return_completes (cfg : Cfg) (w1 w2 : List REv) (r : Ret)
    (h : (rafter true cfg w1).wpc = .inTask) (hn : 6 ≤ wCount w2) :
    ∃ c, (rafter true cfg (w1 ++ .task (.ret r) :: w2)).wpc = .dead (.returned r c) ∧
      (rafter true cfg (w1 ++ .task (.ret r) :: w2)).st = (if c then .canceled else .success) ∧
      (rafter true cfg (w1 ++ .task (.ret r) :: w2)).msg = (if c then .canceled else .none) ∧
      (rafter true cfg (w1 ++ .task (.ret r) :: w2)).alive = false ∧
      (c = true → (rafter true cfg (w1 ++ .task (.ret r) :: w2)).cancelReq = true) ∧
      ((rafter true cfg w1).cancelReq = true → c = true) :=
  more_return_completes cfg w1 w2 r h hn

/-- A RAISE IS FOLLOWED BY ERROR WITHIN THREE STEPS OF THE WORKER, FOR ALL SCHEDULES, with the exception's own
'<type>: <message>', whatever the cancel flag. -/
theorem race_raise_completes (cfg : Cfg) (w1 w2 : List REv) (c t : Nat)
    (h : (rafter true cfg w1).wpc = .inTask) (hn : 3 ≤ wCount w2) :
    (rafter true cfg (w1 ++ .task (.raise c t) :: w2)).wpc = .dead (.raised c t) ∧
    (rafter true cfg (w1 ++ .task (.raise c t) :: w2)).st = .error ∧
    (rafter true cfg (w1 ++ .task (.raise c t) :: w2)).msg = .task c t ∧
    (rafter true cfg (w1 ++ .task (.raise c t) :: w2)).alive = false :=
  more_raise_completes cfg w1 w2 c t h hn

/-- non-vacuity, and the bounds 6 / 3 are attained: one step fewer and the thread is still alive -/
example : (rafter true cfg0 [.exec call0, .w]).wpc = .inTask ∧
    (rafter true cfg0 [.exec call0, .w, .task (.ret ret0)]).wpc.left = true ∧
    (rafter true cfg0 [.exec call0, .w, .task (.ret ret0)]).wpc.togo = 6 ∧
    (rafter true cfg0 [.exec call0, .w, .task (.ret ret0), .w, .w, .w, .w, .w]).alive = true ∧
    (rafter true cfg0 [.exec call0, .w, .task (.ret ret0), .w, .begin .status, .w, .c, .w, .w, .w, .c, .w]).wpc =
      .dead (.returned ret0 false) ∧
    (rafter true cfg0 [.exec call0, .w, .task (.raise 0 1), .w, .w]).alive = true ∧
    (rafter true cfg0 [.exec call0, .w, .task (.raise 0 1), .w, .begin .cancel, .w, .c, .w]).st = .error := by decide

/-- CANCELED IFF THE FLAG WAS SET WHEN THE WORKER READ IT (closes `race_cancel_before_return` /
`race_cancel_after_flag_read_is_success` / the two examples into one equation): the worker stands before its read of
`_cancel_requested` after the task returned `r`; its next access decides the outcome for good, and the outcome's
`canceled` is exactly the value of the flag at that access. -/
theorem race_canceled_iff_flag_at_read (cfg : Cfg) (w1 w2 : List REv) (r : Ret)
    (h : (rafter true cfg w1).wpc = .ret2 r) :
    (rafter true cfg (w1 ++ .w :: w2)).wpc.fate = some (.returned r (rafter true cfg w1).cancelReq) :=
  more_flag_at_read cfg w1 w2 r h

example : (rafter true cfg0 [.exec call0, .w, .task (.ret ret0), .w]).wpc = .ret2 ret0 ∧
    (rafter true cfg0 [.exec call0, .w, .task (.ret ret0), .begin .cancel, .w, .c]).wpc = .ret2 ret0 ∧
    (rafter true cfg0 [.exec call0, .w, .task (.ret ret0), .begin .cancel, .w, .c]).cancelReq = true := by decide

/-- NO API CALL WAITS FOR THE OTHER THREAD (both versions of the code).  The caller is inside `job.status` + the reads
of an observation, `cancel()` or `get_results()` (or idle); in any continuation that begins no new call, once the
caller has been granted the accesses the call still needs (`CPc.cgo`, at most 10, counting the three writes of the
repair), the call has ended — whatever the worker and the task do in between. -/
theorem race_api_call_wait_free (fixed : Bool) (cfg : Cfg) (w1 w2 : List REv) (hb : noBegin w2 = true)
    (hn : (rafter fixed cfg w1).cpc.cgo ≤ cCount w2) : (rafter fixed cfg (w1 ++ w2)).cpc = .idle :=
  more_wait_free fixed cfg w1 w2 hb hn

theorem race_api_call_at_most_ten_accesses (fixed : Bool) (cfg : Cfg) (w1 w2 : List REv) (hb : noBegin w2 = true)
    (hn : 10 ≤ cCount w2) : (rafter fixed cfg (w1 ++ w2)).cpc = .idle :=
  more_wait_free fixed cfg w1 w2 hb (Nat.le_trans (cgo_le _) hn)

example : (rafter true cfg0 [.exec call0, .begin .get]).cpc.cgo = 10 ∧
    noBegin [REv.c, .w, .c, .task (.ret ret0), .c, .w, .c, .c, .c, .c, .c, .c, .c] = true ∧
    cCount [REv.c, .w, .c, .task (.ret ret0), .c, .w, .c, .c, .c, .c, .c, .c, .c] = 10 := by decide

/-- AFTER THE END A STATUS QUERY REPORTS THE OUTCOME (composition of the above with the observation): the worker has
ended with outcome `o` and the caller is idle; `job.status` + the three reads take exactly five accesses and answer
`(o.st, o.msg, progress)`. -/
theorem race_status_after_end (cfg : Cfg) (w : List REv) (o : Outcome)
    (h : (rafter true cfg w).wpc = .dead o) (hidle : (rafter true cfg w).cpc = .idle) :
    (rstep true cfg (rafter true cfg (w ++ [.begin .status, .c, .c, .c, .c])) .c).2 =
      .step .rProg (some (.status o.st o.msg (rafter true cfg w).prog)) ∧
    (rafter true cfg (w ++ [.begin .status, .c, .c, .c, .c, .c])).cpc = .idle :=
  more_status_after_end cfg w o h hidle

/-- AFTER A RETURN `get_results()` HANDS OUT THE VALUE, converted once if a conversion is pending (and then keeps it:
`mapPending = false`), in exactly five accesses: never 'still running', never 'not available' — provided the
conversion function is defined on the task's value (`hv`; the manifest's 'mapping function is total'). -/
theorem race_results_after_end (cfg : Cfg) (w : List REv) (r v : Ret) (c : Bool)
    (h : (rafter true cfg w).wpc = .dead (.returned r c)) (hidle : (rafter true cfg w).cpc = .idle)
    (hv : if (rafter true cfg w).mapPending then convertRet (rafter true cfg w).mapping r = some v
          else (rafter true cfg w).results = v) :
    (rstep true cfg (rafter true cfg (w ++ [.begin .get, .c, .c, .c, .c])) .c).2 =
      .step .rSt (some (.results v)) ∧
    (rafter true cfg (w ++ [.begin .get, .c, .c, .c, .c, .c])).cpc = .idle ∧
    (rafter true cfg (w ++ [.begin .get, .c, .c, .c, .c, .c])).results = v ∧
    (rafter true cfg (w ++ [.begin .get, .c, .c, .c, .c, .c])).mapPending = false :=
  more_results_after_end cfg w r v c h hidle hv

example : (rafter true cfg1 [.exec call0, .w, .task (.ret ret0), .w, .w, .w, .w, .w, .w]).wpc =
      .dead (.returned ret0 false) ∧
    (rafter true cfg1 [.exec call0, .w, .task (.ret ret0), .w, .w, .w, .w, .w, .w]).cpc = .idle ∧
    (rafter true cfg1 [.exec call0, .w, .task (.ret ret0), .w, .w, .w, .w, .w, .w]).mapPending = true ∧
    convertRet (rafter true cfg1 [.exec call0, .w, .task (.ret ret0), .w, .w, .w, .w, .w, .w]).mapping ret0 =
      some (.dict (.mapped (.nat 7) [(2, some 3)])) := by decide

/-! ## The call-level machine is the access-level machine under non-preempting schedules
(helpers: `Lemmas/C18Refine.lean`)

`seqBlock e` = the accesses the asynchronous-mode event `e` of the call-level machine (`Model/C18.lean`) consists of,
run without preemption; `Sim r s` = equal status, message, progress, cancel flag, results, pending conversion, both
dictionaries and number of task entries, caller idle, worker at rest where the phase says (before the task / inside
it / dead).  FULL STATEMENT WANTED: for EVERY schedule of the access-level machine there is a call-level history (a
linearisation) with the same answers to every call and the same state whenever both threads are at rest.  PROVED
HERE (`_partial`): the inclusion call-level ⊆ access-level — every call-level history of the asynchronous alphabet
(no `execute_sync`, no exception escaping the callback) in which no event is impossible is realised by the
non-preempting schedule `w.flatMap seqBlock`, with the same state after every event and the same answer to every
event; so every ∀-schedules theorem of round 4 / wave 7 speaks about all asynchronous call-level histories.
MISSING: the preempted schedules (a linearisation point for each `job.status` / `get_results` / `cancel` against the
worker's three writes of `stop_run`). -/

theorem race_refines_calls_partial (cfg : Cfg) (w : List Ev)
    (ha : ∀ e ∈ w, asyncEv e = true) (hen : Out.disabled ∉ outs true cfg w) :
    Sim (rafter true cfg (w.flatMap seqBlock)) (after true cfg w) :=
  sim_exec cfg w _ _ (sim_init cfg) ha hen

/-- the same, spelled out field by field -/
theorem race_refines_calls_fields (cfg : Cfg) (w : List Ev)
    (ha : ∀ e ∈ w, asyncEv e = true) (hen : Out.disabled ∉ outs true cfg w) :
    (rafter true cfg (w.flatMap seqBlock)).st = (after true cfg w).status ∧
    (rafter true cfg (w.flatMap seqBlock)).msg = (after true cfg w).msg ∧
    (rafter true cfg (w.flatMap seqBlock)).prog = (after true cfg w).progress ∧
    (rafter true cfg (w.flatMap seqBlock)).cancelReq = (after true cfg w).cancelReq ∧
    (rafter true cfg (w.flatMap seqBlock)).results = (after true cfg w).results ∧
    (rafter true cfg (w.flatMap seqBlock)).mapPending = (after true cfg w).mapPending ∧
    (rafter true cfg (w.flatMap seqBlock)).command = (after true cfg w).command ∧
    (rafter true cfg (w.flatMap seqBlock)).mapping = (after true cfg w).mapping ∧
    (rafter true cfg (w.flatMap seqBlock)).fnCalls = (after true cfg w).fnCalls ∧
    (rafter true cfg (w.flatMap seqBlock)).cpc = .idle := by
  obtain ⟨h1, h2, h3, h4, h5, h6, h7, h8, h9, hc, _, _⟩ := race_refines_calls_partial cfg w ha hen
  exact ⟨h1, h2, h3, h4, h5, h6, h7, h8, h9, hc⟩

/-- THE ANSWERS AGREE.  After any such history `w`, the block of accesses of a further event `e` answers exactly what
the call-level machine answers to `e` (status triple, results / 'still running' / 'failed' / 'not available',
accepted / the exception of `_handle_params` / AssertionError, the arguments the task is entered with, the relay of
the cancel request, the end of the task).  For a progress report the call-level answer also names the user callback
invoked, which the access-level model does not have: there the job must have no user callback. -/
theorem race_refines_calls_answers (cfg : Cfg) (w : List Ev) (e : Ev)
    (ha : ∀ e' ∈ w, asyncEv e' = true) (hen : Out.disabled ∉ outs true cfg w) (hae : asyncEv e = true)
    (hee : (step true cfg (after true cfg w) e).2 ≠ .disabled)
    (hcb : (∃ p, e = .tProgress p) → (after true cfg w).userCb = none) :
    blockAnswer cfg (rafter true cfg (w.flatMap seqBlock)) e = some (step true cfg (after true cfg w) e).2 :=
  answer_step cfg _ _ e (race_refines_calls_partial cfg w ha hen) hae hee hcb

/-- non-vacuity: an asynchronous history with a status query, a progress report, a cancel, the return and results -/
example : (∀ e ∈ [Ev.execAsync call0, .tStart, .statusQuery, .tProgress 3, .cancel, .tReturn ret0, .statusQuery,
      .getResults], asyncEv e = true) ∧
    Out.disabled ∉ outs true cfg0 [.execAsync call0, .tStart, .statusQuery, .tProgress 3, .cancel, .tReturn ret0,
      .statusQuery, .getResults] ∧
    (after true cfg0 [.execAsync call0, .tStart, .statusQuery, .tProgress 3, .cancel, .tReturn ret0]).status =
      .canceled := by decide

/-- the hypothesis 'no impossible event' is needed: a return reported before the task was entered does nothing at
call level, while the padded block lets the worker enter the task -/
example : (after true cfg0 [.execAsync call0, .tReturn ret0]).fnCalls = 0 ∧
    (rafter true cfg0 ([Ev.execAsync call0, .tReturn ret0].flatMap seqBlock)).fnCalls = 1 := by decide

/-! # Wave 10: end of the task ⟶ the answer of the next call, in ONE statement, for ALL schedules
(helpers: `Lemmas/C18W10.lean`)

Wave 7 proved the pieces separately (the worker ends within 6 / 3 of its own steps; no API call waits; after the end
a status query / `get_results()` answers the outcome) and left their composition to the reader, with the
intermediate facts `wpc = .dead o` and `cpc = .idle` as HYPOTHESES of the observation theorems.  Here these two
hypotheses are discharged: from 'the task is in flight' alone, through ANY continuation `w2` of the schedule in which
the caller begins no further call and which is fair to both threads (the worker gets its 3 / 6 accesses, the caller
the accesses the call it is inside of still needs — `cgo`, 0 if it is idle, never more than 10), the next
`job.status` observation / `get_results()` answers the truthful final state.  Fairness stays a hypothesis: the
schedule is the environment's. -/

/-- A RAISE IS REPORTED AS ERROR, END TO END.  The task (in flight) raises exception (`c`, `t`); after any fair
continuation `w2` without a new call, `job.status` + the three reads answer `(ERROR, '<type>: <message>', progress)`
in five accesses and the caller is idle again — whatever the interleaving, whatever the cancel flag. -/
theorem race_raise_reported_end_to_end (cfg : Cfg) (w1 w2 : List REv) (c t : Nat)
    (h : (rafter true cfg w1).wpc = .inTask) (hn : 3 ≤ wCount w2) (hb : noBegin w2 = true)
    (hc : (rafter true cfg (w1 ++ [.task (.raise c t)])).cpc.cgo ≤ cCount w2) :
    (rstep true cfg (rafter true cfg ((w1 ++ .task (.raise c t) :: w2) ++ [.begin .status, .c, .c, .c, .c])) .c).2 =
      .step .rProg (some (.status .error (.task c t) (rafter true cfg (w1 ++ .task (.raise c t) :: w2)).prog)) ∧
    (rafter true cfg ((w1 ++ .task (.raise c t) :: w2) ++ [.begin .status, .c, .c, .c, .c, .c])).cpc = .idle :=
  w10_raise_reported cfg w1 w2 c t h hn hb hc

/-- A RETURN IS REPORTED AS SUCCESS OR CANCELED, END TO END.  The task (in flight) returns `r`; after any fair
continuation without a new call the status observation answers `(SUCCESS, None, progress)` or `(CANCELED, 'User has
canceled the job', progress)` — never RUNNING, never ERROR, never a mixed pair; CANCELED only if `cancel()` has
written the flag, and CANCELED whenever it had done so before the return. -/
theorem race_return_reported_end_to_end (cfg : Cfg) (w1 w2 : List REv) (r : Ret)
    (h : (rafter true cfg w1).wpc = .inTask) (hn : 6 ≤ wCount w2) (hb : noBegin w2 = true)
    (hc : (rafter true cfg (w1 ++ [.task (.ret r)])).cpc.cgo ≤ cCount w2) :
    ∃ cn : Bool,
      (rstep true cfg (rafter true cfg ((w1 ++ .task (.ret r) :: w2) ++ [.begin .status, .c, .c, .c, .c])) .c).2 =
        .step .rProg (some (.status (if cn then .canceled else .success) (if cn then .canceled else .none)
          (rafter true cfg (w1 ++ .task (.ret r) :: w2)).prog)) ∧
      (rafter true cfg ((w1 ++ .task (.ret r) :: w2) ++ [.begin .status, .c, .c, .c, .c, .c])).cpc = .idle ∧
      (cn = true → (rafter true cfg (w1 ++ .task (.ret r) :: w2)).cancelReq = true) ∧
      ((rafter true cfg w1).cancelReq = true → cn = true) :=
  w10_return_reported cfg w1 w2 r h hn hb hc

/-- A RETURNED VALUE IS HANDED OUT, END TO END.  Same situation; `get_results()` answers the value (converted once
if a conversion is pending, and keeps it) in five accesses: never 'still running', never 'not available' — provided
the conversion function is defined on the task's value (`hv`; the manifest's 'mapping function is total'; this
hypothesis is about the conversion, not about the schedule, and stays). -/
theorem race_return_results_end_to_end (cfg : Cfg) (w1 w2 : List REv) (r v : Ret)
    (h : (rafter true cfg w1).wpc = .inTask) (hn : 6 ≤ wCount w2) (hb : noBegin w2 = true)
    (hc : (rafter true cfg (w1 ++ [.task (.ret r)])).cpc.cgo ≤ cCount w2)
    (hv : if (rafter true cfg (w1 ++ .task (.ret r) :: w2)).mapPending
          then convertRet (rafter true cfg (w1 ++ .task (.ret r) :: w2)).mapping r = some v
          else (rafter true cfg (w1 ++ .task (.ret r) :: w2)).results = v) :
    (rstep true cfg (rafter true cfg ((w1 ++ .task (.ret r) :: w2) ++ [.begin .get, .c, .c, .c, .c])) .c).2 =
      .step .rSt (some (.results v)) ∧
    (rafter true cfg ((w1 ++ .task (.ret r) :: w2) ++ [.begin .get, .c, .c, .c, .c, .c])).cpc = .idle ∧
    (rafter true cfg ((w1 ++ .task (.ret r) :: w2) ++ [.begin .get, .c, .c, .c, .c, .c])).results = v ∧
    (rafter true cfg ((w1 ++ .task (.ret r) :: w2) ++ [.begin .get, .c, .c, .c, .c, .c])).mapPending = false :=
  w10_return_results cfg w1 w2 r v h hn hb hc hv

/-- non-vacuity of the three: a caller preempted inside `get_results()` when the task ends (its call needs 10 more
accesses), worker and caller interleaved afterwards; and the conversion hypothesis holds for the pending conversion
of `cfg1` -/
example : (rafter true cfg1 [.exec call0, .w, .begin .get]).wpc = .inTask ∧
    (rafter true cfg1 ([.exec call0, .w, .begin .get] ++ [.task (.ret ret0)])).cpc.cgo = 10 ∧
    (rafter true cfg1 ([.exec call0, .w, .begin .get] ++ [.task (.raise 0 1)])).cpc.cgo = 10 ∧
    noBegin [REv.c, .w, .c, .w, .c, .w, .c, .c, .c, .c, .c, .c, .c, .w, .w, .w] = true ∧
    wCount [REv.c, .w, .c, .w, .c, .w, .c, .c, .c, .c, .c, .c, .c, .w, .w, .w] = 6 ∧
    cCount [REv.c, .w, .c, .w, .c, .w, .c, .c, .c, .c, .c, .c, .c, .w, .w, .w] = 10 ∧
    (rafter true cfg1 ([.exec call0, .w, .begin .get] ++ .task (.ret ret0) ::
      [.c, .w, .c, .w, .c, .w, .c, .c, .c, .c, .c, .c, .c, .w, .w, .w])).mapPending = true ∧
    convertRet (rafter true cfg1 ([.exec call0, .w, .begin .get] ++ .task (.ret ret0) ::
      [.c, .w, .c, .w, .c, .w, .c, .c, .c, .c, .c, .c, .c, .w, .w, .w])).mapping ret0 =
      some (.dict (.mapped (.nat 7) [(2, some 3)])) := by decide

/-- the fairness hypothesis on the worker is needed: granted only five of its six accesses after the return (thread
still alive), the conclusion fails — the status call of the same schedule does not consist of these five accesses
followed by the answering read of the progress (that step is not enabled there) -/
example : (rafter true cfg0 ([.exec call0, .w] ++ .task (.ret ret0) :: [.w, .w, .w, .w, .w])).alive = true ∧
    (rstep true cfg0 (rafter true cfg0 (([.exec call0, .w] ++ .task (.ret ret0) :: [.w, .w, .w, .w, .w]) ++
      [.begin .status, .c, .c, .c, .c])) .c).2 = .disabled := by decide

/- STILL NOT PROVED (wave 7): the other inclusion of the refinement (every PREEMPTED schedule of the access-level
machine has a call-level linearisation), see the section comment above.  The theorems of this wave give the
ingredients (every call and the worker's epilogue end in a bounded number of their own steps; the final state, the
observation and the value after the end are those of the call-level machine; non-preempting schedules are call-level
histories) but the simulation for preempted schedules is not stated.  Fairness is a hypothesis in the termination
theorems (`wCount` / `cCount` of the continuation): the schedule is the environment's.
WAVE 10: the intermediate hypotheses `wpc = .dead o` / `cpc = .idle` of the observation theorems are discharged
(`race_raise_reported_end_to_end`, `race_return_reported_end_to_end`, `race_return_results_end_to_end`: from 'task in
flight' to the answer of the next call, for all fair schedules without a further call in between); fairness, the
totality of the conversion and the simulation for preempted schedules remain as they were. -/

end PM.C18
