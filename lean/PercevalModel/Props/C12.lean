/-
  C12 — property theorems about the decomposition bookkeeping (model: `Model/C12.lean`).

  Full property (properties.jsonl): "Decomposing a unitary matrix onto a mesh of a given building block
  returns either nothing or a circuit made only of copies of that block (plus the optional phase layer and
  permutations) whose matrix equals the requested one within the stated precision when the phase layer is
  requested, and equals it up to a diagonal phase matrix otherwise; this also holds with the
  horizontal/vertical inversion options.  For a universal block such as a Mach-Zehnder interferometer with
  two free phases a circuit is found within the configured retries."

  Proved here, for every commutative ring `R` (so for ℂ), every size `m`, every threshold predicate, every
  flag combination and EVERY sequence of solver results (the solver is an oracle):
  * the bookkeeping reconstructs `U` exactly: `circMat comps · u_final + err = U`, where `err` is the explicit
    sum of the entries overwritten by `u[n,j] = 0`, each propagated through the components prepended so far;
  * hence, when the final `u` is a diagonal `D` and nothing non-zero was overwritten, the circuit with the
    phase layer has matrix `U` and the circuit without it has matrix `U · D⁻¹`;
  * the phase layer realises the diagonal; the quadrant logic of `add_phases` returns the right angle;
  * the PERM component the code inserts has the matrix of the row swap the code applies;
  * the `inverse_v` / `inverse_h` wrap returns a circuit for `U` itself, *assuming* every component's own
    `inverse` is correct (that is property C11; the current `BS.inverse` violates it, see the manifest note).

  * the recursion of `solve` (`Model/C12Solve.lean`, the minimiser is an oracle): whatever the minimiser returns,
    a vector handed back by `solve` (without `allow_error`) satisfies `f x ≤ precision` — in particular when a
    constraint imposes ALL the parameters and nothing is left to optimise — and carries every imposed value at its
    position; hence the entry a solved cell overwrites with `u[n,j] = 0` has modulus ≤ precision
    (`solved_cell_residue_le_precision`), each summand of the `err` term of `triangle_reconstruct_with_error`.

  * the retry loop of `Circuit.decomposition` (`while count < max_try`, model `retry`: the attempts share one array,
    what an attempt leaves in it is a parameter): the loop returns the result of its first successful attempt
    (`retry_returns_first_success`); with every attempt on a private copy (repaired code) the result reconstructs the
    requested `U` itself and is the result of one attempt run on `U` alone, whatever the abandoned attempts did
    (`decomposition_retry_reconstruct`, `decomposition_retry_history_independent`); in general the result reconstructs
    `U` up to negligible entries set to 0 as long as an attempt leaves nothing but such zeros behind
    (`retry_reconstruct_with_error`), which holds for the in-place writes of the pinned code
    (`decomposition_retry_inplace_reconstruct`) — whose defect was to modify its caller's matrix
    (`pinned_code_modifies_callers_matrix`) — and cannot be dropped (`retry_needs_fresh_matrix`: a working copy that
    an abandoned attempt has reduced and the next attempt starts from gives a well-formed circuit for the wrong matrix).

  * (round 4) the existence clause as mathematics: for `BS(theta)//PS(phi)` and `catalog['mzi phase last']` the equation
    handed to the solver has a closed-form root for every pair of complex numbers (`bsPs_exists_nulling_parameters`,
    `mzi_exists_nulling_parameters`, `universal_block_solve_succeeds`); the size of the floating residue as a theorem
    (`final_u_lower_triangular`, `residue_bound`, `decomposition_error_bound`, `…_precision`, `…_no_phase_layer`); the
    control flow of `Circuit.decomposition` (`decomposition_returns_circuit_iff`, `…_none_iff`, `…_not_implemented_iff`,
    `allow_error_never_none`); the order of the constraint loop and constraint adherence (`constraints_tried_in_order`,
    `returned_parameters_respect_a_constraint`).

  * (round 5) the existence clause for a WHOLE RUN (`Model/C12Exact.lean`: `decompose_triangle` with the solver given
    as a function of the two entries of the cell): a solver that answers every cell makes the run return for every
    matrix (`exact_run_returns_circuit`), such a run is a run of the list-oracle model (`exact_run_is_a_run`), with the
    closed forms every solved cell is nulled exactly (`universal_block_run_succeeds`), every unitary is reproduced within
    the perturbation bound of the entries the threshold calls negligible (`universal_block_reproduces_every_unitary`)
    and exactly when the threshold accepts exact zeros only (`universal_block_exact_decomposition`); which cells two of
    the non-universal blocks can null (`bs_alone_nullable_iff`, `mzi_phase_first_nullable_iff`,
    `non_universal_blocks_have_unsolvable_cells`).

  NOT proved (named residue): that the numerical minimiser (scipy) FINDS the root that exists, in one cell or in every
  cell of a run ("within the configured retries": sampled only); the nullable cells of the other blocks the code accepts,
  and which MATRICES the non-universal blocks decompose; IEEE rounding inside numpy / sympy (the bounds are about exact
  complex arithmetic on the observed blocks; 1e-9 slack in the harness, 1e-11 in the runs with the closed-form solver).
-/
import PercevalModel.Lemmas.C12
import PercevalModel.Lemmas.C12Phase
import PercevalModel.Lemmas.C12Solve
import PercevalModel.Lemmas.C12Exist
import PercevalModel.Lemmas.C12Bound
import PercevalModel.Lemmas.C12Tri
import PercevalModel.Lemmas.C12NearDiag
import PercevalModel.Lemmas.C12Glue
import PercevalModel.Lemmas.C12Exact
import PercevalModel.Lemmas.C12Other
import PercevalModel.Lemmas.C12More
import PercevalModel.Lemmas.C12Inst
import PercevalModel.Num.GQ
import Mathlib.LinearAlgebra.Matrix.Notation
import Mathlib.LinearAlgebra.Matrix.Block
import Mathlib.Tactic.FinCases

open Matrix

namespace PM.C12

variable {R : Type}

/-- `triangle_reconstruct` (general form).  Whatever the solver returned (any list of blocks `B` with the
matrices `Binv`, `B · Binv = 1`, the code multiplied with), whatever the thresholds decided, the components
accumulated by `decompose_triangle`, the final `u` and the overwritten entries reconstruct `U` exactly. -/
theorem triangle_reconstruct_with_error [CommRing R] (cfg : Cfg R) {m : ℕ}
    (U : Matrix (Fin m) (Fin m) R) (sols : List (Sol R)) (hgood : ∀ s ∈ sols, s.1 * s.2 = 1)
    (st : St R m) (h : decomposeTriangle cfg U sols = some st) :
    circMat m st.comps * st.u.toMatrix + st.err.toMatrix = U :=
  (run_inv cfg (cells m) (cells_ok m) (initSt_inv U sols hgood) h).1

/-- `triangle_reconstruct`: if the final `u` is a diagonal `D` (and the overwritten entries were zeros),
the product of the blocks and permutations times `D` is `U` — including the PERM-substitution and the
identity-skip branches. -/
theorem triangle_reconstruct [CommRing R] (cfg : Cfg R) {m : ℕ}
    (U : Matrix (Fin m) (Fin m) R) (sols : List (Sol R)) (hgood : ∀ s ∈ sols, s.1 * s.2 = 1)
    (st : St R m) (h : decomposeTriangle cfg U sols = some st)
    (D : Fin m → R) (hD : st.u.toMatrix = Matrix.diagonal D) (herr : st.err.toMatrix = 0) :
    circMat m st.comps * Matrix.diagonal D = U := by
  have := triangle_reconstruct_with_error cfg U sols hgood st h
  rw [hD, herr, add_zero] at this
  exact this

/-- `phases_realise_diag`: the layer built by `add_phases` has the diagonal matrix whose entries are the
`D[idx]` that pass the test and 1 elsewhere. -/
theorem phases_realise_diag [CommRing R] {m : ℕ} (keep : R → Bool) (D : Fin m → R) :
    circMat m (addPhases keep D) = Matrix.diagonal (fun i => if keep (D i) then D i else 1) := by
  unfold addPhases
  rw [circMat_ps_list D _ (List.nodup_reverse.2 ((List.nodup_finRange m).filter _))]
  congr 1
  funext i
  simp [List.mem_reverse, List.mem_filter, List.mem_finRange]

/-- With the phase layer (entries failing the test are exactly 1, as is the case for unit-modulus entries:
`add_phases_skips_only_one`), the returned circuit `phases ++ components` has matrix exactly `U`. -/
theorem triangle_reconstruct_with_phases [CommRing R] (cfg : Cfg R) {m : ℕ}
    (U : Matrix (Fin m) (Fin m) R) (sols : List (Sol R)) (hgood : ∀ s ∈ sols, s.1 * s.2 = 1)
    (st : St R m) (h : decomposeTriangle cfg U sols = some st)
    (D : Fin m → R) (hD : st.u.toMatrix = Matrix.diagonal D) (herr : st.err.toMatrix = 0)
    (keep : R → Bool) (hkeep : ∀ i, keep (D i) = false → D i = 1) :
    circMat m (addPhases keep D ++ st.comps) = U := by
  rw [circMat_append, phases_realise_diag]
  have : (fun i => if keep (D i) then D i else 1) = D := by
    funext i
    by_cases hk : keep (D i) = true
    · simp [hk]
    · simp only [hk]
      exact (hkeep i (by simpa using hk)).symm
  rw [this]
  exact triangle_reconstruct cfg U sols hgood st h D hD herr

/-- Without the phase layer the circuit's matrix is `U` times a diagonal matrix (the inverse of the
residual diagonal). -/
theorem triangle_reconstruct_up_to_diagonal [CommRing R] (cfg : Cfg R) {m : ℕ}
    (U : Matrix (Fin m) (Fin m) R) (sols : List (Sol R)) (hgood : ∀ s ∈ sols, s.1 * s.2 = 1)
    (st : St R m) (h : decomposeTriangle cfg U sols = some st)
    (D D' : Fin m → R) (hD : st.u.toMatrix = Matrix.diagonal D) (herr : st.err.toMatrix = 0)
    (hDD' : ∀ i, D i * D' i = 1) :
    circMat m st.comps = U * Matrix.diagonal D' := by
  rw [← triangle_reconstruct cfg U sols hgood st h D hD herr, Matrix.mul_assoc,
    Matrix.diagonal_mul_diagonal]
  have : (fun i => D i * D' i) = fun _ => 1 := funext hDD'
  rw [this, Matrix.diagonal_one, Matrix.mul_one]

/-- The PERM component inserted by the code (`permutation([d,1,…,d-1,0])` on modes `n..n+d`, matrix
`u[p[i], i] = 1`) is the row swap `RI` the code multiplies `u` with. -/
theorem perm_component_is_row_swap [Zero R] [One R] {m n d : ℕ} (hd : 1 ≤ d) (hfit : n + d + 1 ≤ m) :
    compMat (R := R) m (.perm n d) = swapMat m n (n + d) :=
  perm_comp_eq_swap hd hfit

/-- `add_phases`, quadrant logic: for a unit-modulus entry `a + ib` the phase chosen satisfies
`(cos φ, sin φ) = (a, b)`, and no phase shifter is inserted only when the entry is exactly 1. -/
theorem add_phases_angle {a b : ℝ} (h : a ^ 2 + b ^ 2 = 1) :
    match phaseOf a b with
    | some φ => Real.cos φ = a ∧ Real.sin φ = b
    | none => a = 1 ∧ b = 0 := by
  unfold phaseOf
  by_cases hc : b ≠ 0 ∨ a < 0
  · rw [if_pos hc]
    simp only
    by_cases hb : b = 0
    · have ha : a < 0 := by
        rcases hc with hc | hc
        · exact absurd hb hc
        · exact hc
      have : a = -1 := by
        have h1 : (a - 1) * (a + 1) = 0 := by rw [hb] at h; nlinarith
        rcases mul_eq_zero.1 h1 with h2 | h2 <;> linarith
      rw [if_pos hb, this, hb]
      simp
    · rw [if_neg hb]
      by_cases ha : a = 0
      · rw [if_pos ha]
        have h1 : (b - 1) * (b + 1) = 0 := by rw [ha] at h; nlinarith
        by_cases hpos : b > 0
        · have : b = 1 := by rcases mul_eq_zero.1 h1 with h2 | h2 <;> linarith
          rw [if_pos hpos, ha, this]
          simp
        · have hb1 : b = -1 := by
            rcases mul_eq_zero.1 h1 with h2 | h2
            · exfalso; apply hpos; linarith
            · linarith
          rw [if_neg hpos, ha, hb1]
          have e : 3 * Real.pi / 2 = Real.pi / 2 + Real.pi := by ring
          rw [e, Real.cos_add_pi, Real.sin_add_pi]
          simp
      · rw [if_neg ha]
        by_cases hneg : a < 0
        · rw [if_pos hneg, Real.cos_add_pi, Real.sin_add_pi, cos_arctan_div h ha,
            sin_arctan_div h ha, abs_of_neg hneg]
          constructor
          · ring
          · field_simp
        · have hpos : 0 < a := lt_of_le_of_ne (not_lt.1 hneg) (Ne.symm ha)
          rw [if_neg hneg, cos_arctan_div h ha, sin_arctan_div h ha, abs_of_pos hpos]
          constructor
          · rfl
          · field_simp
  · rw [if_neg hc]
    simp only
    have hb : b = 0 := by
      by_contra hb; exact hc (Or.inl hb)
    have ha : 0 ≤ a := by
      by_contra ha; exact hc (Or.inr (not_le.1 ha))
    refine ⟨?_, hb⟩
    have h1 : (a - 1) * (a + 1) = 0 := by rw [hb] at h; nlinarith
    rcases mul_eq_zero.1 h1 with h2 | h2 <;> linarith

/-- Consequence used as the hypothesis `hkeep` above: the test `b != 0 or a < 0` fails on a unit-modulus
entry only when that entry is 1. -/
theorem add_phases_skips_only_one {a b : ℝ} (h : a ^ 2 + b ^ 2 = 1) (hn : phaseOf a b = none) :
    a = 1 ∧ b = 0 := by
  have := add_phases_angle h
  rw [hn] at this
  exact this

/-- `inversion_wrap`: `Circuit.inverse(v, h)` on a flat circuit (list reversed for `h`, every range
mirrored for `v`, every component inverted) — *assuming* every component's own `inverse` is right
(`hinv`, the subject of property C11): the matrix is mirrored for `v`, and is the two-sided inverse for `h`. -/
theorem inversion_wrap [CommRing R] (v h : Bool) (m : ℕ)
    (inv : (k : ℕ) → Matrix (Fin k) (Fin k) R → Matrix (Fin k) (Fin k) R) (ls : List (Leaf R))
    (hf : Fits m ls)
    (hinv : h = true → ∀ l ∈ ls, l.2.2 * inv l.2.1 l.2.2 = 1 ∧ inv l.2.1 l.2.2 * l.2.2 = 1) :
    ∃ H, prodLeaves m (inverseCircuit v h m inv ls) = vflipIf v H ∧
      (if h then H * prodLeaves m ls = 1 ∧ prodLeaves m ls * H = 1 else H = prodLeaves m ls) := by
  refine ⟨prodLeaves m (inverseCircuit false h m inv ls), ?_, ?_⟩
  · have e : inverseCircuit v h m inv ls =
        (inverseCircuit false h m inv ls).map (invLeaf v false m inv) := by
      unfold inverseCircuit
      rw [List.map_map]
      apply List.map_congr_left
      intro l _
      exact invLeaf_comp v h m inv l
    rw [e]
    apply prodLeaves_map_vflip
    unfold inverseCircuit
    apply fits_map_invLeaf_false
    cases h
    · exact hf
    · exact fits_reverse hf
  · cases h
    · simp only [Bool.false_eq_true, if_false, inverseCircuit]
      have : ls.map (invLeaf false false m inv) = ls := by
        conv_rhs => rw [← List.map_id ls]
        apply List.map_congr_left
        intro l _
        simp [invLeaf, vflipIf]
      rw [this]
    · simp only [if_true, inverseCircuit]
      exact prodLeaves_reverse_inv m inv ls hf (hinv rfl)

/-- `Circuit.decomposition` with `inverse_v` / `inverse_h`: the triangle decomposition is run on
`np.flip(U⁻¹)` (each only if requested); if the circuit it returns has that matrix, the circuit returned to the
caller after `C.inverse(v, h)` has matrix `U` (under the per-component assumption of `inversion_wrap`). -/
theorem decomposition_inverse_options [CommRing R] (v h : Bool) (m : ℕ)
    (inv : (k : ℕ) → Matrix (Fin k) (Fin k) R → Matrix (Fin k) (Fin k) R) (ls : List (Leaf R))
    (hf : Fits m ls)
    (hinv : h = true → ∀ l ∈ ls, l.2.2 * inv l.2.1 l.2.2 = 1 ∧ inv l.2.1 l.2.2 * l.2.2 = 1)
    (U Uinv : Matrix (Fin m) (Fin m) R) (hU : Uinv * U = 1)
    (hdec : prodLeaves m ls = preProcess v h U Uinv) :
    prodLeaves m (inverseCircuit v h m inv ls) = U := by
  obtain ⟨H, hQ, hH⟩ := inversion_wrap v h m inv ls hf hinv
  rw [hQ]
  cases h
  · simp only [Bool.false_eq_true, if_false] at hH
    rw [hH, hdec]
    simp [preProcess, vflipIf_vflipIf]
  · simp only [if_true] at hH
    have h1 : H * vflipIf v Uinv = 1 := by
      have := hH.1
      rw [hdec] at this
      simpa [preProcess] using this
    have h2 : vflipIf v H * Uinv = 1 := by
      have := congrArg (vflipIf v) h1
      rwa [vflipIf_mul, vflipIf_vflipIf, vflipIf_one] at this
    calc vflipIf v H = vflipIf v H * (Uinv * U) := by rw [hU, Matrix.mul_one]
      _ = (vflipIf v H * Uinv) * U := by rw [Matrix.mul_assoc]
      _ = U := by rw [h2, Matrix.one_mul]

/-- "a circuit made only of copies of that block (plus … permutations)": every entry of the component list
returned by `decompose_triangle` is a block the solver produced, placed on two adjacent modes inside the circuit,
or — only if a permutation type was supplied and `ignore_identity_block` is on — a PERM inside the circuit.
(The phase layer is separate: `addPhases` produces phase shifters only, by definition.) -/
theorem components_are_blocks_or_perms [CommRing R] (cfg : Cfg R) {m : ℕ}
    (U : Matrix (Fin m) (Fin m) R) (sols : List (Sol R)) (st : St R m)
    (h : decomposeTriangle cfg U sols = some st) :
    ∀ c ∈ st.comps, CompOK cfg m sols c :=
  (run_made cfg sols (cells m) (cells_ok m) (st := initSt U sols)
    ⟨fun c hc => by simp [initSt] at hc, fun s hs => by simpa [initSt] using hs⟩ h).1

/-- `upper_triangular_unitary_is_diagonal` (stretch goal of the design, here for the triangle the loop actually
produces): the loop nulls every `u[n, j]` with `n < j`, so the final `u` is lower triangular; a lower-triangular
matrix whose conjugate transpose is a right inverse is diagonal.  In exact arithmetic the hypothesis "the final
`u` is a diagonal" of `triangle_reconstruct` is therefore a consequence of unitarity of the input and the blocks
(the floating-point residue is measured per instance by the harness: `off2`). -/
theorem lower_triangular_unitary_is_diagonal [CommRing R] [StarRing R] {n : ℕ}
    (L : Matrix (Fin n) (Fin n) R) (hL : ∀ i j, i < j → L i j = 0) (hU : L * Lᴴ = 1) :
    ∀ i j, i ≠ j → L i j = 0 := by
  have hbt : Matrix.BlockTriangular L OrderDual.toDual := fun i j hij => hL i j (by simpa using hij)
  haveI : Invertible L := invertibleOfRightInverse L Lᴴ hU
  have hinv : L⁻¹ = Lᴴ := Matrix.inv_eq_right_inv hU
  have hbt' := Matrix.blockTriangular_inv_of_blockTriangular hbt
  rw [hinv] at hbt'
  intro i j hij
  rcases lt_or_gt_of_ne hij with h | h
  · exact hL i j h
  · have := hbt' (i := j) (j := i) (by simpa using h)
    simpa [Matrix.conjTranspose_apply] using this

/-! ### non-vacuity -/

/-- a rational rotation and its inverse -/
def exB : Matrix (Fin 2) (Fin 2) GQ := !![⟨3/5, 0⟩, ⟨-4/5, 0⟩; ⟨4/5, 0⟩, ⟨3/5, 0⟩]
def exBinv : Matrix (Fin 2) (Fin 2) GQ := !![⟨3/5, 0⟩, ⟨4/5, 0⟩; ⟨-4/5, 0⟩, ⟨3/5, 0⟩]
def exCfg : Cfg GQ :=
  { small := fun z => decide (GQ.normSq z ≤ 1 / 10 ^ 12), ignoreId := true, usePerm := true }

/-- The per-component hypothesis of `inversion_wrap` cannot be dropped (this is how the pinned `BS.inverse`,
which does not exchange the phases it should — property C11, DESIGN.md §10 item 1 — breaks `inverse_h`/`inverse_v`
decompositions): with a component-level `inverse` that leaves the matrix unchanged, the circuit returned for a
rational rotation `U` has matrix `U⁻¹ ≠ U`. -/
theorem inversion_wrap_needs_component_inverse :
    ¬ (∀ (inv : (k : ℕ) → Matrix (Fin k) (Fin k) GQ → Matrix (Fin k) (Fin k) GQ) (ls : List (Leaf GQ))
        (U Uinv : Matrix (Fin 2) (Fin 2) GQ), Fits 2 ls → Uinv * U = 1 →
        prodLeaves 2 ls = preProcess false true U Uinv →
        prodLeaves 2 (inverseCircuit false true 2 inv ls) = U) := by
  intro h
  have hfit : Fits 2 [((0 : ℕ), (⟨2, exBinv⟩ : Σ k, Matrix (Fin k) (Fin k) GQ))] := by
    intro l hl
    simp only [List.mem_singleton] at hl
    subst hl
    decide
  have := h (fun _ B => B) [(0, ⟨2, exBinv⟩)] exB exBinv hfit (by decide +kernel) (by decide +kernel)
  revert this
  decide +kernel

/-- the hypotheses of `triangle_reconstruct` (and of the two corollaries) are satisfiable: a 2-mode rotation,
one good solver result; the run succeeds, the final `u` is the identity (a diagonal), nothing non-zero is
overwritten and exactly one block is produced -/
example : (∀ s ∈ [(exB, exBinv)], s.1 * s.2 = 1) ∧
    ((decomposeTriangle exCfg exB [(exB, exBinv)]).map fun st =>
      decide (st.u.toMatrix = Matrix.diagonal (fun _ => 1) ∧ st.err.toMatrix = 0 ∧
        st.comps.length = 1 ∧ st.rest.length = 0)) = some true := by
  refine ⟨?_, by decide +kernel⟩
  intro s hs
  simp only [List.mem_singleton] at hs
  subst hs
  decide +kernel

/-- the PERM branch is reachable: the 3-mode swap of modes 0 and 2 is decomposed into three adjacent PERMs
and no block (empty solver list) — the structure `tests/test_decomposition.py::test_perm_0` pins for 4 modes -/
example : ((decomposeTriangle exCfg (swapMat 3 0 2 : Matrix (Fin 3) (Fin 3) GQ) []).map fun st =>
      decide (st.comps.length = 3 ∧ st.u.toMatrix = 1 ∧ st.nskip = 0 ∧ st.err.toMatrix = 0)) = some true := by
  decide +kernel

/-- the identity-skip branch is reachable: the identity needs no component at all -/
example : ((decomposeTriangle exCfg (1 : Matrix (Fin 3) (Fin 3) GQ) []).map fun st =>
      decide (st.comps.length = 0 ∧ st.u.toMatrix = 1 ∧ st.nskip = 3 ∧ st.err.toMatrix = 0)) = some true := by
  decide +kernel

/-- a failing solver (`res is None`) is `none`: a rotation cannot be decomposed with no solver result -/
example : (decomposeTriangle exCfg exB []).isNone = true := by decide +kernel

/-- the hypotheses of `inversion_wrap` / `decomposition_inverse_options` are satisfiable -/
example : Fits 3 [((1 : ℕ), (⟨2, exB⟩ : Σ k, Matrix (Fin k) (Fin k) GQ))] ∧
    exB * exBinv = 1 ∧ exBinv * exB = 1 := by
  refine ⟨?_, by decide +kernel, by decide +kernel⟩
  intro l hl
  simp only [List.mem_singleton] at hl
  subst hl
  decide

/-- the hypothesis of `add_phases_angle` is satisfiable (a fourth-quadrant unit complex number) -/
example : ((3 : ℝ) / 5) ^ 2 + (-4 / 5) ^ 2 = 1 := by norm_num

/-- the hypotheses of `lower_triangular_unitary_is_diagonal` are satisfiable (a diagonal of unit phases) -/
example : (∀ i j : Fin 2, i < j → (!![GQ.I, 0; 0, 1] : Matrix (Fin 2) (Fin 2) GQ) i j = 0) ∧
    (!![GQ.I, 0; 0, 1] : Matrix (Fin 2) (Fin 2) GQ) * (!![GQ.I, 0; 0, 1] : Matrix (Fin 2) (Fin 2) GQ)ᴴ = 1 := by
  refine ⟨?_, by decide +kernel⟩
  intro i j h
  fin_cases i <;> fin_cases j <;> first | rfl | exact absurd h (by decide)

/-- `phases_realise_diag` / `hkeep`: with the test "entry ≠ 1" a diagonal `(1, i)` gets one phase shifter -/
example : (addPhases (fun z => decide (z ≠ 1)) (![1, GQ.I] : Fin 2 → GQ)).length = 1 := by
  decide +kernel

/-! ### the retry loop of `Circuit.decomposition` -/

/-- `retry_returns_first_success`: the loop hands back the result of ONE attempt — the first that succeeds —
run on the array as the earlier (failed) attempts left it; nothing else of the failed attempts survives. -/
theorem retry_returns_first_success [CommRing R] (cfg : Cfg R) {m : ℕ}
    (leave : Matrix (Fin m) (Fin m) R → Matrix (Fin m) (Fin m) R) :
    ∀ (attempts : List (List (Sol R))) (U : Matrix (Fin m) (Fin m) R) (st : St R m),
      retry cfg leave U attempts = some st →
      ∃ k, ∃ hk : k < attempts.length,
        decomposeTriangle cfg (leave^[k] U) attempts[k] = some st ∧
        ∀ i, ∀ hi : i < k, decomposeTriangle cfg (leave^[i] U) (attempts[i]'(by omega)) = none := by
  intro attempts
  induction attempts with
  | nil => intro U st h; simp [retry] at h
  | cons s rest ih =>
    intro U st h
    unfold retry at h
    split at h
    · rename_i st0 h0
      cases h
      exact ⟨0, by simp, by simpa using h0, fun i hi => absurd hi (by omega)⟩
    · rename_i h0
      obtain ⟨k, hk, hs, hn⟩ := ih (leave U) st h
      refine ⟨k + 1, by simp only [List.length_cons]; omega, by simpa [Function.iterate_succ_apply] using hs, ?_⟩
      intro i hi
      cases i with
      | zero => simpa using h0
      | succ i =>
        have := hn i (by omega)
        simpa [Function.iterate_succ_apply] using this

/-- `retry_reconstruct_with_error`: if what a failed attempt leaves in the shared array differs from what it
was given only by negligible entries set to 0 (`hleave`), then — however many attempts failed, wherever they
failed, whatever the solver returned in them — the circuit finally returned, its final `u` and its overwritten
entries reconstruct a matrix `U'` that is the requested `U` with some negligible entries set to 0. -/
theorem retry_reconstruct_with_error [CommRing R] (cfg : Cfg R) {m : ℕ}
    (leave : Matrix (Fin m) (Fin m) R → Matrix (Fin m) (Fin m) R)
    (hleave : ∀ V, ZeroedSmall cfg V (leave V)) :
    ∀ (attempts : List (List (Sol R))) (U : Matrix (Fin m) (Fin m) R),
      (∀ sols ∈ attempts, ∀ s ∈ sols, s.1 * s.2 = 1) →
      ∀ st : St R m, retry cfg leave U attempts = some st →
      ∃ U', ZeroedSmall cfg U U' ∧ circMat m st.comps * st.u.toMatrix + st.err.toMatrix = U' := by
  intro attempts
  induction attempts with
  | nil => intro U _ st h; simp [retry] at h
  | cons s rest ih =>
    intro U hgood st h
    unfold retry at h
    split at h
    · rename_i st0 h0
      cases h
      exact ⟨U, zeroedSmall_refl cfg U,
        triangle_reconstruct_with_error cfg U s (hgood s List.mem_cons_self) _ h0⟩
    · obtain ⟨U', hz, hU'⟩ := ih (leave U) (fun sols hs => hgood sols (List.mem_cons_of_mem _ hs)) st h
      exact ⟨U', zeroedSmall_trans cfg (hleave U) hz, hU'⟩

/-- the in-place writes of the code (`u[n, j] = 0` for the leading identity skips) satisfy `hleave` -/
theorem inPlace_zeroedSmall [Zero R] (cfg : Cfg R) {m : ℕ} (U : Matrix (Fin m) (Fin m) R) :
    ZeroedSmall cfg U (inPlace cfg U) := inPlace_zeroedSmall' cfg U

/-- `decomposition_retry_reconstruct`: the retry loop (model `decompositionRetry`, every attempt on its own copy):
the returned bookkeeping reconstructs the requested `U` itself — for every number of failed attempts, wherever they
were abandoned and whatever the solver returned in them. -/
theorem decomposition_retry_reconstruct [CommRing R] (cfg : Cfg R) {m : ℕ}
    (U : Matrix (Fin m) (Fin m) R) (attempts : List (List (Sol R)))
    (hgood : ∀ sols ∈ attempts, ∀ s ∈ sols, s.1 * s.2 = 1)
    (st : St R m) (h : decompositionRetry cfg U attempts = some st) :
    circMat m st.comps * st.u.toMatrix + st.err.toMatrix = U := by
  obtain ⟨k, hk, hs, -⟩ := retry_returns_first_success cfg id attempts U st h
  rw [Function.iterate_id] at hs
  exact triangle_reconstruct_with_error cfg U _ (hgood _ (List.getElem_mem hk)) st hs

/-- `decomposition_retry_history_independent`: the result of the loop is the result of its first successful attempt
run on `U` alone: the failed attempts before it have no influence at all. -/
theorem decomposition_retry_history_independent [CommRing R] (cfg : Cfg R) {m : ℕ}
    (U : Matrix (Fin m) (Fin m) R) (attempts : List (List (Sol R)))
    (st : St R m) (h : decompositionRetry cfg U attempts = some st) :
    ∃ sols ∈ attempts, decomposeTriangle cfg U sols = some st := by
  obtain ⟨k, hk, hs, -⟩ := retry_returns_first_success cfg id attempts U st h
  rw [Function.iterate_id] at hs
  exact ⟨_, List.getElem_mem hk, hs⟩

/-- pinned code (`decompositionRetryInPlace`): the returned bookkeeping reconstructs `U` up to negligible entries set
to 0 — the returned circuit was still right … -/
theorem decomposition_retry_inplace_reconstruct [CommRing R] (cfg : Cfg R) {m : ℕ}
    (U : Matrix (Fin m) (Fin m) R) (attempts : List (List (Sol R)))
    (hgood : ∀ sols ∈ attempts, ∀ s ∈ sols, s.1 * s.2 = 1)
    (st : St R m) (h : decompositionRetryInPlace cfg U attempts = some st) :
    ∃ U', ZeroedSmall cfg U U' ∧ circMat m st.comps * st.u.toMatrix + st.err.toMatrix = U' :=
  retry_reconstruct_with_error cfg (inPlace cfg) (inPlace_zeroedSmall cfg) attempts U hgood st h

/-- … but the pinned code modified the matrix of its caller: after one call on this unitary-to-first-order matrix
(an entry of 10⁻⁷, below the precision 10⁻⁶ and far above the 10⁻⁸ of `Matrix.is_unitary`) the caller holds the
identity.  Regression witness of the defect repaired by `fixes/C12-input-mutated.diff`. -/
theorem pinned_code_modifies_callers_matrix :
    inPlace exCfg (!![1, ⟨1 / 10 ^ 7, 0⟩; ⟨-1 / 10 ^ 7, 0⟩, 1] : Matrix (Fin 2) (Fin 2) GQ) ≠
      (!![1, ⟨1 / 10 ^ 7, 0⟩; ⟨-1 / 10 ^ 7, 0⟩, 1] : Matrix (Fin 2) (Fin 2) GQ) := by
  decide +kernel

/-- a configuration in which every cell needs a solver result -/
def exCfgAll : Cfg GQ :=
  { small := fun z => decide (GQ.normSq z ≤ 1 / 10 ^ 12), ignoreId := false, usePerm := false }

/-- `hleave` cannot be dropped: if a failed attempt may leave anything else in the array the next attempt
starts from (here: the identity instead of the requested swap — what a working copy shared by all attempts and
reduced in place by an abandoned attempt amounts to), the loop returns a perfectly well-formed result (good solver
results, nothing overwritten) that reconstructs the left-over matrix and not the requested one. -/
theorem retry_needs_fresh_matrix :
    ¬ (∀ (leave : Matrix (Fin 2) (Fin 2) GQ → Matrix (Fin 2) (Fin 2) GQ)
        (U : Matrix (Fin 2) (Fin 2) GQ) (attempts : List (List (Sol GQ))) (st : St GQ 2),
        (∀ sols ∈ attempts, ∀ s ∈ sols, s.1 * s.2 = 1) →
        retry exCfgAll leave U attempts = some st →
        ∃ U', ZeroedSmall exCfgAll U U' ∧ circMat 2 st.comps * st.u.toMatrix + st.err.toMatrix = U') := by
  intro h
  have hgood : ∀ sols ∈ [[], [((1 : Matrix (Fin 2) (Fin 2) GQ), (1 : Matrix (Fin 2) (Fin 2) GQ))]],
      ∀ s ∈ sols, s.1 * s.2 = 1 := by
    intro sols hs s hs'
    simp only [List.mem_cons, List.mem_nil_iff, or_false] at hs
    rcases hs with rfl | rfl
    · simp at hs'
    · simp only [List.mem_singleton] at hs'
      subst hs'
      simp
  cases hr : retry exCfgAll (fun _ => (1 : Matrix (Fin 2) (Fin 2) GQ)) (swapMat 2 0 1)
      [[], [((1 : Matrix (Fin 2) (Fin 2) GQ), (1 : Matrix (Fin 2) (Fin 2) GQ))]] with
  | none => revert hr; decide +kernel
  | some st =>
    obtain ⟨U', hz, hU'⟩ := h _ _ _ st hgood hr
    have h01 : U' 0 1 = 1 := by
      rcases hz 0 1 with e | ⟨_, es⟩
      · rw [e]; decide +kernel
      · have hns : exCfgAll.small ((swapMat 2 0 1 : Matrix (Fin 2) (Fin 2) GQ) 0 1) = false := by
          decide +kernel
        rw [hns] at es
        cases es
    have hst : (circMat 2 st.comps * st.u.toMatrix + st.err.toMatrix) 0 1 = 0 := by
      have : (some st).map (fun st => decide ((circMat 2 st.comps * st.u.toMatrix + st.err.toMatrix) 0 1 = 0))
          = some true := by
        rw [← hr]; decide +kernel
      simp only [Option.map_some, Option.some.injEq] at this
      exact of_decide_eq_true this
    rw [hU', h01] at hst
    revert hst
    decide +kernel

/-- the retry loop is reachable with a failed attempt followed by a successful one, and the hypotheses of
`decomposition_retry_reconstruct` are satisfiable: first attempt without solver result (`none`), second with a
good one; the result is the second attempt's -/
example : ((decompositionRetry exCfg exB [[], [(exB, exBinv)]]).map fun st =>
      decide (st.u.toMatrix = 1 ∧ st.err.toMatrix = 0 ∧ st.comps.length = 1)) = some true ∧
    (decomposeTriangle exCfg exB []).isNone = true := by
  refine ⟨by decide +kernel, by decide +kernel⟩

end PM.C12


/-! ### the solver's bookkeeping (`solve.py`) and the residue a solved cell leaves -/

namespace PM.C12

open Solve

variable {R α β : Type}

/-- `solve_sound`.  Whatever the numerical minimiser returns (`opt` is arbitrary), whatever the starting point and
whichever parameters the constraint imposes — all of them included, the case where nothing is left to optimise —
a vector returned by `solve` without `allow_error` satisfies `f x ≤ precision`. -/
theorem solve_sound [AddGroup β] [LinearOrder β] (opt : (List α → β) → List α → List α) (prec : β)
    (f : List α → β) (x0 : List α) (cs : List (Option α)) (x : List α)
    (h : solve opt false prec f x0 cs = some x) : f x ≤ prec := by
  fun_induction solve opt false prec f x0 cs generalizing x with
  | case1 f x0 cs hc =>
    simp only [Option.some.injEq] at h
    subst h
    exact le_of_lt (lt_of_le_of_lt (le_abs_self _) hc.2)
  | case2 f x0 cs hc i c hfs ih =>
    simp only [Option.map_eq_some_iff] at h
    obtain ⟨y, hy, rfl⟩ := h
    exact ih y hy
  | case3 f x0 cs hc hfs x' hbad =>
    exact absurd h (by simp)
  | case4 f x0 cs hc hfs x' hok =>
    simp only [Option.some.injEq] at h
    subst h
    simp only [and_true, not_lt] at hok
    exact hok

/-- `solve_imposed`.  With a length-preserving minimiser and `len(x0) = len(constraint)` (what
`decompose_triangle` passes), the returned vector has one value per parameter and carries every imposed value at
its own position (with or without `allow_error`). -/
theorem solve_imposed [AddGroup β] [LinearOrder β] (opt : (List α → β) → List α → List α)
    (hopt : ∀ g y, (opt g y).length = y.length) (ae : Bool) (prec : β)
    (f : List α → β) (x0 : List α) (cs : List (Option α)) (x : List α) (hlen : x0.length = cs.length)
    (h : solve opt ae prec f x0 cs = some x) :
    x.length = cs.length ∧ ∀ (k : ℕ) (c : α), cs[k]? = some (some c) → x[k]? = some c := by
  fun_induction solve opt ae prec f x0 cs generalizing x with
  | case1 f x0 cs hc =>
    simp only [Option.some.injEq] at h
    subst h
    have h0 : x0 = [] := by simpa using hc.1
    subst h0
    have hcs : cs = [] := List.length_eq_zero_iff.mp (by simpa using hlen.symm)
    subst hcs
    simp
  | case2 f x0 cs hc i c hfs ih =>
    simp only [Option.map_eq_some_iff] at h
    obtain ⟨y, hy, rfl⟩ := h
    have hi := firstSome_lt hfs
    have hlen' : (x0.eraseIdx i).length = (cs.eraseIdx i).length := by
      rw [List.length_eraseIdx, List.length_eraseIdx, hlen]
    obtain ⟨hyl, hyv⟩ := ih y hlen' hy
    rw [List.length_eraseIdx, if_pos hi] at hyl
    have hiy : i ≤ y.length := by omega
    refine ⟨by rw [splice_length]; omega, ?_⟩
    intro k c' hk
    rw [splice_getElem? c hiy]
    split_ifs with h1 h2
    · apply hyv
      rw [List.getElem?_eraseIdx_of_lt h1]
      exact hk
    · subst h2
      rw [firstSome_get hfs] at hk
      simpa using hk
    · apply hyv
      rw [List.getElem?_eraseIdx_of_ge (by omega)]
      have : k - 1 + 1 = k := by omega
      rw [this]
      exact hk
  | case3 f x0 cs hc hfs x' hbad =>
    exact absurd h (by simp)
  | case4 f x0 cs hc hfs x' hok =>
    simp only [Option.some.injEq] at h
    subst h
    refine ⟨?_, fun k c hk => absurd hk (firstSome_none hfs k c)⟩
    show (if x0.isEmpty then [] else opt f x0).length = cs.length
    split_ifs with he
    · have : x0 = [] := by simpa using he
      simp [← hlen, this]
    · rw [hopt, hlen]

/-- the constraint loop of `decompose_triangle` (`for c in constraints: … if res is not None: break`): the retained
vector comes from one of the listed constraints and satisfies `f x ≤ precision` -/
theorem solveCell_sound [AddGroup β] [LinearOrder β] (opt : (List α → β) → List α → List α) (prec : β)
    (f : List α → β) (x0 : List α) (constraints : List (List (Option α))) (x : List α)
    (h : solveCell opt false prec f x0 constraints = some x) :
    f x ≤ prec ∧ ∃ c ∈ constraints, solve opt false prec f x0 c = some x := by
  obtain ⟨c, hc, hx⟩ := List.exists_of_findSome?_eq_some h
  exact ⟨solve_sound opt prec f x0 c x hx, c, hc, hx⟩

/-- `solved_cell_residue_le_precision`.  In a solved cell `(j, n)` the code hands `solve` the function
`g(x) = |cU_inv(x)[0,0]·u[n,j] + cU_inv(x)[0,1]·u[n+1,j]|` (`nrm` is the modulus, `cUinv` the substituted inverse
block), multiplies `u` by the embedded `cU_inv(res)` and overwrites `u[n,j]` with 0.  The overwritten entry —
the summand this cell contributes to `err` in `triangle_reconstruct_with_error` — has modulus ≤ precision, for
every minimiser, every list of constraints (fully imposed ones included) and every starting point. -/
theorem solved_cell_residue_le_precision [CommRing R] [AddGroup β] [LinearOrder β] (nrm : R → β)
    (cUinv : List α → Matrix (Fin 2) (Fin 2) R) {m n : ℕ} (hn : n + 1 < m) (j : Fin m)
    (M : Matrix (Fin m) (Fin m) R) (opt : (List α → β) → List α → List α) (prec : β) (x0 : List α)
    (constraints : List (List (Option α))) (x : List α)
    (h : solveCell opt false prec
      (fun p => nrm (cUinv p 0 0 * M ⟨n, by omega⟩ j + cUinv p 0 1 * M ⟨n + 1, hn⟩ j)) x0 constraints = some x) :
    nrm ((embed m n (cUinv x) * M) ⟨n, by omega⟩ j) ≤ prec := by
  rw [embed2_mul_row hn]
  exact (solveCell_sound opt prec _ x0 constraints x h).1

/-! non-vacuity and regression witnesses (parameters and values in ℤ, `f` = sum of the parameters, precision 1,
the "minimiser" returns its starting point) -/

/-- a constraint imposing the only parameter with a value that IS a root is accepted (nothing is optimised) -/
example : solve (fun _ y => y) false (1 : ℤ) (fun x : List ℤ => x.sum) [5] [some 0] = some [0] := by
  rw [solve]; simp [firstSome, splice]; rw [solve]; simp

/-- a constraint imposing the only parameter with a value that is NOT a root is rejected: `return None`
(the behaviour seeded change C12-3 removed: it accepted `[]` without evaluating `f`) -/
example : solve (fun _ y => y) false (1 : ℤ) (fun x : List ℤ => x.sum) [5] [some 3] = none := by
  rw [solve]; simp [firstSome, splice]; rw [solve]; simp [firstSome]

/-- the loop over the constraints then falls back on the next entry: `[(3,), (None,)]` with a minimiser that
finds the root 0 -/
example : solveCell (fun _ _ => [0]) false (1 : ℤ) (fun x : List ℤ => x.sum) [5] [[some 3], [none]] = some [0] := by
  have h1 : solve (fun _ _ => [0]) false (1 : ℤ) (fun x : List ℤ => x.sum) [5] [some 3] = none := by
    rw [solve]; simp [firstSome, splice]; rw [solve]; simp [firstSome]
  have h2 : solve (fun _ _ => [0]) false (1 : ℤ) (fun x : List ℤ => x.sum) [5] [none] = some [0] := by
    rw [solve]; simp [firstSome]
  simp [solveCell, List.findSome?, h1, h2]

/-- a partially imposed constraint: the imposed value lands at its own position, the free one is the minimiser's -/
example : solve (fun _ _ => [-2]) false (1 : ℤ) (fun x : List ℤ => x.sum) [7, 9] [none, some 2] = some [-2, 2] := by
  rw [solve]; simp [firstSome, splice]; rw [solve]; simp [firstSome]

end PM.C12


/-! ### the existence clause as mathematics (`Model/C12Block.lean`, `Lemmas/C12Exist.lean`)

For the two blocks the check claims existence for, the equation `decompose_triangle` hands to the solver
(`cU_inv[0,0]·u[n,j] + cU_inv[0,1]·u[n+1,j] = 0`, `cU_inv` the inverse of the block's matrix) has a solution for
EVERY pair of complex numbers, given in closed form: one parameter from the moduli, one from the arguments.  The
blocks' parameters are periodic, so `decompose_triangle` passes no bounds and every real value is admissible.  A
`None` of `decompose_triangle` with one of these blocks and an unrestricted constraint is therefore a failure of the
numerical minimiser, never of the mathematics. -/

namespace PM.C12

open Solve

/-- the matrix the equation is built from is the inverse of `BS(theta) // PS(phi)` as built (PS after the BS.Rx),
on both sides, at all real parameter values -/
theorem bsPs_equation_uses_inverse (θ φ : ℝ) :
    bsPsInvC θ φ * bsPsC θ φ = 1 ∧ bsPsC θ φ * bsPsInvC θ φ = 1 :=
  ⟨bsPsInvC_mul_bsPsC θ φ, bsPsC_mul_bsPsInvC θ φ⟩

/-- `BS(theta) // PS(phi)`: for every `a = u[n,j]`, `b = u[n+1,j]` (both zero included) the parameters
`theta = π if b = 0 else 2·arctan(|a|/|b|)`, `phi = arg a − arg b − π/2` null the equation exactly -/
theorem bsPs_exists_nulling_parameters (a b : ℂ) :
    nullEq (bsPsInvC (bsPsTheta a b) (bsPsPhi a b)) a b = 0 := bsPs_nulls' a b

/-- `catalog['mzi phase last']` as built (`BS·PS(φ_a)·BS·PS(φ_b)`, phase shifters on mode 1, `BS = BS.Rx(π/2)`) has
the closed form `mziMat`, and the matrix the equation is built from is its inverse -/
theorem mzi_equation_uses_inverse (φa φb : ℝ) :
    mziC φa φb = mziMat Complex.I (1 / 2) (Complex.exp (φa * Complex.I)) (Complex.exp (φb * Complex.I)) ∧
      mziInvC φa φb * mziC φa φb = 1 :=
  ⟨mziC_eq_mziMat φa φb, mziInvC_mul_mziC φa φb⟩

/-- the MZI: for every `a`, `b` the parameters `phi_a = π if a = 0 else 2·arctan(|b|/|a|)`, `phi_b = arg b − arg a`
null the equation exactly -/
theorem mzi_exists_nulling_parameters (a b : ℂ) :
    nullEq (mziInvC (mziPhiA a b) (mziPhiB a b)) a b = 0 := mzi_nulls' a b

/-- hence, in the model of `solve` (`Model/C12Solve.lean`) with the unrestricted constraint `(None, None)`: there is
a value of the minimiser (the closed form) for which `solve` hands back parameters, for every non-negative precision,
every starting point and every pair `(a, b)` — for both blocks.  `g(x) = |equation|` exactly as in the code. -/
theorem universal_block_solve_succeeds (a b : ℂ) (prec : ℝ) (hp : 0 ≤ prec) (x0 : List ℝ) (hx0 : x0 ≠ []) :
    solve (fun _ _ => [bsPsTheta a b, bsPsPhi a b]) false prec
        (fun x => ‖nullEq (bsPsInvC (x.getD 0 0) (x.getD 1 0)) a b‖) x0 [none, none]
      = some [bsPsTheta a b, bsPsPhi a b] ∧
    solve (fun _ _ => [mziPhiA a b, mziPhiB a b]) false prec
        (fun x => ‖nullEq (mziInvC (x.getD 0 0) (x.getD 1 0)) a b‖) x0 [none, none]
      = some [mziPhiA a b, mziPhiB a b] := by
  constructor
  · refine solve_free_accepts (fun _ _ => [bsPsTheta a b, bsPsPhi a b]) prec _ x0 hx0 2 ?_
    simp only [List.getD_cons_zero, List.getD_cons_succ]
    rw [bsPs_exists_nulling_parameters, norm_zero]
    exact hp
  · refine solve_free_accepts (fun _ _ => [mziPhiA a b, mziPhiB a b]) prec _ x0 hx0 2 ?_
    simp only [List.getD_cons_zero, List.getD_cons_succ]
    rw [mzi_exists_nulling_parameters, norm_zero]
    exact hp

/-- non-vacuity / regression value: for the second column `(a, b) = (0, 1)` of the identity the closed form gives
`theta = 0` (the beam splitter is the identity) -/
example : bsPsTheta 0 1 = 0 := by simp [bsPsTheta]

/-! ### the size of the floating residue (`Lemmas/C12Bound.lean`, `C12Tri.lean`, `C12NearDiag.lean`)

`triangle_reconstruct_with_error` is exact.  Here the error term is bounded: over ℂ, in the Frobenius norm `frob`
(`Lemmas/C12Frob.lean`), with unitary blocks. -/

/-- the final `u` of `decompose_triangle` is lower triangular — for every commutative ring, threshold, flag
combination and solver: every entry above the diagonal is overwritten in its own cell and never touched again -/
theorem final_u_lower_triangular [CommRing R] (cfg : Cfg R) {m : ℕ} (U : Matrix (Fin m) (Fin m) R)
    (sols : List (Sol R)) (st : St R m) (h : decomposeTriangle cfg U sols = some st) :
    ∀ a b : Fin m, a < b → st.u.toMatrix a b = 0 :=
  decomposeTriangle_lower cfg U sols st h

/-- what `trace` records: in a cell where the solver was not called the overwritten value passed the threshold test
`abs(x) <= precision`; in a solved cell it is the value of the equation at the block used (the quantity whose modulus
`solve` accepted: `solved_cell_residue_le_precision`) -/
theorem overwritten_values [CommRing R] (cfg : Cfg R) {m : ℕ} (U : Matrix (Fin m) (Fin m) R) (sols : List (Sol R)) :
    ∀ r ∈ trace cfg (initSt U sols) (cells m),
      (r.solved = false → cfg.small r.z = true) ∧
      (r.solved = true → ∃ B Binv, r.z = nullEq Binv r.a r.b ∧ (B, Binv) ∈ sols) :=
  trace_spec cfg (cells m) (cells_ok m) (initSt U sols)

/-- `(#cells)`: the double loop has `m(m−1)/2` cells -/
theorem number_of_cells (m : ℕ) : (cells m).length * 2 = m * (m - 1) := cells_length m

/-- `residue_bound`.  With unitary blocks (whatever the matrix `U`, the thresholds, the solver): the product of the
returned components times the final `u` differs from `U`, in Frobenius norm, by at most the sum of the moduli of the
overwritten entries — hence by at most `(#cells)·ε` when each of them is at most `ε`. -/
theorem residue_bound (cfg : Cfg ℂ) {m : ℕ} (U : Matrix (Fin m) (Fin m) ℂ) (sols : List (Sol ℂ))
    (hgood : ∀ s ∈ sols, s.1 * s.2 = 1) (hunit : ∀ s ∈ sols, IsUnitary s.1)
    (st : St ℂ m) (h : decomposeTriangle cfg U sols = some st) :
    IsUnitary (circMat m st.comps) ∧
    frob (U - circMat m st.comps * st.u.toMatrix) ≤
      ((trace cfg (initSt U sols) (cells m)).map fun r => ‖r.z‖).sum ∧
    ∀ ε : ℝ, 0 ≤ ε → (∀ r ∈ trace cfg (initSt U sols) (cells m), ‖r.z‖ ≤ ε) →
      frob (U - circMat m st.comps * st.u.toMatrix) ≤ ((cells m).length : ℝ) * ε := by
  have hrec := triangle_reconstruct_with_error cfg U sols hgood st h
  obtain ⟨hQ, hle⟩ := run_err_bound cfg (cells m) (cells_ok m) (st := initSt U sols) (st' := st) h
    (show UnitarySols (initSt U sols).rest from hunit) (by simp [initSt, isUnitary_one])
  have e : U - circMat m st.comps * st.u.toMatrix = st.err.toMatrix := by
    rw [← hrec]; abel
  have h0 : frob (initSt U sols).err.toMatrix = 0 := by simp [initSt, frob_zero]
  rw [h0, zero_add] at hle
  refine ⟨hQ, by rw [e]; exact hle, ?_⟩
  intro ε hε0 hε
  rw [e]
  exact le_trans hle (trace_sum_le cfg (cells m) (initSt U sols) ε hε0 hε)

/-- `decomposition_error_bound`.  The perturbation theorem that replaces the measured tolerance: `U` unitary, every
block the solver produced unitary, `δ` a bound on the sum of the moduli of the overwritten entries (`δ = (#cells)·ε`
when each is at most `ε`, the `precision` test of the code).  Then the circuit WITH the phase layer — the phase
shifters realising the unit-modulus phases of the diagonal of the final `u`, as `add_phases` computes them — has a
matrix within `(√(m−1) + 2)·δ + m·δ²` of `U` in Frobenius norm (so in every entry).  No assumption on the final `u`:
it is lower triangular by `final_u_lower_triangular` and near a unitary, hence near its own diagonal of phases
(`lower_triangular_near_unitary_near_diagonal`). -/
theorem decomposition_error_bound (cfg : Cfg ℂ) {m : ℕ} (U : Matrix (Fin m) (Fin m) ℂ) (hU : IsUnitary U)
    (sols : List (Sol ℂ)) (hgood : ∀ s ∈ sols, s.1 * s.2 = 1) (hunit : ∀ s ∈ sols, IsUnitary s.1)
    (st : St ℂ m) (h : decomposeTriangle cfg U sols = some st)
    (δ : ℝ) (hδ : ((trace cfg (initSt U sols) (cells m)).map fun r => ‖r.z‖).sum ≤ δ)
    (keep : ℂ → Bool) (hkeep : ∀ z, keep z = false → z = 1) :
    frob (U - circMat m (addPhases keep (fun i => phase (st.u.toMatrix i i)) ++ st.comps)) ≤
      (Real.sqrt ((m : ℝ) - 1) + 2) * δ + (m : ℝ) * δ ^ 2 := by
  obtain ⟨hQ, hres, -⟩ := residue_bound cfg U sols hgood hunit st h
  have hrec := triangle_reconstruct_with_error cfg U sols hgood st h
  set Q := circMat m st.comps with hQdef
  set u := st.u.toMatrix with hudef
  set P : Fin m → ℂ := fun i => phase (u i i) with hPdef
  have hres' : frob (U - Q * u) ≤ δ := le_trans hres hδ
  -- the circuit with the phase layer
  have hcirc : circMat m (addPhases keep P ++ st.comps) = Q * Matrix.diagonal P := by
    rw [circMat_append, phases_realise_diag]
    congr 2
    funext i
    by_cases hk : keep (P i) = true
    · simp [hk]
    · simp only [hk]
      exact (hkeep _ (by simpa using hk)).symm
  -- `W = Qᴴ U` is unitary and within `δ` of `u`
  have hQh : IsUnitary Qᴴ := ⟨by rw [conjTranspose_conjTranspose]; exact hQ.2,
    by rw [conjTranspose_conjTranspose]; exact hQ.1⟩
  have hW := hQh.mul hU
  have hWu : Qᴴ * U - u = Qᴴ * (U - Q * u) := by
    rw [Matrix.mul_sub, ← Matrix.mul_assoc, hQ.2, Matrix.one_mul]
  have hWu' : frob (Qᴴ * U - u) ≤ δ := by
    rw [hWu, frob_unitary_mul _ (by rw [conjTranspose_conjTranspose]; exact hQ.1)]
    exact hres'
  have hdiag := lower_triangular_near_unitary_near_diagonal u (Qᴴ * U)
    (final_u_lower_triangular cfg U sols st h) hW.1 hW.2 δ hWu'
  -- put the two together
  have hsplit : U - Q * Matrix.diagonal P = (U - Q * u) + Q * (u - Matrix.diagonal P) := by
    rw [Matrix.mul_sub]; abel
  rw [hcirc, hsplit]
  refine le_trans (frob_add_le _ _) ?_
  rw [frob_unitary_mul _ hQ.2]
  have : frob (u - Matrix.diagonal P) ≤ (Real.sqrt ((m : ℝ) - 1) + 1) * δ + (m : ℝ) * δ ^ 2 := hdiag
  linarith

/-- `decomposition_error_bound` in terms of the precision: every overwritten entry of modulus at most `ε`
(`overwritten_values`: the threshold test for the skipped / permuted cells, the acceptance test of `solve` for the
solved ones) gives `‖U − circuit‖_F ≤ (√(m−1) + 2)·N·ε + m·(N·ε)²` with `N = m(m−1)/2` cells. -/
theorem decomposition_error_bound_precision (cfg : Cfg ℂ) {m : ℕ} (U : Matrix (Fin m) (Fin m) ℂ) (hU : IsUnitary U)
    (sols : List (Sol ℂ)) (hgood : ∀ s ∈ sols, s.1 * s.2 = 1) (hunit : ∀ s ∈ sols, IsUnitary s.1)
    (st : St ℂ m) (h : decomposeTriangle cfg U sols = some st)
    (ε : ℝ) (hε0 : 0 ≤ ε) (hε : ∀ r ∈ trace cfg (initSt U sols) (cells m), ‖r.z‖ ≤ ε)
    (keep : ℂ → Bool) (hkeep : ∀ z, keep z = false → z = 1) :
    frob (U - circMat m (addPhases keep (fun i => phase (st.u.toMatrix i i)) ++ st.comps)) ≤
      (Real.sqrt ((m : ℝ) - 1) + 2) * (((cells m).length : ℝ) * ε) + (m : ℝ) * (((cells m).length : ℝ) * ε) ^ 2 :=
  decomposition_error_bound cfg U hU sols hgood hunit st h _
    (trace_sum_le cfg (cells m) (initSt U sols) ε hε0 hε) keep hkeep

/-- without the phase layer: the circuit `comps` alone has the matrix of `U` times the diagonal of the conjugate
phases, within the same bound ("equals it up to a diagonal phase matrix") -/
theorem decomposition_error_bound_no_phase_layer (cfg : Cfg ℂ) {m : ℕ} (U : Matrix (Fin m) (Fin m) ℂ)
    (hU : IsUnitary U) (sols : List (Sol ℂ)) (hgood : ∀ s ∈ sols, s.1 * s.2 = 1)
    (hunit : ∀ s ∈ sols, IsUnitary s.1) (st : St ℂ m) (h : decomposeTriangle cfg U sols = some st)
    (δ : ℝ) (hδ : ((trace cfg (initSt U sols) (cells m)).map fun r => ‖r.z‖).sum ≤ δ) :
    frob (U * Matrix.diagonal (fun i => star (phase (st.u.toMatrix i i))) - circMat m st.comps) ≤
      (Real.sqrt ((m : ℝ) - 1) + 2) * δ + (m : ℝ) * δ ^ 2 := by
  classical
  have hb := decomposition_error_bound cfg U hU sols hgood hunit st h δ hδ (fun z => decide (z ≠ 1))
    (by intro z hz; simpa using hz)
  rw [circMat_append, phases_realise_diag] at hb
  have hP : (fun i => if (fun z : ℂ => decide (z ≠ 1)) (phase (st.u.toMatrix i i)) = true
      then phase (st.u.toMatrix i i) else 1) = fun i => phase (st.u.toMatrix i i) := by
    funext i
    by_cases hk : phase (st.u.toMatrix i i) = 1
    · simp [hk]
    · simp [hk]
  rw [hP] at hb
  have hunitP : ∀ i, ‖star (phase (st.u.toMatrix i i))‖ = 1 := fun i => by rw [norm_star, norm_phase]
  have hPP : Matrix.diagonal (fun i => phase (st.u.toMatrix i i)) *
      Matrix.diagonal (fun i => star (phase (st.u.toMatrix i i))) = 1 := by
    rw [Matrix.diagonal_mul_diagonal, ← Matrix.diagonal_one]
    congr 1
    funext i
    have := norm_phase (st.u.toMatrix i i)
    rw [Complex.star_def, Complex.mul_conj, Complex.normSq_eq_norm_sq, this]
    simp
  have e : U * Matrix.diagonal (fun i => star (phase (st.u.toMatrix i i))) - circMat m st.comps =
      (U - circMat m st.comps * Matrix.diagonal (fun i => phase (st.u.toMatrix i i))) *
        Matrix.diagonal (fun i => star (phase (st.u.toMatrix i i))) := by
    rw [Matrix.sub_mul, Matrix.mul_assoc, hPP, Matrix.mul_one]
  rw [e, frob_mul_unit_diagonal _ _ hunitP]
  exact hb

/-- the hypotheses of `residue_bound` / `decomposition_error_bound` are satisfiable (the identity, no cell solved) -/
example : IsUnitary (1 : Matrix (Fin 2) (Fin 2) ℂ) := isUnitary_one

end PM.C12

/-! ### the glue of `Circuit.decomposition` (`Model/C12Glue.lean`) and the constraint loop -/

namespace PM.C12

open Glue Solve

/-- `decomposition_returns_circuit_iff`.  `Circuit.decomposition` hands back a circuit built from attempt `k` exactly
when the shape resolves to the triangle, the matrix is a non-symbolic unitary, the constraints are well formed,
`k < max_try`, attempt `k` of `decompose_triangle` returned a list and no earlier attempt did. -/
theorem decomposition_returns_circuit_iff (r : Req) (attempts : ℕ → Bool) (k : ℕ) :
    outcome r attempts = .circuit k ↔
      Valid r .triangle ∧ k < r.maxTry ∧ attempts k = true ∧ ∀ i, i < k → attempts i = false := by
  constructor
  · intro h
    by_cases hv : ∃ sh, Valid r sh
    · obtain ⟨sh, hv⟩ := hv
      rw [outcome_of_valid hv] at h
      by_cases hsh : sh = .triangle
      · subst hsh
        obtain ⟨_, h2, h3, h4⟩ := (loop_circuit attempts r.maxTry 0 k).1 h
        exact ⟨hv, by omega, h3, fun i hi => h4 i (Nat.zero_le _) hi⟩
      · rw [loop_not_triangle sh hsh] at h
        split_ifs at h
    · have := outcome_of_invalid (r := r) (fun sh hsh => hv ⟨sh, hsh⟩) attempts
      rcases this with e | e <;> rw [e] at h <;> cases h
  · rintro ⟨hv, h2, h3, h4⟩
    rw [outcome_of_valid hv]
    exact (loop_circuit attempts r.maxTry 0 k).2 ⟨Nat.zero_le _, by omega, h3, fun i _ hi => h4 i hi⟩

/-- `decomposition_returns_none_iff`.  `None` comes back exactly when the request is valid and either `max_try` leaves
no iteration (whatever the shape: a rectangle request with `max_try <= 0` answers `None`, it does not raise) or the
shape is the triangle and every one of the `max_try` attempts failed. -/
theorem decomposition_returns_none_iff (r : Req) (attempts : ℕ → Bool) :
    outcome r attempts = .none ↔
      ∃ sh, Valid r sh ∧ (r.maxTry = 0 ∨ (sh = .triangle ∧ ∀ i, i < r.maxTry → attempts i = false)) := by
  constructor
  · intro h
    by_cases hv : ∃ sh, Valid r sh
    · obtain ⟨sh, hv⟩ := hv
      refine ⟨sh, hv, ?_⟩
      rw [outcome_of_valid hv] at h
      by_cases hsh : sh = .triangle
      · subst hsh
        right
        exact ⟨rfl, fun i hi => (loop_none_triangle attempts r.maxTry 0).1 h i (Nat.zero_le _) (by omega)⟩
      · rw [loop_not_triangle sh hsh] at h
        left
        by_contra h0
        rw [if_neg h0] at h
        cases h
    · have := outcome_of_invalid (r := r) (fun sh hsh => hv ⟨sh, hsh⟩) attempts
      rcases this with e | e <;> rw [e] at h <;> cases h
  · rintro ⟨sh, hv, h0 | ⟨rfl, hall⟩⟩
    · rw [outcome_of_valid hv, h0]
      rfl
    · rw [outcome_of_valid hv]
      exact (loop_none_triangle attempts r.maxTry 0).2 fun i _ hi => hall i (by omega)

/-- `decomposition_not_implemented_iff`.  `NotImplementedError` is raised exactly for a valid request whose shape is not
the triangle (the rectangle, or an object that is neither a string nor a member of the enum) when the loop body runs
at least once. -/
theorem decomposition_not_implemented_iff (r : Req) (attempts : ℕ → Bool) :
    outcome r attempts = .notImplementedError ↔ ∃ sh, Valid r sh ∧ sh ≠ .triangle ∧ 0 < r.maxTry := by
  constructor
  · intro h
    by_cases hv : ∃ sh, Valid r sh
    · obtain ⟨sh, hv⟩ := hv
      rw [outcome_of_valid hv] at h
      by_cases hsh : sh = .triangle
      · subst hsh
        exfalso
        -- the triangle loop only answers `none` or `circuit`
        have : ∀ fuel count, loop .triangle attempts fuel count ≠ .notImplementedError := by
          intro fuel
          induction fuel with
          | zero => intro count; simp [loop]
          | succ fuel ih =>
            intro count
            unfold loop
            split_ifs
            · simp
            · exact ih _
        exact this _ _ h
      · rw [loop_not_triangle sh hsh] at h
        refine ⟨sh, hv, hsh, ?_⟩
        by_contra h0
        have : r.maxTry = 0 := by omega
        rw [if_pos this] at h
        cases h
    · have := outcome_of_invalid (r := r) (fun sh hsh => hv ⟨sh, hsh⟩) attempts
      rcases this with e | e <;> rw [e] at h <;> cases h
  · rintro ⟨sh, hv, hsh, h0⟩
    rw [outcome_of_valid hv, loop_not_triangle sh hsh, if_neg (by omega)]

/-- the quirk, as a concrete instance: a rectangle request with `max_try = 0` answers `None` -/
example : outcome { shape := .str (some .rectangle), unitary := true, symbolic := false, constraints := .none,
                    nparams := 2, maxTry := 0 } (fun _ => true) = .none := by decide

/-- `allow_error=True`: `solve` never answers `None`, whatever the minimiser returns, so no attempt of
`decompose_triangle` is abandoned because of the solver (a non-empty list of constraints assumed) -/
theorem allow_error_never_none {α β : Type} [AddGroup β] [LinearOrder β] (opt : (List α → β) → List α → List α)
    (prec : β) (f : List α → β) (x0 : List α) (c : List (Option α)) (rest : List (List (Option α))) :
    (solveCell opt true prec f x0 (c :: rest)).isSome = true := by
  have h := solve_allow_error_isSome opt prec f x0 c
  obtain ⟨x, hx⟩ := Option.isSome_iff_exists.1 h
  simp [solveCell, List.findSome?, hx]

/-- an EMPTY list of constraints makes every cell that needs the solver fail (`for c in constraints` does not run,
`res` stays `None`): `constraints=[]` is not the same as `constraints=None` -/
theorem empty_constraint_list_fails {α β : Type} [AddGroup β] [LinearOrder β] (opt : (List α → β) → List α → List α)
    (ae : Bool) (prec : β) (f : List α → β) (x0 : List α) : solveCell opt ae prec f x0 [] = none := rfl

/-- `constraints_tried_in_order`: the constraint loop retains the answer of the FIRST listed entry `solve` accepts -/
theorem constraints_tried_in_order {α β : Type} [AddGroup β] [LinearOrder β] (opt : (List α → β) → List α → List α)
    (ae : Bool) (prec : β) (f : List α → β) (x0 : List α) (constraints : List (List (Option α))) (x : List α)
    (h : solveCell opt ae prec f x0 constraints = some x) :
    ∃ before c after, constraints = before ++ c :: after ∧ solve opt ae prec f x0 c = some x ∧
      ∀ c' ∈ before, solve opt ae prec f x0 c' = none :=
  solveCell_first opt ae prec f x0 constraints x h

/-- `returned_parameters_respect_a_constraint`: the parameter vector of every solved cell has one value per free
parameter and carries every value imposed by one of the listed constraints (the first one `solve` accepted) at its own
position — hence so does every block of the returned circuit. -/
theorem returned_parameters_respect_a_constraint {α β : Type} [AddGroup β] [LinearOrder β]
    (opt : (List α → β) → List α → List α) (hopt : ∀ g y, (opt g y).length = y.length) (ae : Bool) (prec : β)
    (f : List α → β) (x0 : List α) (constraints : List (List (Option α)))
    (hlen : ∀ c ∈ constraints, x0.length = c.length) (x : List α)
    (h : solveCell opt ae prec f x0 constraints = some x) :
    ∃ c ∈ constraints, Respects c x := by
  obtain ⟨l₁, c, l₂, hl, hr, -⟩ := solveCell_respects opt hopt ae prec f x0 constraints hlen x h
  exact ⟨c, by rw [hl]; simp, hr⟩

/-- non-vacuity: `[(3,), (None,)]`, the first entry is rejected, the second gives the minimiser's root; the retained
vector respects the second entry -/
example : solveCell (fun _ _ => [0]) false (1 : ℤ) (fun x : List ℤ => x.sum) [5] [[some 3], [none]] = some [0] ∧
    Respects ([none] : List (Option ℤ)) [0] := by
  refine ⟨?_, rfl, by intro k v hk; cases k <;> simp at hk⟩
  have h1 : solve (fun _ _ => [0]) false (1 : ℤ) (fun x : List ℤ => x.sum) [5] [some 3] = none := by
    rw [solve]; simp [firstSome, splice]; rw [solve]; simp [firstSome]
  have h2 : solve (fun _ _ => [0]) false (1 : ℤ) (fun x : List ℤ => x.sum) [5] [none] = some [0] := by
    rw [solve]; simp [firstSome]
  simp [solveCell, List.findSome?, h1, h2]

end PM.C12


/-! ### the existence clause for a WHOLE RUN (`Model/C12Exact.lean`, `Lemmas/C12Exact.lean`)

`mzi_exists_nulling_parameters` / `bsPs_exists_nulling_parameters` are about one cell.  Here they are composed over
the double loop: `decomposeExact` is `decompose_triangle` with the solver given as a FUNCTION of the two entries the
cell's equation is built from (`none` = `res is None`).  A solver that answers every cell makes the run return a
component list for EVERY matrix, every threshold predicate and every flag combination (`decompose_triangle` has no
other `return None`); such a run is a run of the list-oracle model on the list of the solver's answers, so all the
theorems above apply to it; with the closed forms plugged in, every solved cell is nulled EXACTLY, and for a unitary
input the returned circuit (with the phase layer) is within the perturbation bound of `U` where only the entries the
threshold test declared negligible contribute — it IS `U` when the threshold test accepts exact zeros only (the
universality of the triangular mesh of the two blocks, as the code builds it). -/

namespace PM.C12

/-- a solver that answers every cell makes `decompose_triangle` return (never `None`), for every matrix (unitary or
not), every threshold predicate and every flag combination -/
theorem exact_run_returns_circuit [CommRing R] (cfg : Cfg R) (solver : R → R → Option (Sol R))
    (hs : ∀ a b, (solver a b).isSome = true) {m : ℕ} (U : Matrix (Fin m) (Fin m) R) :
    ∃ st, decomposeExact cfg solver U = some st :=
  Option.isSome_iff_exists.1 (runF_total cfg solver hs (cells m) _)

/-- a run with the solver plugged in is a run of `decomposeTriangle` on the list of the solver's answers (same final
state), and the value every solved cell overwrites is the cell's equation at the solver's answer for the cell's own
entries `(a, b)` -/
theorem exact_run_is_a_run [CommRing R] (cfg : Cfg R) (solver : R → R → Option (Sol R)) {m : ℕ}
    (U : Matrix (Fin m) (Fin m) R) (st : St R m) (h : decomposeExact cfg solver U = some st) :
    ∃ sols : List (Sol R),
      (∀ s ∈ sols, ∃ a b, solver a b = some s) ∧
      decomposeTriangle cfg U sols = some st ∧
      ∀ r ∈ trace cfg (initSt U sols) (cells m), r.solved = true →
        ∃ s, solver r.a r.b = some s ∧ r.z = nullEq s.2 r.a r.b :=
  decomposeExact_spec cfg solver U st h

/-- `universal_block_run_succeeds`: for `catalog['mzi phase last']` and for `BS(theta)//PS(phi)`, with the closed-form
parameters as the solver, `decompose_triangle` returns for EVERY square complex matrix, every threshold and every flag
combination; the components are instances of the block at real parameter values and every solved cell is nulled
exactly -/
theorem universal_block_run_succeeds (cfg : Cfg ℂ) {m : ℕ} (U : Matrix (Fin m) (Fin m) ℂ) :
    (∃ sols st, (∀ s ∈ sols, ∃ φa φb : ℝ, s = (mziC φa φb, mziInvC φa φb)) ∧
        decomposeExact cfg mziSolver U = some st ∧ decomposeTriangle cfg U sols = some st ∧
        ∀ r ∈ trace cfg (initSt U sols) (cells m), r.solved = true → r.z = 0) ∧
    (∃ sols st, (∀ s ∈ sols, ∃ θ φ : ℝ, s = (bsPsC θ φ, bsPsInvC θ φ)) ∧
        decomposeExact cfg bsPsSolver U = some st ∧ decomposeTriangle cfg U sols = some st ∧
        ∀ r ∈ trace cfg (initSt U sols) (cells m), r.solved = true → r.z = 0) := by
  constructor
  · obtain ⟨st, hst⟩ := exact_run_returns_circuit cfg mziSolver (fun _ _ => rfl) U
    obtain ⟨sols, h1, h2, h3⟩ := exact_run_is_a_run cfg mziSolver U st hst
    refine ⟨sols, st, ?_, hst, h2, ?_⟩
    · intro s hs
      obtain ⟨a, b, hab⟩ := h1 s hs
      simp only [mziSolver, Option.some.injEq] at hab
      exact ⟨_, _, hab.symm⟩
    · intro r hr hsv
      obtain ⟨s, hs, hz⟩ := h3 r hr hsv
      simp only [mziSolver, Option.some.injEq] at hs
      subst hs
      rw [hz]
      exact mzi_nulls' r.a r.b
  · obtain ⟨st, hst⟩ := exact_run_returns_circuit cfg bsPsSolver (fun _ _ => rfl) U
    obtain ⟨sols, h1, h2, h3⟩ := exact_run_is_a_run cfg bsPsSolver U st hst
    refine ⟨sols, st, ?_, hst, h2, ?_⟩
    · intro s hs
      obtain ⟨a, b, hab⟩ := h1 s hs
      simp only [bsPsSolver, Option.some.injEq] at hab
      exact ⟨_, _, hab.symm⟩
    · intro r hr hsv
      obtain ⟨s, hs, hz⟩ := h3 r hr hsv
      simp only [bsPsSolver, Option.some.injEq] at hs
      subst hs
      rw [hz]
      exact bsPs_nulls' r.a r.b

/-- `exact_solver_reproduces_unitary`: ANY solver that answers every cell with a unitary block, the two-sided inverse
the code multiplies with, and an exact root of the cell's equation: for a unitary `U` the run returns, and the circuit
with the phase layer is within `(√(m−1)+2)·N·ε + m·(N·ε)²` of `U`, `ε` bounding the entries the threshold test calls
negligible (the solved cells contribute nothing) -/
theorem exact_solver_reproduces_unitary (cfg : Cfg ℂ) (solver : ℂ → ℂ → Option (Sol ℂ))
    (hs : ∀ a b, (solver a b).isSome = true)
    (hinv : ∀ a b s, solver a b = some s → s.1 * s.2 = 1)
    (hunit : ∀ a b s, solver a b = some s → IsUnitary s.1)
    (hnull : ∀ a b s, solver a b = some s → nullEq s.2 a b = 0)
    {m : ℕ} (U : Matrix (Fin m) (Fin m) ℂ) (hU : IsUnitary U)
    (ε : ℝ) (hε0 : 0 ≤ ε) (hsmall : ∀ x, cfg.small x = true → ‖x‖ ≤ ε)
    (keep : ℂ → Bool) (hkeep : ∀ z, keep z = false → z = 1) :
    ∃ st, decomposeExact cfg solver U = some st ∧
      frob (U - circMat m (addPhases keep (fun i => phase (st.u.toMatrix i i)) ++ st.comps)) ≤
        (Real.sqrt ((m : ℝ) - 1) + 2) * (((cells m).length : ℝ) * ε) +
          (m : ℝ) * (((cells m).length : ℝ) * ε) ^ 2 := by
  obtain ⟨st, hst⟩ := exact_run_returns_circuit cfg solver hs U
  obtain ⟨sols, h1, h2, h3⟩ := exact_run_is_a_run cfg solver U st hst
  refine ⟨st, hst, ?_⟩
  refine decomposition_error_bound_precision cfg U hU sols ?_ ?_ st h2 ε hε0 ?_ keep hkeep
  · intro s hs'
    obtain ⟨a, b, hab⟩ := h1 s hs'
    exact hinv a b s hab
  · intro s hs'
    obtain ⟨a, b, hab⟩ := h1 s hs'
    exact hunit a b s hab
  · intro r hr
    cases hsv : r.solved with
    | true =>
      obtain ⟨s, hs', hz⟩ := h3 r hr hsv
      rw [hz, hnull _ _ s hs', norm_zero]
      exact hε0
    | false => exact hsmall _ ((overwritten_values cfg U sols r hr).1 hsv)

/-- `universal_block_reproduces_every_unitary`: the two blocks with their closed-form solvers satisfy the hypotheses
of `exact_solver_reproduces_unitary` — for every unitary matrix of every size the exact algorithm returns a mesh of
MZIs (resp. `BS//PS`) whose matrix, with the phase layer, is within the bound of `U` -/
theorem universal_block_reproduces_every_unitary (cfg : Cfg ℂ) {m : ℕ} (U : Matrix (Fin m) (Fin m) ℂ)
    (hU : IsUnitary U) (ε : ℝ) (hε0 : 0 ≤ ε) (hsmall : ∀ x, cfg.small x = true → ‖x‖ ≤ ε)
    (keep : ℂ → Bool) (hkeep : ∀ z, keep z = false → z = 1) :
    (∃ st, decomposeExact cfg mziSolver U = some st ∧
      frob (U - circMat m (addPhases keep (fun i => phase (st.u.toMatrix i i)) ++ st.comps)) ≤
        (Real.sqrt ((m : ℝ) - 1) + 2) * (((cells m).length : ℝ) * ε) +
          (m : ℝ) * (((cells m).length : ℝ) * ε) ^ 2) ∧
    (∃ st, decomposeExact cfg bsPsSolver U = some st ∧
      frob (U - circMat m (addPhases keep (fun i => phase (st.u.toMatrix i i)) ++ st.comps)) ≤
        (Real.sqrt ((m : ℝ) - 1) + 2) * (((cells m).length : ℝ) * ε) +
          (m : ℝ) * (((cells m).length : ℝ) * ε) ^ 2) := by
  constructor
  · refine exact_solver_reproduces_unitary cfg mziSolver (fun _ _ => rfl) ?_ ?_ ?_ U hU ε hε0 hsmall keep hkeep
    · intro a b s h
      simp only [mziSolver, Option.some.injEq] at h
      subst h
      exact mziC_mul_mziInvC _ _
    · intro a b s h
      simp only [mziSolver, Option.some.injEq] at h
      subst h
      exact mziC_isUnitary _ _
    · intro a b s h
      simp only [mziSolver, Option.some.injEq] at h
      subst h
      exact mzi_nulls' a b
  · refine exact_solver_reproduces_unitary cfg bsPsSolver (fun _ _ => rfl) ?_ ?_ ?_ U hU ε hε0 hsmall keep hkeep
    · intro a b s h
      simp only [bsPsSolver, Option.some.injEq] at h
      subst h
      exact bsPsC_mul_bsPsInvC _ _
    · intro a b s h
      simp only [bsPsSolver, Option.some.injEq] at h
      subst h
      exact bsPsC_isUnitary _ _
    · intro a b s h
      simp only [bsPsSolver, Option.some.injEq] at h
      subst h
      exact bsPs_nulls' a b

/-- `universal_block_exact_decomposition` (the universality of the triangular mesh, for the code's own elimination
order, branches and phase layer): when the threshold test accepts exact zeros only, for EVERY unitary `U` of every size
the exact algorithm returns a circuit of MZIs (resp. `BS//PS`) and phase shifters whose matrix IS `U` -/
theorem universal_block_exact_decomposition (cfg : Cfg ℂ) (hzero : ∀ x, cfg.small x = true → x = 0) {m : ℕ}
    (U : Matrix (Fin m) (Fin m) ℂ) (hU : IsUnitary U) (keep : ℂ → Bool) (hkeep : ∀ z, keep z = false → z = 1) :
    (∃ st, decomposeExact cfg mziSolver U = some st ∧
      circMat m (addPhases keep (fun i => phase (st.u.toMatrix i i)) ++ st.comps) = U) ∧
    (∃ st, decomposeExact cfg bsPsSolver U = some st ∧
      circMat m (addPhases keep (fun i => phase (st.u.toMatrix i i)) ++ st.comps) = U) := by
  have h := universal_block_reproduces_every_unitary cfg U hU 0 le_rfl
    (fun x hx => by rw [hzero x hx, norm_zero]) keep hkeep
  have fin : ∀ C : Matrix (Fin m) (Fin m) ℂ,
      frob (U - C) ≤ (Real.sqrt ((m : ℝ) - 1) + 2) * (((cells m).length : ℝ) * 0) +
          (m : ℝ) * (((cells m).length : ℝ) * 0) ^ 2 → C = U := by
    intro C hC
    have h0 : frob (U - C) = 0 := le_antisymm (by simpa using hC) (frob_nonneg _)
    exact (sub_eq_zero.1 (frob_eq_zero h0)).symm
  obtain ⟨⟨st1, h1, b1⟩, ⟨st2, h2, b2⟩⟩ := h
  exact ⟨⟨st1, h1, fin _ b1⟩, ⟨st2, h2, fin _ b2⟩⟩

/-- non-vacuity: a configuration whose threshold test accepts exact zeros only (`precision = 0`), with every flag on -/
example : ∃ cfg : Cfg ℂ, ∀ x, cfg.small x = true → x = 0 := by
  classical
  exact ⟨⟨fun x => decide (x = 0), true, true⟩, fun x hx => by simpa using hx⟩

/-- non-vacuity: the closed-form solvers answer every cell, the all-zero one included -/
example : (mziSolver 0 0).isSome = true ∧ (bsPsSolver 0 0).isSome = true := ⟨rfl, rfl⟩

end PM.C12


/-! ### which targets the NON-universal blocks can null (`Model/C12Other.lean`, `Lemmas/C12Other.lean`)

`Circuit.decomposition` accepts any two-mode block.  For two of the blocks the check exercises, the set of pairs
`(a, b) = (u[n,j], u[n+1,j])` whose equation has a root is characterised exactly: a cell outside that set cannot be
solved by ANY parameter value, so `decompose_triangle` answers `None` for mathematical reasons (for these blocks a
`None` is not a failure of the minimiser), and a returned circuit has passed through nullable cells only. -/

namespace PM.C12

/-- the matrix the equation of `BS(theta)` alone is built from is the inverse of the block -/
theorem bs_alone_equation_uses_inverse (θ : ℝ) : bsInvC θ * bsC θ = 1 := bsInvC_mul_bsC θ

/-- `BS(theta)` alone (one free parameter): the cell's equation has a root iff `Re(a·conj b) = 0` — the two entries
are a quarter turn apart (or one of them is 0).  Root: `theta = π` if `b = 0`, else `2·arctan(Im(a·conj b)/|b|²)`. -/
theorem bs_alone_nullable_iff (a b : ℂ) :
    (∃ θ : ℝ, nullEq (bsInvC θ) a b = 0) ↔ (a * (starRingEnd ℂ) b).re = 0 := bs_nullable_iff' a b

/-- `catalog['mzi phase first']` as built (`PS(φ_a)`, `BS`, `PS(φ_b)`, `BS`; phase shifters on mode 0) has the closed
form `mziFirstMat`, and the matrix the equation is built from is its inverse -/
theorem mzi_phase_first_equation_uses_inverse (φa φb : ℝ) :
    mziFirstC φa φb =
        mziFirstMat Complex.I (1 / 2) (Complex.exp (φa * Complex.I)) (Complex.exp (φb * Complex.I)) ∧
      mziFirstInvC φa φb * mziFirstC φa φb = 1 :=
  ⟨mziFirstC_eq_mziFirstMat φa φb, mziFirstInvC_mul_mziFirstC φa φb⟩

/-- in the equation of the phase-first MZI the outer phase `phi_a` is a common unit factor: whether a value of
`phi_b` nulls the cell does not depend on it -/
theorem mzi_phase_first_outer_phase_irrelevant (φa φa' φb : ℝ) (a b : ℂ) :
    nullEq (mziFirstInvC φa φb) a b = 0 ↔ nullEq (mziFirstInvC φa' φb) a b = 0 := by
  rw [nullEq_mziFirstInvC_iff, nullEq_mziFirstInvC_iff]

/-- `catalog['mzi phase first']` (two free phases, but only one of them acts): the cell's equation has a root iff
`Im(a·conj b) = 0` — the two entries have the same or opposite phase (or one of them is 0).  Root:
`phi_b = arg(a − i·b) − arg(a + i·b)`, any `phi_a`. -/
theorem mzi_phase_first_nullable_iff (a b : ℂ) :
    (∃ φa φb : ℝ, nullEq (mziFirstInvC φa φb) a b = 0) ↔ (a * (starRingEnd ℂ) b).im = 0 :=
  mziFirst_nullable_iff' a b

/-- neither block is universal for the triangular scheme: witnesses of cells no parameter value can null
(`(1, 1)` for `BS(theta)`, `(1, i)` for the phase-first MZI) — while the two universal blocks null them
(`bsPs_exists_nulling_parameters`, `mzi_exists_nulling_parameters`) -/
theorem non_universal_blocks_have_unsolvable_cells :
    (¬ ∃ θ : ℝ, nullEq (bsInvC θ) 1 1 = 0) ∧ (¬ ∃ φa φb : ℝ, nullEq (mziFirstInvC φa φb) 1 Complex.I = 0) := by
  constructor
  · rw [bs_alone_nullable_iff]; simp
  · rw [mzi_phase_first_nullable_iff]; simp

/-- non-vacuity: nullable cells exist for both (`(i, 1)` for `BS(theta)`, `(1, 1)` for the phase-first MZI) -/
example : (∃ θ : ℝ, nullEq (bsInvC θ) Complex.I 1 = 0) ∧ (∃ φa φb : ℝ, nullEq (mziFirstInvC φa φb) 1 1 = 0) := by
  constructor
  · rw [bs_alone_nullable_iff]; simp
  · rw [mzi_phase_first_nullable_iff]; simp

end PM.C12


/-! ### wave 7 (proofs only): the relaxed criteria, and `None` as mathematics at the level of a whole run

* `|equation| ≤ precision` is `solve`'s acceptance test.  For the two characterised non-universal blocks it forces the
  exact criteria of `bs_alone_nullable_iff` / `mzi_phase_first_nullable_iff` up to an explicit tolerance — the
  tolerance the harness applies to every solved cell of such a circuit (hand-derived until now).
* `exact_run_returns_circuit` had only one direction.  `exact_run_total_iff`: a solver makes `decompose_triangle`
  return for every request iff it answers every pair; `first_cell_unsolvable_run_fails`: the first cell visited is
  `(j, n) = (m−1, 0)` with the entries `U[0, m−1]`, `U[1, m−1]`, and with `ignore_identity_block` off a solver without
  answer for them means `None`.
* hence for `BS(theta)` alone and `catalog['mzi phase first']` there are matrices (of every size ≥ 2) that NO minimiser
  can decompose, even with the acceptance tolerance `ε`: `bs_alone_run_returns_none`,
  `mzi_phase_first_run_returns_none`. -/

namespace PM.C12

/-- `BS(theta)` alone, relaxed criterion: if SOME parameter value brings the equation of the cell `(a, b)` below `ε`
(`solve` accepted) then `|Re(a·conj b)| ≤ ε·√(|a|² + |b|²) ≤ √2·ε·max(|a|, |b|)` (the second bound is the one
`harness/c12.py` uses); at `ε = 0` this is the `→` of `bs_alone_nullable_iff` -/
theorem bs_alone_relaxed_criterion (θ ε : ℝ) (a b : ℂ) (h : ‖nullEq (bsInvC θ) a b‖ ≤ ε) :
    |(a * (starRingEnd ℂ) b).re| ≤ ε * Real.sqrt (‖a‖ ^ 2 + ‖b‖ ^ 2) ∧
      |(a * (starRingEnd ℂ) b).re| ≤ Real.sqrt 2 * ε * max ‖a‖ ‖b‖ := by
  have h1 := bs_relaxed' θ ε a b h
  have hε : 0 ≤ ε := le_trans (norm_nonneg _) h
  refine ⟨h1, le_trans h1 ?_⟩
  have := mul_le_mul_of_nonneg_left (sqrt_sq_add_sq_le_max ‖a‖ ‖b‖ (norm_nonneg _) (norm_nonneg _)) hε
  linarith

/-- `catalog['mzi phase first']`, relaxed criterion: if SOME parameter values bring the equation of the cell `(a, b)`
below `ε` then `|Im(a·conj b)| ≤ ε·(|a| + |b|)` (the bound `harness/c12.py` uses) -/
theorem mzi_phase_first_relaxed_criterion (φa φb ε : ℝ) (a b : ℂ)
    (h : ‖nullEq (mziFirstInvC φa φb) a b‖ ≤ ε) :
    |(a * (starRingEnd ℂ) b).im| ≤ ε * (‖a‖ + ‖b‖) := mziFirst_relaxed' φa φb ε a b h

/-- non-vacuity: the hypotheses are met (cells `(i, 1)` resp. `(1, 1)`, `ε = 0`) -/
example : (∃ θ : ℝ, ‖nullEq (bsInvC θ) Complex.I 1‖ ≤ 0) ∧
    (∃ φa φb : ℝ, ‖nullEq (mziFirstInvC φa φb) 1 1‖ ≤ 0) := by
  constructor
  · obtain ⟨θ, h⟩ := (bs_alone_nullable_iff Complex.I 1).2 (by simp)
    exact ⟨θ, by rw [h]; simp⟩
  · obtain ⟨φa, φb, h⟩ := (mzi_phase_first_nullable_iff 1 1).2 (by simp)
    exact ⟨φa, φb, by rw [h]; simp⟩

/-- the converse of `exact_run_returns_circuit`: `decompose_triangle` with the solver plugged in returns for EVERY
flag combination, size and matrix iff the solver answers every pair of entries -/
theorem exact_run_total_iff [CommRing R] (solver : R → R → Option (Sol R)) :
    (∀ (cfg : Cfg R) (m : ℕ) (U : Matrix (Fin m) (Fin m) R), ∃ st, decomposeExact cfg solver U = some st) ↔
      ∀ a b, (solver a b).isSome = true := decomposeExact_total_iff solver

/-- the first cell of the elimination is `(j, n) = (m−1, 0)`: with `ignore_identity_block` off (no identity skip, no
PERM substitution) a solver that has no answer for `(U[0, m−1], U[1, m−1])` makes the run return `None`, for every
size `m = k + 2`, threshold predicate and `permutation` setting -/
theorem first_cell_unsolvable_run_fails [CommRing R] (cfg : Cfg R) (hi : cfg.ignoreId = false)
    (solver : R → R → Option (Sol R)) (k : ℕ) (U : Matrix (Fin (k + 2)) (Fin (k + 2)) R)
    (hs : solver (U 0 (Fin.last (k + 1))) (U 1 (Fin.last (k + 1))) = none) :
    decomposeExact cfg solver U = none := decomposeExact_none_of_first_cell' cfg hi solver k U hs

/-- `BS(theta)` alone, a whole run: let the minimiser be ANY function whose accepted answers are instances of the block
with `|equation| ≤ ε` (what `solve` guarantees, `solve_sound`).  If the last column of `U` starts with a pair violating
the relaxed criterion, `decompose_triangle` (with `ignore_identity_block` off) returns `None` — for every size, every
threshold and whatever the minimiser does: this `None` is mathematics -/
theorem bs_alone_run_returns_none (cfg : Cfg ℂ) (hi : cfg.ignoreId = false) (solver : ℂ → ℂ → Option (Sol ℂ))
    (ε : ℝ) (hsol : ∀ a b s, solver a b = some s → ∃ θ : ℝ, s.2 = bsInvC θ ∧ ‖nullEq s.2 a b‖ ≤ ε)
    (k : ℕ) (U : Matrix (Fin (k + 2)) (Fin (k + 2)) ℂ)
    (hU : ε * Real.sqrt (‖U 0 (Fin.last (k + 1))‖ ^ 2 + ‖U 1 (Fin.last (k + 1))‖ ^ 2) <
      |(U 0 (Fin.last (k + 1)) * (starRingEnd ℂ) (U 1 (Fin.last (k + 1)))).re|) :
    decomposeExact cfg solver U = none := bs_run_none' cfg hi solver ε hsol k U hU

/-- the same for `catalog['mzi phase first']` with `|Im(a·conj b)| > ε·(|a| + |b|)` -/
theorem mzi_phase_first_run_returns_none (cfg : Cfg ℂ) (hi : cfg.ignoreId = false)
    (solver : ℂ → ℂ → Option (Sol ℂ)) (ε : ℝ)
    (hsol : ∀ a b s, solver a b = some s → ∃ φa φb : ℝ, s.2 = mziFirstInvC φa φb ∧ ‖nullEq s.2 a b‖ ≤ ε)
    (k : ℕ) (U : Matrix (Fin (k + 2)) (Fin (k + 2)) ℂ)
    (hU : ε * (‖U 0 (Fin.last (k + 1))‖ + ‖U 1 (Fin.last (k + 1))‖) <
      |(U 0 (Fin.last (k + 1)) * (starRingEnd ℂ) (U 1 (Fin.last (k + 1)))).im|) :
    decomposeExact cfg solver U = none := mziFirst_run_none' cfg hi solver ε hsol k U hU

/-- non-vacuity of `bs_alone_run_returns_none`: a solver that DOES answer (every nullable cell, with an exact root),
`ε = 0`, and a matrix whose first cell is `(1, 1)` -/
example : ∃ (cfg : Cfg ℂ) (solver : ℂ → ℂ → Option (Sol ℂ)) (ε : ℝ) (U : Matrix (Fin 2) (Fin 2) ℂ),
    cfg.ignoreId = false ∧
    (∀ a b s, solver a b = some s → ∃ θ : ℝ, s.2 = bsInvC θ ∧ ‖nullEq s.2 a b‖ ≤ ε) ∧
    (solver Complex.I 1).isSome = true ∧
    ε * Real.sqrt (‖U 0 (Fin.last 1)‖ ^ 2 + ‖U 1 (Fin.last 1)‖ ^ 2) <
      |(U 0 (Fin.last 1) * (starRingEnd ℂ) (U 1 (Fin.last 1))).re| := by
  refine ⟨⟨fun _ => false, false, false⟩, bsExactSolver, 0, !![0, 1; 0, 1], rfl, bsExactSolver_spec,
    bsExactSolver_answers, ?_⟩
  have : (Fin.last 1 : Fin 2) = 1 := rfl
  simp [this]

/-- non-vacuity of `mzi_phase_first_run_returns_none`: first cell `(1, i)` -/
example : ∃ (cfg : Cfg ℂ) (solver : ℂ → ℂ → Option (Sol ℂ)) (ε : ℝ) (U : Matrix (Fin 2) (Fin 2) ℂ),
    cfg.ignoreId = false ∧
    (∀ a b s, solver a b = some s → ∃ φa φb : ℝ, s.2 = mziFirstInvC φa φb ∧ ‖nullEq s.2 a b‖ ≤ ε) ∧
    (solver 1 1).isSome = true ∧
    ε * (‖U 0 (Fin.last 1)‖ + ‖U 1 (Fin.last 1)‖) <
      |(U 0 (Fin.last 1) * (starRingEnd ℂ) (U 1 (Fin.last 1))).im| := by
  refine ⟨⟨fun _ => false, false, false⟩, mziFirstExactSolver, 0, !![0, 1; 0, Complex.I], rfl,
    mziFirstExactSolver_spec, mziFirstExactSolver_answers, ?_⟩
  have : (Fin.last 1 : Fin 2) = 1 := rfl
  simp [this]

/-- non-vacuity of `first_cell_unsolvable_run_fails`, and necessity of `ignore_identity_block = off`: the same
solver-less request returns a circuit when the identity skip takes every cell -/
example : decomposeExact (⟨fun _ => false, false, false⟩ : Cfg ℂ) (fun _ _ => none)
      (1 : Matrix (Fin 2) (Fin 2) ℂ) = none ∧
    (decomposeExact (⟨fun _ => true, true, false⟩ : Cfg ℂ) (fun _ _ => none)
      (1 : Matrix (Fin 2) (Fin 2) ℂ)).isSome = true := by
  refine ⟨first_cell_unsolvable_run_fails _ rfl _ 0 _ rfl, ?_⟩
  simp [decomposeExact, cells, runF, stepF, List.range_succ]

/-- the relaxed criterion of `BS(theta)` is sharp up to the factor `√2`: for EVERY cell some parameter value brings the
equation down to `|Re(a·conj b)| / max(|a|, |b|)` (closed form: `2·arctan(Im(a·conj b)/|b|²)` resp.
`π − 2·arctan(Im(a·conj b)/|a|²)`), while by `bs_alone_relaxed_criterion` none goes below
`|Re(a·conj b)| / √(|a|² + |b|²)`; at `Re(a·conj b) = 0` this is the `←` of `bs_alone_nullable_iff` -/
theorem bs_alone_least_equation_bounds (a b : ℂ) :
    (∃ θ : ℝ, ‖nullEq (bsInvC θ) a b‖ * max ‖a‖ ‖b‖ ≤ |(a * (starRingEnd ℂ) b).re|) ∧
    (∀ θ : ℝ, |(a * (starRingEnd ℂ) b).re| ≤ ‖nullEq (bsInvC θ) a b‖ * Real.sqrt (‖a‖ ^ 2 + ‖b‖ ^ 2)) :=
  ⟨bs_near_root a b, fun θ => bs_relaxed' θ _ a b le_rfl⟩

/-- `catalog['mzi phase first']`: the least modulus of the equation over all parameter values, exactly:
`2·|Im(a·conj b)| / (|a − ib| + |a + ib|)` — a lower bound for every `(phi_a, phi_b)`, attained at
`phi_b = arg(a − ib) − arg(a + ib)` for every `phi_a` -/
theorem mzi_phase_first_least_equation (a b : ℂ) :
    (∀ φa φb : ℝ, 2 * |(a * (starRingEnd ℂ) b).im| ≤
      ‖nullEq (mziFirstInvC φa φb) a b‖ * (‖a - Complex.I * b‖ + ‖a + Complex.I * b‖)) ∧
    (∃ φb : ℝ, ∀ φa : ℝ, ‖nullEq (mziFirstInvC φa φb) a b‖ * (‖a - Complex.I * b‖ + ‖a + Complex.I * b‖) =
      2 * |(a * (starRingEnd ℂ) b).im|) :=
  ⟨fun φa φb => mziFirst_lower φa φb a b, mziFirst_attained a b⟩

/-- hence the cells `solve` can accept for `catalog['mzi phase first']` at precision `ε ≥ 0`, exactly (at `ε = 0`:
`mzi_phase_first_nullable_iff`) -/
theorem mzi_phase_first_eps_nullable_iff (ε : ℝ) (hε : 0 ≤ ε) (a b : ℂ) :
    (∃ φa φb : ℝ, ‖nullEq (mziFirstInvC φa φb) a b‖ ≤ ε) ↔
      2 * |(a * (starRingEnd ℂ) b).im| ≤ ε * (‖a - Complex.I * b‖ + ‖a + Complex.I * b‖) :=
  mziFirst_eps_nullable_iff ε hε a b

/-- non-vacuity / necessity of `0 ≤ ε`: with a negative `ε` the left side is false and the right side true at
`a = b = 0` -/
example : ¬ ((∃ φa φb : ℝ, ‖nullEq (mziFirstInvC φa φb) 0 0‖ ≤ (-1 : ℝ)) ↔
    2 * |((0 : ℂ) * (starRingEnd ℂ) 0).im| ≤ (-1 : ℝ) * (‖(0 : ℂ) - Complex.I * 0‖ + ‖(0 : ℂ) + Complex.I * 0‖)) := by
  intro h
  obtain ⟨φa, φb, h1⟩ := h.2 (by simp)
  have := norm_nonneg (nullEq (mziFirstInvC φa φb) 0 0)
  linarith

/-- `decompose_triangle` with the solver plugged in answers `None` EXACTLY when the loop reaches a cell `(j, n)` that
is neither an identity skip nor a PERM substitution and for whose current entries `(u[n, j], u[n+1, j])` the solver has
no answer (the completion of `exact_run_returns_circuit`: there is no other `return None`, and this one is taken) -/
theorem exact_run_returns_none_iff [CommRing R] (cfg : Cfg R) (solver : R → R → Option (Sol R)) {m : ℕ}
    (U : Matrix (Fin m) (Fin m) R) :
    decomposeExact cfg solver U = none ↔
      ∃ pre c post st', cells m = pre ++ c :: post ∧ runF cfg solver (initSt U []) pre = some st' ∧
        (cfg.small (getN st'.u.toMatrix c.2 c.1) && cfg.ignoreId) = false ∧
        (if cfg.usePerm then findK cfg st'.u.toMatrix c.2 c.1 else none) = none ∧
        solver (getN st'.u.toMatrix c.2 c.1) (getN st'.u.toMatrix (c.2 + 1) c.1) = none := by
  unfold decomposeExact
  rw [runF_none_iff]
  simp only [stepF_none_iff]

/-- which TWO-mode matrices the non-universal blocks decompose (`ignore_identity_block` off, the exact solvers that
answer every nullable cell with a root): `BS(theta)` alone exactly those with `Re(U[0,1]·conj U[1,1]) = 0`,
`catalog['mzi phase first']` exactly those with `Im(U[0,1]·conj U[1,1]) = 0`.  (For `m ≥ 3` the later cells see entries
already transformed by the earlier blocks: only the necessary condition on the first cell is proved,
`bs_alone_run_returns_none` / `mzi_phase_first_run_returns_none`.) -/
theorem non_universal_blocks_two_modes_iff (cfg : Cfg ℂ) (hi : cfg.ignoreId = false)
    (U : Matrix (Fin 2) (Fin 2) ℂ) :
    ((decomposeExact cfg bsExactSolver U).isSome = true ↔ (U 0 1 * (starRingEnd ℂ) (U 1 1)).re = 0) ∧
    ((decomposeExact cfg mziFirstExactSolver U).isSome = true ↔ (U 0 1 * (starRingEnd ℂ) (U 1 1)).im = 0) := by
  rw [decomposeExact_two cfg hi, decomposeExact_two cfg hi]
  exact ⟨bsExactSolver_isSome_iff _ _, mziFirstExactSolver_isSome_iff _ _⟩

/-- non-vacuity / necessity of `ignore_identity_block = off` in `non_universal_blocks_two_modes_iff`: with the skip on
and a threshold that calls everything negligible the matrix `[[0,1],[0,1]]` IS processed although `Re(1·conj 1) ≠ 0` -/
example : (decomposeExact (⟨fun _ => true, true, false⟩ : Cfg ℂ) bsExactSolver !![0, 1; 0, 1]).isSome = true ∧
    ((!![0, 1; 0, 1] : Matrix (Fin 2) (Fin 2) ℂ) 0 1 *
      (starRingEnd ℂ) ((!![0, 1; 0, 1] : Matrix (Fin 2) (Fin 2) ℂ) 1 1)).re ≠ 0 := by
  constructor
  · simp [decomposeExact, cells, runF, stepF, List.range_succ]
  · simp

end PM.C12


/-! ### round 8 (model grown): the parameter plumbing between `solve` and the circuit

`Model/C12Inst.lean`: what `decompose_triangle` does with the vector `solve` hands back — a deep copy of the block is
instantiated by `for i, r in enumerate(res): get_parameters()[0].fix_value(res[i])` (a MOVING index: a fixed parameter
is no longer listed), every value passes through `Parameter._check_value` (wrap-around of a periodic parameter,
`ValueError` outside the bounds of a non-periodic one) — and what reaches the minimiser: `bounds` is built from the
listed parameters (`None` for a periodic one) and shortened together with `x0` and `constraint` at every imposed index.
So far the theorems above took "the block the solver produced" as given; these say WHICH block the circuit receives. -/

namespace PM.C12

open Solve Inst

/-- the moving index is the positional assignment: `get_parameters()[0].fix_value(res[i])` for `i = 0, 1, …` gives the
`i`-th listed (non-fixed) parameter the value `res[i]`, whatever fixed parameters sit between them — including every
error path (a `ValueError` of `_check_value`, the `IndexError` when `res` is longer than the list) -/
theorem instantiation_is_positional (ps : List Par) (res : List ℚ) : instantiate ps res = assign ps res :=
  instantiate_eq_assign ps res

/-- with one value per listed parameter (what `solve` returns: `solve_imposed`), the instantiated block has NO free
parameter left, the same table length, bounds and periodic flags; every parameter that was fixed in the template is
untouched; the `i`-th listed one holds `_check_value(res[i])`, which is defined -/
theorem instantiated_block_fully_fixed (ps : List Par) (res : List ℚ) (ps' : List Par)
    (h : instantiate ps res = some ps') (hlen : res.length = (getParameters ps).length) :
    getParameters ps' = [] ∧ ps'.length = ps.length ∧ ps'.map Inst.static = ps.map Inst.static ∧
    List.Forall₂ (fun p q => p.free = false → q = p) ps ps' ∧
    (atFree ps ps').map (·.val) =
      List.zipWith (fun p v => checkValue v p.lo p.hi p.periodic) (getParameters ps) res ∧
    ∀ q ∈ atFree ps ps', q.val.isSome = true := by
  rw [instantiate_eq_assign] at h
  obtain ⟨h1, h2, h3, h4⟩ := assign_spec ps res ps' h
  obtain ⟨g1, g2, g3⟩ := h4 hlen
  exact ⟨g1, h1, h2, h3, g2, g3⟩

/-- non-vacuity, with a fixed parameter BETWEEN the two free ones (`BS(theta, phi_tr=0.37) // PS(phi)`): -/
example : instantiate [⟨true, none, some 0, some 4, true⟩, ⟨false, some (37/100), none, none, false⟩,
      ⟨true, none, some 0, some 2, true⟩] [1, 5] =
    some [⟨false, some 1, some 0, some 4, true⟩, ⟨false, some (37/100), none, none, false⟩,
      ⟨false, some 1, some 0, some 2, true⟩] := by decide +kernel

/-- the hypothesis on the length cannot be dropped: a vector that is too short leaves a symbolic parameter in the
circuit … -/
example : (instantiate [⟨true, none, none, none, false⟩, ⟨true, none, none, none, false⟩] [1]).map getParameters =
    some [⟨true, none, none, none, false⟩] := by decide +kernel

/-- … and one that is too long raises (`IndexError`), for every template -/
theorem instantiation_index_error (ps : List Par) (res : List ℚ) (h : (getParameters ps).length < res.length) :
    instantiate ps res = none := by
  rw [instantiate_eq_assign]; exact assign_too_many ps res h

/-- the loop does not raise when every value passes `_check_value` of its own parameter -/
theorem instantiation_succeeds (ps : List Par) (res : List ℚ)
    (h : List.Forall₂ (fun p v => (checkValue v p.lo p.hi p.periodic).isSome = true) (getParameters ps) res) :
    (instantiate ps res).isSome = true := by
  rw [instantiate_eq_assign]; exact assign_isSome ps res h

/-- `_check_value`: a value inside `[min, max]` is stored as it is (periodic or not) — this is the case of every value
the bounded minimiser returns for a NON-periodic parameter, whose bounds `decompose_triangle` passes on … -/
theorem stored_value_in_range (v l h : ℚ) (per : Bool) (hl : l ≤ v) (hh : v ≤ h) (hlt : l < h) :
    checkValue v (some l) (some h) per = some v := checkValue_in_range per hl hh hlt

/-- … outside them it raises `ValueError` (the whole call to `Circuit.decomposition` raises) … -/
theorem nonperiodic_out_of_bounds_raises (v l h : ℚ) (hout : v < l ∨ h < v) :
    checkValue v (some l) (some h) false = none := checkValue_nonperiodic_out hout

/-- … and for a PERIODIC parameter (no bounds reach the minimiser: the value is arbitrary) the stored value differs from
the solver's by a whole number of periods and lies in `[min, max]`: it never raises.  (The matrix `RI` multiplied into
`u` is evaluated at the UNWRAPPED value: both agree because the block is periodic in that parameter — property C14.) -/
theorem stored_value_periodic (v l h : ℚ) (hlt : l < h) :
    ∃ k : ℤ, checkValue v (some l) (some h) true = some (v + k * (h - l)) ∧
      l ≤ v + k * (h - l) ∧ v + k * (h - l) ≤ h := by
  obtain ⟨k, hk, h1, h2⟩ := wrap_spec (v := v) hlt
  exact ⟨k, by simp [checkValue, hlt, hk], hk ▸ h1, hk ▸ h2⟩

/-- non-vacuity: `phi = 7` in `[0, 2]` is stored as `1` (three periods down); `l < h` is needed by the MODEL (a
degenerate period is outside it) -/
example : checkValue 7 (some 0) (some 2) true = some 1 ∧ checkValue 7 (some 2) (some 2) true = none := by
  decide +kernel

/-- `x0` and `bounds` stay ALIGNED through the recursion of `solve`: whatever the constraint imposes, the minimiser is
reached with exactly the entries of `x0` and of `bounds` at the positions the constraint leaves free, in order — so
the `k`-th bound it sees belongs to the `k`-th parameter it optimises, and there are as many as free positions -/
theorem solve_bounds_stay_aligned {γ δ : Type} (x0 : List γ) (bs : List δ) (cs : List (Option ℚ))
    (hx : x0.length = cs.length) (hb : bs.length = cs.length) :
    optArgs x0 bs cs = (freeOf x0 cs, freeOf bs cs) ∧
    (optArgs x0 bs cs).1.zip (optArgs x0 bs cs).2 = freeOf (x0.zip bs) cs ∧
    (optArgs x0 bs cs).1.length = (cs.filter (·.isNone)).length ∧
    (optArgs x0 bs cs).2.length = (cs.filter (·.isNone)).length := by
  rw [optArgs_eq_freeOf x0 bs cs hx hb]
  exact ⟨rfl, freeOf_zip x0 bs cs, length_freeOf x0 cs hx, length_freeOf bs cs hb⟩

/-- non-vacuity: the middle parameter imposed -/
example : optArgs [10, 20, 30] ["a", "b", "c"] [none, some (5 : ℚ), none] = ([10, 30], ["a", "c"]) := by
  simp [optArgs, firstSome]

/-- `solve` + instantiation: the vector `solve` hands back for a constraint with one entry per listed parameter
instantiates the block completely (no symbolic parameter is left in the returned circuit) as soon as the loop does not
raise — for every minimiser that preserves the number of values, every precision, with or without `allow_error` -/
theorem solved_block_has_no_free_parameter [AddGroup β] [LinearOrder β] (opt : (List ℚ → β) → List ℚ → List ℚ)
    (hopt : ∀ g y, (opt g y).length = y.length) (ae : Bool) (prec : β) (f : List ℚ → β) (x0 : List ℚ)
    (cs : List (Option ℚ)) (x : List ℚ) (ps ps' : List Par)
    (hx0 : x0.length = cs.length) (hcs : cs.length = (getParameters ps).length)
    (hs : solve opt ae prec f x0 cs = some x) (hi : instantiate ps x = some ps') :
    getParameters ps' = [] ∧ ∀ q ∈ atFree ps ps', q.val.isSome = true := by
  have hl := (solve_imposed opt hopt ae prec f x0 cs x hx0 hs).1
  obtain ⟨h1, _, _, _, _, h6⟩ := instantiated_block_fully_fixed ps x ps' hi (hl.trans hcs)
  exact ⟨h1, h6⟩

end PM.C12

namespace PM.C12

open Inst

/-- the repaired `Circuit.decomposition` (`U = Matrix(U)` before the test): every object that passes the
"non symbolic" test is processed as a numeric matrix, so the phase layer can always be read off it -/
theorem validated_input_is_processed_numerically (c : MatClass) (h : passesSymbolicTest c = true) :
    workingClass true c = .numeric ∧ phaseLayerReadable (workingClass true c) = true := by
  cases c <;> simp_all [passesSymbolicTest, workingClass, MatClass.normalise, MatClass.isSymbolic, phaseLayerReadable]

/-- the pinned code tests a converted COPY and then works on the caller's object: a sympy-class matrix of plain numbers
passes the test and reaches `add_phases` as it is (`AttributeError: 'Float' object has no attribute 'real'`) — the
witness of the defect `symbolic-class-input-crashes` (fixes/C12-symbolic-class-input.diff) -/
theorem pinned_code_processes_symbolic_object :
    ∃ c, passesSymbolicTest c = true ∧ phaseLayerReadable (workingClass false c) = false :=
  ⟨.symbolicDefined, by decide, by decide⟩

/-- a matrix with free symbols is refused by both versions (the `symbolic` flag of the glue model) -/
theorem free_symbols_refused : passesSymbolicTest .symbolicFree = false := by decide

end PM.C12
