/-
  C12 — property theorems about the decomposition bookkeeping (model: `Model/C12.lean`).

  Full property (properties.jsonl): "Decomposing a unitary matrix onto a mesh of a given building block
  returns either nothing or a circuit made only of copies of that block (plus the optional phase layer and
  permutations) whose matrix equals the requested one within the stated precision when the phase layer is
  requested, and equals it up to a diagonal phase matrix otherwise; this also holds with the
  horizontal/vertical inversion options.  For a universal block such as a Mach-Zehnder interferometer with
  two free phases a circuit is found within the configured retries."

  Proved here, for every commutative ring `R` (so for ℂ), every size `m`, every threshold predicate, every
  flag combination and EVERY sequence of solver results (the solver is an oracle):
  * the bookkeeping reconstructs `U` exactly: `circMat comps · u_final + err = U`, where `err` is the explicit
    sum of the entries overwritten by `u[n,j] = 0`, each propagated through the components prepended so far;
  * hence, when the final `u` is a diagonal `D` and nothing non-zero was overwritten, the circuit with the
    phase layer has matrix `U` and the circuit without it has matrix `U · D⁻¹`;
  * the phase layer realises the diagonal; the quadrant logic of `add_phases` returns the right angle;
  * the PERM component the code inserts has the matrix of the row swap the code applies;
  * the `inverse_v` / `inverse_h` wrap returns a circuit for `U` itself, *assuming* every component's own
    `inverse` is correct (that is property C11; the current `BS.inverse` violates it, see the manifest note).

  NOT proved (named residue): that the numerical solver finds parameters (`decomposeTriangle … = some _`
  and "within the configured retries"), that the final `u` of a unitary input is diagonal up to the
  precision (`lower_triangular_unitary_is_diagonal` is the exact-arithmetic half of it; the floating-point
  half is measured on every instance by the harness), and the size of `err` (≤ number of cells × precision in
  spectral norm for unitary blocks; measured on every instance, never assumed).
-/
import PercevalModel.Lemmas.C12
import PercevalModel.Lemmas.C12Phase
import PercevalModel.Num.GQ
import Mathlib.LinearAlgebra.Matrix.Notation
import Mathlib.LinearAlgebra.Matrix.Block
import Mathlib.Tactic.FinCases

open Matrix

namespace PM.C12

variable {R : Type}

/-- `triangle_reconstruct` (general form).  Whatever the solver returned (any list of blocks `B` with the
matrices `Binv`, `B · Binv = 1`, the code multiplied with), whatever the thresholds decided, the components
accumulated by `decompose_triangle`, the final `u` and the overwritten entries reconstruct `U` exactly. -/
theorem triangle_reconstruct_with_error [CommRing R] (cfg : Cfg R) {m : ℕ}
    (U : Matrix (Fin m) (Fin m) R) (sols : List (Sol R)) (hgood : ∀ s ∈ sols, s.1 * s.2 = 1)
    (st : St R m) (h : decomposeTriangle cfg U sols = some st) :
    circMat m st.comps * st.u.toMatrix + st.err.toMatrix = U :=
  (run_inv cfg (cells m) (cells_ok m) (initSt_inv U sols hgood) h).1

/-- `triangle_reconstruct`: if the final `u` is a diagonal `D` (and the overwritten entries were zeros),
the product of the blocks and permutations times `D` is `U` — including the PERM-substitution and the
identity-skip branches. -/
theorem triangle_reconstruct [CommRing R] (cfg : Cfg R) {m : ℕ}
    (U : Matrix (Fin m) (Fin m) R) (sols : List (Sol R)) (hgood : ∀ s ∈ sols, s.1 * s.2 = 1)
    (st : St R m) (h : decomposeTriangle cfg U sols = some st)
    (D : Fin m → R) (hD : st.u.toMatrix = Matrix.diagonal D) (herr : st.err.toMatrix = 0) :
    circMat m st.comps * Matrix.diagonal D = U := by
  have := triangle_reconstruct_with_error cfg U sols hgood st h
  rw [hD, herr, add_zero] at this
  exact this

/-- `phases_realise_diag`: the layer built by `add_phases` has the diagonal matrix whose entries are the
`D[idx]` that pass the test and 1 elsewhere. -/
theorem phases_realise_diag [CommRing R] {m : ℕ} (keep : R → Bool) (D : Fin m → R) :
    circMat m (addPhases keep D) = Matrix.diagonal (fun i => if keep (D i) then D i else 1) := by
  unfold addPhases
  rw [circMat_ps_list D _ (List.nodup_reverse.2 ((List.nodup_finRange m).filter _))]
  congr 1
  funext i
  simp [List.mem_reverse, List.mem_filter, List.mem_finRange]

/-- With the phase layer (entries failing the test are exactly 1, as is the case for unit-modulus entries:
`add_phases_skips_only_one`), the returned circuit `phases ++ components` has matrix exactly `U`. -/
theorem triangle_reconstruct_with_phases [CommRing R] (cfg : Cfg R) {m : ℕ}
    (U : Matrix (Fin m) (Fin m) R) (sols : List (Sol R)) (hgood : ∀ s ∈ sols, s.1 * s.2 = 1)
    (st : St R m) (h : decomposeTriangle cfg U sols = some st)
    (D : Fin m → R) (hD : st.u.toMatrix = Matrix.diagonal D) (herr : st.err.toMatrix = 0)
    (keep : R → Bool) (hkeep : ∀ i, keep (D i) = false → D i = 1) :
    circMat m (addPhases keep D ++ st.comps) = U := by
  rw [circMat_append, phases_realise_diag]
  have : (fun i => if keep (D i) then D i else 1) = D := by
    funext i
    by_cases hk : keep (D i) = true
    · simp [hk]
    · simp only [hk]
      exact (hkeep i (by simpa using hk)).symm
  rw [this]
  exact triangle_reconstruct cfg U sols hgood st h D hD herr

/-- Without the phase layer the circuit's matrix is `U` times a diagonal matrix (the inverse of the
residual diagonal). -/
theorem triangle_reconstruct_up_to_diagonal [CommRing R] (cfg : Cfg R) {m : ℕ}
    (U : Matrix (Fin m) (Fin m) R) (sols : List (Sol R)) (hgood : ∀ s ∈ sols, s.1 * s.2 = 1)
    (st : St R m) (h : decomposeTriangle cfg U sols = some st)
    (D D' : Fin m → R) (hD : st.u.toMatrix = Matrix.diagonal D) (herr : st.err.toMatrix = 0)
    (hDD' : ∀ i, D i * D' i = 1) :
    circMat m st.comps = U * Matrix.diagonal D' := by
  rw [← triangle_reconstruct cfg U sols hgood st h D hD herr, Matrix.mul_assoc,
    Matrix.diagonal_mul_diagonal]
  have : (fun i => D i * D' i) = fun _ => 1 := funext hDD'
  rw [this, Matrix.diagonal_one, Matrix.mul_one]

/-- The PERM component inserted by the code (`permutation([d,1,…,d-1,0])` on modes `n..n+d`, matrix
`u[p[i], i] = 1`) is the row swap `RI` the code multiplies `u` with. -/
theorem perm_component_is_row_swap [Zero R] [One R] {m n d : ℕ} (hd : 1 ≤ d) (hfit : n + d + 1 ≤ m) :
    compMat (R := R) m (.perm n d) = swapMat m n (n + d) :=
  perm_comp_eq_swap hd hfit

/-- `add_phases`, quadrant logic: for a unit-modulus entry `a + ib` the phase chosen satisfies
`(cos φ, sin φ) = (a, b)`, and no phase shifter is inserted only when the entry is exactly 1. -/
theorem add_phases_angle {a b : ℝ} (h : a ^ 2 + b ^ 2 = 1) :
    match phaseOf a b with
    | some φ => Real.cos φ = a ∧ Real.sin φ = b
    | none => a = 1 ∧ b = 0 := by
  unfold phaseOf
  by_cases hc : b ≠ 0 ∨ a < 0
  · rw [if_pos hc]
    simp only
    by_cases hb : b = 0
    · have ha : a < 0 := by
        rcases hc with hc | hc
        · exact absurd hb hc
        · exact hc
      have : a = -1 := by
        have h1 : (a - 1) * (a + 1) = 0 := by rw [hb] at h; nlinarith
        rcases mul_eq_zero.1 h1 with h2 | h2 <;> linarith
      rw [if_pos hb, this, hb]
      simp
    · rw [if_neg hb]
      by_cases ha : a = 0
      · rw [if_pos ha]
        have h1 : (b - 1) * (b + 1) = 0 := by rw [ha] at h; nlinarith
        by_cases hpos : b > 0
        · have : b = 1 := by rcases mul_eq_zero.1 h1 with h2 | h2 <;> linarith
          rw [if_pos hpos, ha, this]
          simp
        · have hb1 : b = -1 := by
            rcases mul_eq_zero.1 h1 with h2 | h2
            · exfalso; apply hpos; linarith
            · linarith
          rw [if_neg hpos, ha, hb1]
          have e : 3 * Real.pi / 2 = Real.pi / 2 + Real.pi := by ring
          rw [e, Real.cos_add_pi, Real.sin_add_pi]
          simp
      · rw [if_neg ha]
        by_cases hneg : a < 0
        · rw [if_pos hneg, Real.cos_add_pi, Real.sin_add_pi, cos_arctan_div h ha,
            sin_arctan_div h ha, abs_of_neg hneg]
          constructor
          · ring
          · field_simp
        · have hpos : 0 < a := lt_of_le_of_ne (not_lt.1 hneg) (Ne.symm ha)
          rw [if_neg hneg, cos_arctan_div h ha, sin_arctan_div h ha, abs_of_pos hpos]
          constructor
          · rfl
          · field_simp
  · rw [if_neg hc]
    simp only
    have hb : b = 0 := by
      by_contra hb; exact hc (Or.inl hb)
    have ha : 0 ≤ a := by
      by_contra ha; exact hc (Or.inr (not_le.1 ha))
    refine ⟨?_, hb⟩
    have h1 : (a - 1) * (a + 1) = 0 := by rw [hb] at h; nlinarith
    rcases mul_eq_zero.1 h1 with h2 | h2 <;> linarith

/-- Consequence used as the hypothesis `hkeep` above: the test `b != 0 or a < 0` fails on a unit-modulus
entry only when that entry is 1. -/
theorem add_phases_skips_only_one {a b : ℝ} (h : a ^ 2 + b ^ 2 = 1) (hn : phaseOf a b = none) :
    a = 1 ∧ b = 0 := by
  have := add_phases_angle h
  rw [hn] at this
  exact this

/-- `inversion_wrap`: `Circuit.inverse(v, h)` on a flat circuit (list reversed for `h`, every range
mirrored for `v`, every component inverted) — *assuming* every component's own `inverse` is right
(`hinv`, the subject of property C11): the matrix is mirrored for `v`, and is the two-sided inverse for `h`. -/
theorem inversion_wrap [CommRing R] (v h : Bool) (m : ℕ)
    (inv : (k : ℕ) → Matrix (Fin k) (Fin k) R → Matrix (Fin k) (Fin k) R) (ls : List (Leaf R))
    (hf : Fits m ls)
    (hinv : h = true → ∀ l ∈ ls, l.2.2 * inv l.2.1 l.2.2 = 1 ∧ inv l.2.1 l.2.2 * l.2.2 = 1) :
    ∃ H, prodLeaves m (inverseCircuit v h m inv ls) = vflipIf v H ∧
      (if h then H * prodLeaves m ls = 1 ∧ prodLeaves m ls * H = 1 else H = prodLeaves m ls) := by
  refine ⟨prodLeaves m (inverseCircuit false h m inv ls), ?_, ?_⟩
  · have e : inverseCircuit v h m inv ls =
        (inverseCircuit false h m inv ls).map (invLeaf v false m inv) := by
      unfold inverseCircuit
      rw [List.map_map]
      apply List.map_congr_left
      intro l _
      exact invLeaf_comp v h m inv l
    rw [e]
    apply prodLeaves_map_vflip
    unfold inverseCircuit
    apply fits_map_invLeaf_false
    cases h
    · exact hf
    · exact fits_reverse hf
  · cases h
    · simp only [Bool.false_eq_true, if_false, inverseCircuit]
      have : ls.map (invLeaf false false m inv) = ls := by
        conv_rhs => rw [← List.map_id ls]
        apply List.map_congr_left
        intro l _
        simp [invLeaf, vflipIf]
      rw [this]
    · simp only [if_true, inverseCircuit]
      exact prodLeaves_reverse_inv m inv ls hf (hinv rfl)

/-- `Circuit.decomposition` with `inverse_v` / `inverse_h`: the triangle decomposition is run on
`np.flip(U⁻¹)` (each only if requested); if the circuit it returns has that matrix, the circuit returned to the
caller after `C.inverse(v, h)` has matrix `U` (under the per-component assumption of `inversion_wrap`). -/
theorem decomposition_inverse_options [CommRing R] (v h : Bool) (m : ℕ)
    (inv : (k : ℕ) → Matrix (Fin k) (Fin k) R → Matrix (Fin k) (Fin k) R) (ls : List (Leaf R))
    (hf : Fits m ls)
    (hinv : h = true → ∀ l ∈ ls, l.2.2 * inv l.2.1 l.2.2 = 1 ∧ inv l.2.1 l.2.2 * l.2.2 = 1)
    (U Uinv : Matrix (Fin m) (Fin m) R) (hU : Uinv * U = 1)
    (hdec : prodLeaves m ls = preProcess v h U Uinv) :
    prodLeaves m (inverseCircuit v h m inv ls) = U := by
  obtain ⟨H, hQ, hH⟩ := inversion_wrap v h m inv ls hf hinv
  rw [hQ]
  cases h
  · simp only [Bool.false_eq_true, if_false] at hH
    rw [hH, hdec]
    simp [preProcess, vflipIf_vflipIf]
  · simp only [if_true] at hH
    have h1 : H * vflipIf v Uinv = 1 := by
      have := hH.1
      rw [hdec] at this
      simpa [preProcess] using this
    have h2 : vflipIf v H * Uinv = 1 := by
      have := congrArg (vflipIf v) h1
      rwa [vflipIf_mul, vflipIf_vflipIf, vflipIf_one] at this
    calc vflipIf v H = vflipIf v H * (Uinv * U) := by rw [hU, Matrix.mul_one]
      _ = (vflipIf v H * Uinv) * U := by rw [Matrix.mul_assoc]
      _ = U := by rw [h2, Matrix.one_mul]

/-- "a circuit made only of copies of that block (plus … permutations)": every entry of the component list
returned by `decompose_triangle` is a block the solver produced, placed on two adjacent modes inside the circuit,
or — only if a permutation type was supplied and `ignore_identity_block` is on — a PERM inside the circuit.
(The phase layer is separate: `addPhases` produces phase shifters only, by definition.) -/
theorem components_are_blocks_or_perms [CommRing R] (cfg : Cfg R) {m : ℕ}
    (U : Matrix (Fin m) (Fin m) R) (sols : List (Sol R)) (st : St R m)
    (h : decomposeTriangle cfg U sols = some st) :
    ∀ c ∈ st.comps, CompOK cfg m sols c :=
  (run_made cfg sols (cells m) (cells_ok m) (st := initSt U sols)
    ⟨fun c hc => by simp [initSt] at hc, fun s hs => by simpa [initSt] using hs⟩ h).1

/-- `upper_triangular_unitary_is_diagonal` (stretch goal of the design, here for the triangle the loop actually
produces): the loop nulls every `u[n, j]` with `n < j`, so the final `u` is lower triangular; a lower-triangular
matrix whose conjugate transpose is a right inverse is diagonal.  In exact arithmetic the hypothesis "the final
`u` is a diagonal" of `triangle_reconstruct` is therefore a consequence of unitarity of the input and the blocks
(the floating-point residue is measured per instance by the harness: `off2`). -/
theorem lower_triangular_unitary_is_diagonal [CommRing R] [StarRing R] {n : ℕ}
    (L : Matrix (Fin n) (Fin n) R) (hL : ∀ i j, i < j → L i j = 0) (hU : L * Lᴴ = 1) :
    ∀ i j, i ≠ j → L i j = 0 := by
  have hbt : Matrix.BlockTriangular L OrderDual.toDual := fun i j hij => hL i j (by simpa using hij)
  haveI : Invertible L := invertibleOfRightInverse L Lᴴ hU
  have hinv : L⁻¹ = Lᴴ := Matrix.inv_eq_right_inv hU
  have hbt' := Matrix.blockTriangular_inv_of_blockTriangular hbt
  rw [hinv] at hbt'
  intro i j hij
  rcases lt_or_gt_of_ne hij with h | h
  · exact hL i j h
  · have := hbt' (i := j) (j := i) (by simpa using h)
    simpa [Matrix.conjTranspose_apply] using this

/-! ### non-vacuity -/

/-- a rational rotation and its inverse -/
def exB : Matrix (Fin 2) (Fin 2) GQ := !![⟨3/5, 0⟩, ⟨-4/5, 0⟩; ⟨4/5, 0⟩, ⟨3/5, 0⟩]
def exBinv : Matrix (Fin 2) (Fin 2) GQ := !![⟨3/5, 0⟩, ⟨4/5, 0⟩; ⟨-4/5, 0⟩, ⟨3/5, 0⟩]
def exCfg : Cfg GQ :=
  { small := fun z => decide (GQ.normSq z ≤ 1 / 10 ^ 12), ignoreId := true, usePerm := true }

/-- The per-component hypothesis of `inversion_wrap` cannot be dropped (this is how the pinned `BS.inverse`,
which does not exchange the phases it should — property C11, DESIGN.md §10 item 1 — breaks `inverse_h`/`inverse_v`
decompositions): with a component-level `inverse` that leaves the matrix unchanged, the circuit returned for a
rational rotation `U` has matrix `U⁻¹ ≠ U`. -/
theorem inversion_wrap_needs_component_inverse :
    ¬ (∀ (inv : (k : ℕ) → Matrix (Fin k) (Fin k) GQ → Matrix (Fin k) (Fin k) GQ) (ls : List (Leaf GQ))
        (U Uinv : Matrix (Fin 2) (Fin 2) GQ), Fits 2 ls → Uinv * U = 1 →
        prodLeaves 2 ls = preProcess false true U Uinv →
        prodLeaves 2 (inverseCircuit false true 2 inv ls) = U) := by
  intro h
  have hfit : Fits 2 [((0 : ℕ), (⟨2, exBinv⟩ : Σ k, Matrix (Fin k) (Fin k) GQ))] := by
    intro l hl
    simp only [List.mem_singleton] at hl
    subst hl
    decide
  have := h (fun _ B => B) [(0, ⟨2, exBinv⟩)] exB exBinv hfit (by decide +kernel) (by decide +kernel)
  revert this
  decide +kernel

/-- the hypotheses of `triangle_reconstruct` (and of the two corollaries) are satisfiable: a 2-mode rotation,
one good solver result; the run succeeds, the final `u` is the identity (a diagonal), nothing non-zero is
overwritten and exactly one block is produced -/
example : (∀ s ∈ [(exB, exBinv)], s.1 * s.2 = 1) ∧
    ((decomposeTriangle exCfg exB [(exB, exBinv)]).map fun st =>
      decide (st.u.toMatrix = Matrix.diagonal (fun _ => 1) ∧ st.err.toMatrix = 0 ∧
        st.comps.length = 1 ∧ st.rest.length = 0)) = some true := by
  refine ⟨?_, by decide +kernel⟩
  intro s hs
  simp only [List.mem_singleton] at hs
  subst hs
  decide +kernel

/-- the PERM branch is reachable: the 3-mode swap of modes 0 and 2 is decomposed into three adjacent PERMs
and no block (empty solver list) — the structure `tests/test_decomposition.py::test_perm_0` pins for 4 modes -/
example : ((decomposeTriangle exCfg (swapMat 3 0 2 : Matrix (Fin 3) (Fin 3) GQ) []).map fun st =>
      decide (st.comps.length = 3 ∧ st.u.toMatrix = 1 ∧ st.nskip = 0 ∧ st.err.toMatrix = 0)) = some true := by
  decide +kernel

/-- the identity-skip branch is reachable: the identity needs no component at all -/
example : ((decomposeTriangle exCfg (1 : Matrix (Fin 3) (Fin 3) GQ) []).map fun st =>
      decide (st.comps.length = 0 ∧ st.u.toMatrix = 1 ∧ st.nskip = 3 ∧ st.err.toMatrix = 0)) = some true := by
  decide +kernel

/-- a failing solver (`res is None`) is `none`: a rotation cannot be decomposed with no solver result -/
example : (decomposeTriangle exCfg exB []).isNone = true := by decide +kernel

/-- the hypotheses of `inversion_wrap` / `decomposition_inverse_options` are satisfiable -/
example : Fits 3 [((1 : ℕ), (⟨2, exB⟩ : Σ k, Matrix (Fin k) (Fin k) GQ))] ∧
    exB * exBinv = 1 ∧ exBinv * exB = 1 := by
  refine ⟨?_, by decide +kernel, by decide +kernel⟩
  intro l hl
  simp only [List.mem_singleton] at hl
  subst hl
  decide

/-- the hypothesis of `add_phases_angle` is satisfiable (a fourth-quadrant unit complex number) -/
example : ((3 : ℝ) / 5) ^ 2 + (-4 / 5) ^ 2 = 1 := by norm_num

/-- the hypotheses of `lower_triangular_unitary_is_diagonal` are satisfiable (a diagonal of unit phases) -/
example : (∀ i j : Fin 2, i < j → (!![GQ.I, 0; 0, 1] : Matrix (Fin 2) (Fin 2) GQ) i j = 0) ∧
    (!![GQ.I, 0; 0, 1] : Matrix (Fin 2) (Fin 2) GQ) * (!![GQ.I, 0; 0, 1] : Matrix (Fin 2) (Fin 2) GQ)ᴴ = 1 := by
  refine ⟨?_, by decide +kernel⟩
  intro i j h
  fin_cases i <;> fin_cases j <;> first | rfl | exact absurd h (by decide)

/-- `phases_realise_diag` / `hkeep`: with the test "entry ≠ 1" a diagonal `(1, i)` gets one phase shifter -/
example : (addPhases (fun z => decide (z ≠ 1)) (![1, GQ.I] : Fin 2 → GQ)).length = 1 := by
  decide +kernel

end PM.C12
